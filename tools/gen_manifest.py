#!/venv/bin/python
"""writes /verif/MANIFEST.json from the table below (kept valid at all times)"""
import json
import os

ROOT = os.path.dirname(os.path.dirname(os.path.abspath(__file__)))

CHECKS = {
    "C01": dict(
        technique="executable IEEE-1364 semantics in TLA+ (VerilogSem) interpreting the parsed text that the real convert() "
                  "emitted; the FHDL side is the executed reference simulator; TLC judges recorded (expression, target, "
                  "valuation) cases (ExprJudge) and per-cycle traces of generated fragments, memories and real LiteX cores "
                  "(VlogTrace); the expression space is enumerated by TLC (ExprSpace)",
        text="all depth-1 and a spine space of depth-2 expression ASTs over 17 operators/slices/Cat/Replicate x shapes x "
             "targets x positions x all valuations (0.8M pairs quick, 8M thorough), 150 (1500) generated fragments with "
             "two clock domains, 60 (500) memories in every port mode, 10-17 real cores; ExprEquivalent, StepEq, "
             "SingleDriver, ImageLegal are invariants of the recorded cases; mismatches are classified by hypothesis "
             "modes (intermediate overflow etc.).",
        note="2-state zero-delay subset, widths <= 30 bit, instances/tristates opaque; VerilogSem is trusted (ASSUME "
             "self-tests from the standard); 31 known-finding classes incl. negative constants printed unsigned (listed); "
             "an unexplained mismatch inside a listed class would be masked",
        ref="4 (C01)", engine="tlc+api"),
    "C02": dict(
        technique="TLA+ specs of the name-request state machine (Namer/NamerM, model-checked) and of the input space "
                  "(NamerInputs, enumerated by TLC); recorded name tables of the real SignalNamespace / convert() "
                  "judged by TLC trace specs (NamerTrace, Netlist)",
        text="TLC enumerates sets of signals with adversarial back-traces, overrides, related chains and all 248 "
             "IEEE-1800 keywords, in all request/duid/set orders; the real build_signal_namespace/get_name and the real "
             "convert() (five fresh interpreters: tracer shim on/off, hash seeds 0/1) are executed; Injective, Stable, "
             "LegalSyntax, NotReserved, OrderIndependentUniqueness, DeclUnique, Reproducible are invariants of the "
             "recorded outcomes; the design itself is model-checked for all request orders over 3-5 signals.",
        note="bounded universes (<=5 signals, back-traces <=3); a conversion that raises is not judged; known findings: "
             "three keywords not reserved, suffix look-alike collision (listed)",
        ref="4 (C02)", engine="tlc+api"),
    "C03": dict(
        technique="TLA+ contract (StreamContract) model-checked by TLC on the closed-loop product of a nondeterministic "
                  "producer/consumer with the transition graph of the real netlist (state-loading FHDL stepper); "
                  "recorded simulation traces validated against the same spec; L2: register-level TLA+ model (StreamModel) "
                  "checked against the same contract in M-mode at larger parameters and bound to the code by exhaustive "
                  "conformance (every edge of the real netlists' graphs, every cycle of realistic-width runs)",
        text="TLC explores every valid/ready schedule and token sequence (reduced alphabets) against every reachable "
             "state of each real stream element and of 2-3 element pipelines; safety clauses InOrderExactlyOnce/"
             "Bounded and liveness NothingLost are checked on the complete product graph; long traces at real "
             "widths are validated against the same contract; the L2 model (PipeValid, PipeReady, SyncFIFO +/- buffered, "
             "width converters, Gearbox) is model-checked for FIFO depth <= 8 (12), ratios <= 8, gearbox pairs up to 10:4.",
        note="exhaustive only for the listed element parameterisations and 1-4 bit payload alphabets; FHDL semantics "
             "= litex/gen/sim/core.py; stream producer holds its offer (protocol assumption); the L2 model gives no "
             "verdict (a disagreement with the code is MODEL-DRIFT and triggers deeper L1 exploration of that element)",
        ref="4 (C03/C04)"),
    "C04": dict(
        technique="TLA+ contract (StreamContract) model-checked by TLC (safety ValidHold + liveness Progress under "
                  "fairness) on the closed-loop product with the real netlist's transition graph; lasso counterexamples "
                  "replayed linearly on the real code; the packet elements of packet.py (Packetizer, Depacketizer, PacketFIFO, "
                  "Arbiter, Dispatcher, Status) are explored the same way for their handshake clauses; L2 model as for C03",
        text="ValidHold is an invariant of every reachable product state; Progress/ProgressSink are temporal "
             "properties checked by TLC on the complete graph under weak fairness, i.e. every infinite cooperative "
             "run of the real element is covered, which no terminating test can observe.  For the packet elements a held "
             "beat is compared field by field (defined bytes, last, header fields).",
        note="same trusted base as C03; progress is required only when producer and consumer cooperate forever; padding "
             "bytes after the end of a packet in a Packetizer's final word are don't-cares",
        ref="4 (C03/C04)"),
    "C05": dict(
        technique="TLA+ contract (CdcContract) model-checked by TLC on the closed-loop product of a two-clock "
                  "environment (TLC chooses every interleaving of edges incl. simultaneous ones) with the transition "
                  "graph of the real netlist, where an edge coinciding with a change of a synchroniser's source has one "
                  "successor per per-bit old/new resolution of its first flop (metastability injection); liveness "
                  "Progress / Fresh under fair clocks",
        text="real stream.AsyncFIFO / ClockDomainCrossing (depth 4, 1-bit payload) and real BusSynchronizer (width 2-3, "
             "time-outs 12/24 at drift 1/2): InOrderExactlyOnce, ValidHold, NeverOverflows, OnlyRealWords are "
             "invariants of every reachable state under every edge schedule and every resolution; a canary with the "
             "premise broken (time-out 8) must tear a word or the run fails.",
        note="binary per-bit metastability abstraction; FIFO drift bounded by 2-3 edges in G-mode; AsyncResetSynchronizer is "
             "the simulator's stand-in; with_common_rst, PulseSynchronizer and AXILiteClockDomainCrossing (thorough) are "
             "covered; tokens with param/first/last fields only in the two-clock simulation traces (T-mode)",
        ref="4 (C05)"),
    "C06": dict(
        technique="TLA+ contract (WbIcContract) model-checked by TLC (safety + liveness Served under fairness) on the "
                  "closed-loop product of nondeterministic Wishbone masters/slaves with the transition graph of the "
                  "real InterconnectShared/Crossbar netlists",
        text="all request arrival patterns (back-to-back, simultaneous, wait states, withdrawn unmapped requests), all "
             "slave latencies from combinational feedback upwards and ack/err answers are explored for 1-3 masters x "
             "1-3 slaves, shared and crossbar, registered and unregistered decode, three address maps built from real "
             "SoCRegion decoders; six safety clauses are invariants, Served is checked on the complete graph.",
        note="masters hold strobed requests (Wishbone classic); data identity by tags (master id in dat_w, slave id in "
             "dat_r); bounds 3x3; known finding: registered decode + zero-latency slave (listed)",
        ref="4 (C06)"),
    "C07": dict(
        technique="TLA+ flat-memory contract (FlatMemContract) model-checked by TLC (safety + liveness Served) on the "
                  "closed-loop product of a nondeterministic Wishbone master with the transition graph of the real "
                  "adapter + SRAM netlists (memory contents are part of the explored state)",
        text="every history of reads/writes (all addresses, byte selects incl. none, two byte values, gaps) is explored "
             "against every reachable state - memory, cache data/tag/dirty contents included - of SRAM (rw/ro), "
             "DownConverter, UpConverter, Converter chains, Remapper (origin/mask and region lists), Wishbone2CSR "
             "(+/- register) in front of csr_bus.SRAM and the write-back Cache (line = / > / < master word, evictions).",
        note="memories of 2-8 (bursts: 2-32) words, bytes from a 2-value alphabet; classic cycles and B4 registered-feedback "
             "bursts (FlatMemBurst: constant, incrementing linear / wrap-4/8/16, master wait states inside a burst and cyc "
             "ahead of stb); every chain ends in the repository's own SRAM; known finding: Cache power-up tags hit (listed)",
        ref="4 (C07)"),
    "C08": dict(
        technique="TLA+ contract (AxiLiteIcContract) model-checked by TLC (safety + liveness Served/ServedIfGaps under "
                  "fairness) on the closed-loop product of nondeterministic AXI4-Lite masters/slaves with the "
                  "transition graph of the real AXILiteArbiter/Decoder/InterconnectShared/Crossbar netlists",
        text="all channel schedules of one direction (address before/with/after data, 1-2 outstanding, back-pressure on "
             "every channel, slaves accepting address and data independently and delaying responses) for decoder 1x2(3), "
             "arbiter 2(3)x1, shared and crossbar 2x2 (thorough 3x2/3x3); seven safety clauses are invariants, "
             "service is a temporal property on the complete graph.",
        note="write and read directions explored separately (the code keeps separate state per direction); tags instead of "
             "data; known findings: data-before-address misrouted, request to another slave while outstanding "
             "misrouted, arbiter starvation under back-to-back traffic (listed)",
        ref="4 (C08)"),
    "C09": dict(
        technique="TLA+ flat-memory contracts per master protocol (FlatMemAxiLite/Wb/Axi/Ahb) plus slave-side protocol "
                  "monitors (SlaveSide) model-checked by TLC (safety + liveness Served) on the closed-loop product with "
                  "the transition graph of real bridge + stall shim + the repository's own memory",
        text="AXILite2Wishbone, Wishbone2AXILite, AXILiteSRAM, AXILiteDown/UpConverter, AXILite2CSR, AXILite2AXI, "
             "Wishbone2AXI, AXI2AXILite, AXI2Wishbone (bursts of 1-4 beats), AHB2Wishbone and two real add_adapter "
             "chains under every request history and every partner timing the shims allow; nine clauses are invariants.",
        note="reduced byte alphabets and 2-8 word memories; partners with >=1 cycle ack latency and one queued request; "
             "two defects repaired, six known findings (listed)",
        ref="4 (C09)"),
    "C10": dict(
        technique="AMBA burst address rules as TLA+ operators (AxiBurst); requests enumerated by TLC, executed on the real "
                  "AXIBurst2Beat / AXIUp/DownConverter netlists, recorded beats judged by TLA+ case specs; G-mode "
                  "closed loop for short bursts under all stall patterns; L2 model of the expander model-checked "
                  "against the formulae",
        text="12000 (thorough 38000) legal bursts x stall modes through the real expander, 4500 (12000) converter runs "
             "at ratios 2/4/8, short bursts exhaustively under every stall pattern with liveness BurstTerminates.",
        note="converters are trace-validated with seeded stall patterns (ten ports: alphabet too large for G-mode); "
             "ten known findings on unsupported burst classes accepted silently (listed)",
        ref="4 (C10)"),
    "C11": dict(
        technique="TLA+ contract (WbIcContract time-out clauses, ErrCounterGraph) model-checked by TLC on the closed-loop "
                  "product of masters and FAULTY slaves (silent forever / late / answering in the expiry cycle) with the "
                  "transition graph of the real interconnect+Timeout netlist; liveness Recovers",
        text="TLC chooses which slave stops answering and when, unmapped addresses, late answers in the very cycle the "
             "timer expires, for time-outs 1..4 on shared interconnects (1-3 masters); TerminatedInTime, ErrorIndication, "
             "NoDisturbance and the routing clauses are invariants of every reachable state; the SoC error counter is "
             "explored from reset and from a seeded state 4 counts below 2^32-1.",
        note="Wishbone only so far (AXI-Lite/AXI time-outs are added with the C08 family); the default 10^6-cycle "
             "time-out is the same netlist with a wider counter; known finding: wishbone.Crossbar has no time-out",
        ref="4 (C11)"),
    "C12": dict(
        technique="TLA+ contracts (CsrBankContract, CsrSramContract) model-checked by TLC on the closed-loop product of a "
                  "CSR-bus master plus device-side inputs with the transition graph of real CSRBankArray/CSRBank/"
                  "InterconnectShared netlists built from enumerated register lists; construction cases enumerated by TLC",
        text="register sets over all kinds (raw CSR, storage +/- atomic, device-writable, status +/- writable, fields, "
             "pulse fields, fixed locations), sizes 1..2w+1 at bus words 2/4 (T-mode 8/16/32), big/little ordering, two "
             "banks, paging; eleven clauses are invariants of every reachable state under all bus/device interleavings.",
        note="multi-word behaviour established at reduced bus words; we and re in the same cycle not explored; known "
             "finding: atomic_write with little ordering commits on the first address (listed)",
        ref="4 (C12)"),
    "C13": dict(
        technique="TLA+ spec of the API call-history space (SocAlloc, enumerated by TLC); histories executed on the "
                  "real SoCBusHandler/SoCRegion/SoCLocHandler/ConstraintManager; every recorded prefix judged by a TLA+ "
                  "trace spec (SocAllocTrace), real decoders evaluated with the reference evaluator",
        text="all call histories up to length 3-4 (thorough 4-5) in a scaled universe (16-unit address space, non "
             "power-of-two sizes, misaligned origins, IO/linker/cached flags, boundary location numbers, platform "
             "request/lookup sequences) plus seeded deep histories; 14 clauses, one INVARIANT each.",
        note="bus geometry on a 16-unit grid; handler level only (no full SoC.finalize); known findings: location "
             "n == n_locs accepted, uncached allocation in the pow2 slack of an IO region, overlapping slave in a "
             "linker region (listed)",
        ref="4 (C13)", engine="tlc+api"),
    "C14": dict(
        technique="TLA+ spec of the SoC configuration space (SocConfigs: exhaustive core grid + seeded simulation) built as "
                  "real CPU-less SoCs; published maps parsed (C accessors statement by statement) and exercised through "
                  "the SoC's own bus master on the real netlist; recorded facts judged by a TLA+ spec (ExportTruth)",
        text="254 (thorough 2744) SoCs over bus standard x width x interconnect x CSR width x paging x ordering with "
             "enumerated peripherals, 592 memory images; nine clauses incl. RegisterAtPublishedAddress, "
             "MultiWordAccessorsCompose, FormatsAgree, MemImageLanes are invariants of the recorded facts.",
        note="SoC space sampled apart from the 144-combination grid; interrupts only with a stub CPU; access clauses are "
             "masked where a listed finding applies (csr width 8, little ordering)",
        ref="4 (C14)", engine="tlc+api"),
    "C15": dict(
        technique="TLA+ contract (EventContract) model-checked by TLC on the closed-loop product of free trigger "
                  "waveforms and CSR bus operations with the transition graph of the real EventManager+CSRBank netlist",
        text="every interleaving of trigger waveforms on 1-2 (thorough: 3) sources of every kind mix with CSR "
             "reads/writes of status/pending/enable (incl. same-cycle trigger and clear, back-to-back W1C writes) is "
             "explored against every reachable state of the real netlist; all seven clauses are invariants.",
        note="8-bit CSR bus, one or two managers behind real CSRBanks; W1C clear latency window 1..3 cycles is "
             "a parameter of the contract; UART/Timer/GPIO clients are covered only through their EventManager",
        ref="4 (C15)"),
    "C16": dict(
        technique="TLA+ contracts (PacketFrame with the header Layout defined at bit level, PacketFifo, PacketRoute) "
                  "model-checked by TLC on the closed-loop product with the transition graphs of the real Packetizer/"
                  "Depacketizer/PacketFIFO/Arbiter/Dispatcher netlists; recorded simulations at real widths validated "
                  "against the same specs",
        text="all valid/ready schedules for headers of 1-7 bytes (aligned, unaligned, bit offsets, byte swap), data "
             "width 8/16/32, packets of 1-3 beats back to back, FIFO depth 2-4, 1-4 masters/slaves with selector changes "
             "mid-packet; ByteLayout, LastPlacement, HeaderFields, OnlyCompletePackets, Atomic, SelLatchedOnFirst, "
             "BoundedWait are invariants, Liveness/Served temporal properties; a blocked-FIFO canary must fail.",
        note="exhaustive at reduced parameters, realistic widths sampled in T-mode; no last_be in this tree; three "
             "defects repaired, two known findings (short header, odd-width swapped field) listed",
        ref="4 (C16)"),
    "C17": dict(
        technique="implementation function tables recorded exhaustively from the real encoder/decoder netlists and "
                  "model-checked by TLC (Code8b10b: all symbol sequences via a disparity/run-length state machine); "
                  "G-mode closed loop and trace validation for the stream wrappers",
        text="RoundTrip for all 268 symbols x both disparities, InvalidOnImpossibleWeight for all 1024 words, "
             "DisparityWithinOne / RunLength / NoFalseComma as invariants over ALL symbol sequences, DisparityChaining "
             "for 1-4 words; StreamEncoder/StreamDecoder under all valid/ready schedules with small alphabets.",
        note="stream wrappers exhaustive for 2-5 symbol alphabets and <=3 words; known finding: StreamEncoder advances "
             "its running disparity on idle payload (listed)",
        ref="4 (C17)"),
    "C18": dict(
        technique="cases recorded from the real combinational ECCEncoder/ECCDecoder netlists and judged by a TLA+ "
                  "spec (Secded) with words as bit-position sets; TLC also plans the case space and decides coverage",
        text="exhaustive for k=1..6 (all data x all 0/1/2-flip sets, enable on/off), all flip sets x >=5 data words "
             "for k=7..32, and the linear-code argument (unit vectors, all single positions, sampled pairs) for k up "
             "to 128.",
        note="for k>32 'all data words' rests on GF(2) linearity, probed by samples; parity position taken as interface",
        ref="4 (C18)", engine="tlc+fhdl_step"),
    "C19": dict(
        technique="TLA+ protocol contracts (Uart, SpiMaster, SpiSlave, I2c, Timers) model-checked by TLC (safety + "
                  "liveness Finishes) on the closed-loop product of command/line environments with the transition graphs "
                  "of the real RS232PHY TX/RX, SPIMaster, SPISlave, I2CMaster, Timer, Watchdog, WaitTimer, timeline, PWM "
                  "netlists; recorded simulations at realistic parameters validated against the same specs",
        text="all command timings relative to the divider phase, back-to-back and overlapping commands, all data words "
             "at reduced widths, bit periods 2..16/3 cycles (TX) and 4..16 cycles with +-2% mismatch at every phase (RX); "
             "waveform, count, framing and event clauses are invariants, completion is a temporal property; vacuity "
             "witnesses are required.",
        note="reduced widths/dividers in G-mode (Timer/Watchdog 2-3 bit, 30 bit in T-mode); UART FIFO/CSR wrapper not "
             "composed; six known findings (listed)",
        ref="4 (C19)"),
    "C20": dict(
        technique="TLA+ spec of the request space (PllRequests: seeded simulation + two exhaustive sub-spaces) "
                  "executed on the real clocking helpers; configurations, emitted Instance parameters and declared "
                  "ranges judged by a TLA+ spec with exact rational arithmetic (PllConfig) incl. TLC's own feasibility "
                  "search for refusals",
        text="MeetsRequest, InsideRanges, InstanceEqualsConfig, RefusedOnlyIfInfeasible as invariants over ~2300 "
             "(quick) / ~34000 (thorough) requests across Xilinx S6/S7/US/US+, Lattice ECP5/iCE40/NX, Intel, Gowin, "
             "Efinix Trion helpers and all speed grades.",
        note="sampling plus exhaustive one-output / fill-all-outputs sub-spaces, not the whole request space; float "
             "boundary cases classified indeterminate and counted; 12 known findings (listed)",
        ref="4 (C20)", engine="tlc+api"),
}

NOT_APPLICABLE = []

# session 3: environment audits / strengthening (DESIGN.md 8.6 round 3, 8.7) and L2 lanes (DESIGN.md 9)
EXTRA_NOTES = {
    "C15": "session 3: L2 lane (EventModel composed from CsrBankModel); managers with 3-6 sources run on the netlist in T-mode and exhaustively on the model (narrowed trigger alphabet), G-mode keeps 1-2 sources per manager",
    "C12": "session 3: L2 lane (CsrBankModel incl. csr_bus.SRAM and the construction/ordering of registers): conformance on 401k graph edges and 1836 construction cases; M-mode banks of 5-6 registers up to 4 words",
    "C11": "session 3: Wishbone part: L2 lane as C06 (time-outs up to 8 with faulty slaves); Recovers was vacuous and is repaired (premise NoHog, canary); AXI-Lite and AXI4 time-outs are covered by their own contracts (specs/axilto), no model",
    "C08": "session 3: L2 lane (AxiLiteIcModel, both directions in one product): M-mode at 3x3 with 3 outstanding adds DirectionsShareNothing and ReadWriteIndependent; AXILiteTimeout and the AXI4 twin have no model",
    "C06": "session 3: L2 lane (WbIcModel: RoundRobin, Arbiter, Decoder, Timeout, shared/crossbar): conformance on all graph edges + random 4x4 runs, M-mode up to 4 masters / 4 slaves; the liveness clause Served was vacuous and is repaired (premise NoHog) with a stuck-grant canary",
    "C05": "session 3: L2 lane (CdcModel): set-valued metastable successors conform on 537k graph edges; M-mode explores the FIFO crossings under UNBOUNDED clock drift (depth 4 two-valued, 8/16 single-valued tokens) and measures the shortest safe BusSynchronizer time-out (4R+6), canaries replayed on the netlist; the model gives no verdict",
    "C01": "session 3: eight back-end defects repaired in /repo (signed literals, signedness of comparisons / shifts / selects, Case "
           "items of a signed test, whole slice of a signed value, initial value of register ports); the overflow classes no longer "
           "absorb those causes; 25 listed classes remain (intermediate overflow as named by the property, simulator-side exact "
           "integers, memory template modes, multi-driver lowerings)",
    "C02": "session 3: port declarations with initial values understood",
    "C07": "session 3 audit: bus lines carrying other slaves' requests while this slave is not addressed (cyc without stb, stb "
           "without cyc), cache geometries that really miss (multi-word evict/refill), Remapper origin/region/byte-addressed "
           "parameters with the clause SlaveAddressMapped, 16-bit byte-addressed Wishbone2CSR; every chain still ends in "
           "wishbone.SRAM (slave latency 1 only); known finding: Wishbone2CSR partial-select write on a CSR bus wider than 8 bit",
    "C09": "session 3 audit: Wishbone cyc/stb de-correlated, AXI-Lite partners accepting addresses or data ahead, sub-word faulting "
           "regions, byte-addressed Wishbone sides, 64-bit AHB2Wishbone, HSEL low, add_adapter direction s2m; 3 further known "
           "findings (AXI2AXILite r.last / early WRITE-RESP with partners that accept ahead)",
    "C10": "session 3 audit: junk on request and payload lines while valid is low, capabilities {FIXED, INCR}, AXIConverter with "
           "equal widths",
    "C13": "session 3 audit: the decoders do_finalize really hands to the interconnect are evaluated (InterconnectDecoders), IO "
           "regions of other alignment, reserved_regions / reserved_csrs",
    "C14": "session 3 audit: ROM images from files inside real SoCs incl. big-endian (MemImageInRegion), CSR memories wider than the "
           "bus / deeper than a page, SVD field ranges (SvdFieldsTrue), descending image regions",
    "C16": "session 3 audit: split (_lsb/_msb) header fields, unaligned Packetizer under the complete environment, junk while idle in "
           "G-mode for PacketFIFO / Arbiter / Dispatcher, layouts without params; ValidHold compares the held beat",
    "C17": "session 3 audit: decoder sweep (every 10-bit word after representative predecessors, held through stalls), bursty stream "
           "profiles with witnesses",
    "C19": "session 3: redundant I2C START/STOP commands and status polling (ReadReturnsStatus), SPI MOSI rewritten mid-transfer, "
           "MisoHeld / ResultHeld, SPI slave on a shared bus, RS232PHY wrapper incl. dynamic-baudrate reset value",
    "C20": "session 3: band-edge request class enumerated exhaustively per device variant; two more GW1NPLL defects repaired, "
           "GW1NPLL floor-only divisor refusal listed",
}

ORDER = ["C%02d" % i for i in range(1, 21)]


def main():
    props = [json.loads(l) for l in open(os.path.join(ROOT, "properties.jsonl"))]
    ids = [p["id"] for p in props]
    checks = []
    for pid in ORDER:
        if pid not in CHECKS:
            continue
        c = CHECKS[pid]
        checks.append({
            "property_id": pid,
            "quick_cmd": "./check %s --tier quick" % pid,
            "thorough_cmd": "./check %s --tier thorough" % pid,
            "evidence_file": "/verif/evidence/%s.json" % pid,
            "replay_cmd_template": "./check %s --replay {path}" % pid,
            "engine": c.get("engine", "tlc+fhdl_step"),
            "level_claimed": {"category": c.get("category", "model_checking"), "text": c["text"],
                              "design_ref": "DESIGN.md section " + c["ref"]},
            "level_note": c["note"] + ("; " + EXTRA_NOTES[pid] if pid in EXTRA_NOTES else ""),
            "technique": c["technique"],
        })
    na = list(NOT_APPLICABLE)
    claimed = {c["property_id"] for c in checks}
    listed = {x["property_id"] for x in na}
    for pid in ids:
        if pid not in claimed and pid not in listed:
            na.append({"property_id": pid, "reason": "check not built yet in this round (planned, see DESIGN.md 7); "
                       "not claimed until its TLA+ spec and conformance harness exist"})
    m = {
        "version": 1,
        "setup_cmd": "./tools/setup.sh",
        "hooks": {
            "guard": "LITEX_VERIF",
            "enable": "no source hooks are needed: RTL is observed through the repository's own simulator semantics, "
                      "Python state through public attributes (LITEX_VERIF is reserved, unused)",
            "baseline_off_cmd": "cd /repo && /venv/bin/python -m pytest -ra -q -p no:cacheprovider --timeout=900 "
                                "--continue-on-collection-errors",
            "source_commits": [],
            "add_only": True,
        },
        "engines": [
            {"name": "tlc+fhdl_step", "path": "harness/", "serves_properties": sorted(claimed),
             "kind_free_text": "TLC 1.8 on hand-written TLA+ specs (specs/), bound to the code by closed-loop graph "
                               "construction (harness/graphloop.py + fhdl_step.py), trace validation "
                               "(harness/tracecheck.py) and replay of TLC counterexamples (harness/gcheck.py)"},
        ],
        "checks": checks,
        "not_applicable": na,
        "notes": "see DESIGN.md; ./check <ID> --tier quick|thorough is the only entry point",
    }
    with open(os.path.join(ROOT, "MANIFEST.json"), "w") as f:
        json.dump(m, f, indent=1)
    print("MANIFEST.json: %d checks, %d not_applicable" % (len(checks), len(na)))


if __name__ == "__main__":
    main()
