#!/bin/sh
# tools/seed_eval.sh <seed-name> <dir with SEED/patch.diff demo.py meta.json> <check id> [...]
# confirms a seeded change in a scratch worktree of /repo's HEAD, runs the named checks against it,
# stores it under /verif/seeded/<seed-name>/ and removes the scratch worktree.
set -u
NAME="$1"; SRC="$2"; shift 2
WT=/tmp/seedwt-$NAME
OUT=/verif/seeded/$NAME
mkdir -p "$OUT"
cp "$SRC/SEED/patch.diff" "$SRC/SEED/demo.py" "$OUT/" 2>/dev/null
cp "$SRC/SEED/meta.json" "$OUT/meta.agent.json" 2>/dev/null
git -C /repo worktree remove --force "$WT" >/dev/null 2>&1
git -C /repo worktree add --detach "$WT" HEAD -q || exit 2
cd "$WT" || exit 2
echo "--- demo on unchanged tree"
PYTHONPATH="$WT" timeout 600 /venv/bin/python "$OUT/demo.py" > "$OUT/demo_unchanged.txt" 2>&1; RC0=$?
tail -2 "$OUT/demo_unchanged.txt"; echo "rc=$RC0"
git apply "$OUT/patch.diff" || { echo "PATCH DOES NOT APPLY"; exit 2; }
echo "--- demo on changed tree"
PYTHONPATH="$WT" timeout 600 /venv/bin/python "$OUT/demo.py" > "$OUT/demo_changed.txt" 2>&1; RC1=$?
tail -2 "$OUT/demo_changed.txt"; echo "rc=$RC1"
echo "--- repository tests on changed tree"
PYTHONPATH="$WT" timeout 3000 /venv/bin/python -m pytest -q -p no:cacheprovider --timeout=900 --continue-on-collection-errors > "$OUT/tests_changed.txt" 2>&1
TESTS=$(tail -1 "$OUT/tests_changed.txt"); echo "$TESTS"
cd /verif
RES=""
for C in "$@"; do
  echo "--- ./check $C against the changed tree"
  VERIF_EVIDENCE_DIR="$OUT/evidence" VERIF_REPLAY_DIR="$OUT/replays" VERIF_REPO="$WT" timeout 1500 ./check "$C" --tier quick > "$OUT/check_$C.txt" 2>&1; RC=$?
  grep -E "^VIOLATION|^  .*violated|^$C quick|MACHINERY" "$OUT/check_$C.txt" | head -6
  echo "check $C rc=$RC"
  RES="$RES $C:rc=$RC"
done
git -C /repo worktree remove --force "$WT"
echo "{\"demo_unchanged_rc\": $RC0, \"demo_changed_rc\": $RC1, \"tests_changed\": \"$TESTS\", \"checks\": \"$RES\"}" > "$OUT/eval.json"
cat "$OUT/eval.json"
