#!/venv/bin/python
"""merges the findings files of the helper-built checks (notes/*_findings.json) into known_findings.json (by id;
an entry already listed keeps the listed version).  Run by hand after a helper has delivered; never by a check."""
import glob
import json
import os

ROOT = os.path.dirname(os.path.dirname(os.path.abspath(__file__)))
main = os.path.join(ROOT, "known_findings.json")
d = json.load(open(main))
have = {f.get("id") for f in d["findings"]}
added = 0
for p in sorted(glob.glob(os.path.join(ROOT, "notes", "*_findings.json"))):
    try:
        n = json.load(open(p))
    except Exception as ex:
        print("skip %s: %s" % (p, ex))
        continue
    for f in (n.get("findings", []) if isinstance(n, dict) else n):
        if not isinstance(f, dict) or "property" not in f or f.get("id") in have:
            continue
        if f.get("status") not in ("known", "fixed"):
            continue
        d["findings"].append(f)
        have.add(f.get("id"))
        added += 1
        print("+ %s (%s) from %s" % (f.get("id"), f.get("status"), os.path.basename(p)))
json.dump(d, open(main, "w"), indent=1)
print("%d added, %d listed" % (added, len(d["findings"])))
