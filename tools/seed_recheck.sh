#!/bin/sh
# tools/seed_recheck.sh <seed-name> <check id> [...]
# re-runs the named checks (quick tier) against a stored seeded change after the checks have been strengthened;
# the first outputs are kept as check_<ID>.before.txt
set -u
NAME="$1"; shift
OUT=/verif/seeded/$NAME
WT=/tmp/seedwt-$NAME
git -C /repo worktree remove --force "$WT" >/dev/null 2>&1
git -C /repo worktree add --detach "$WT" HEAD -q || exit 2
git -C "$WT" apply "$OUT/patch.diff" || { echo "PATCH DOES NOT APPLY"; git -C /repo worktree remove --force "$WT"; exit 2; }
cd /verif
for C in "$@"; do
  [ -f "$OUT/check_$C.txt" ] && [ ! -f "$OUT/check_$C.before.txt" ] && mv "$OUT/check_$C.txt" "$OUT/check_$C.before.txt"
  VERIF_EVIDENCE_DIR="$OUT/evidence" VERIF_REPLAY_DIR="$OUT/replays" VERIF_REPO="$WT" timeout 2400 ./check "$C" --tier quick > "$OUT/check_$C.txt" 2>&1; RC=$?
  grep -E "^VIOLATION|^  .*violated|^$C quick|MACHINERY" "$OUT/check_$C.txt" | head -4
  echo "recheck $NAME $C rc=$RC"
done
git -C /repo worktree remove --force "$WT"
