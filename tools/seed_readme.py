#!/venv/bin/python
"""writes seeded/README.md from the eval.json / check outputs of every seeded change"""
import glob
import json
import os
import re

ROOT = os.path.dirname(os.path.dirname(os.path.abspath(__file__)))
rows = []
for d in sorted(glob.glob(os.path.join(ROOT, "seeded", "*"))):
    if not os.path.isdir(d):
        continue
    name = os.path.basename(d)
    try:
        ev = json.load(open(os.path.join(d, "eval.json")))
    except Exception:
        continue
    try:
        meta = json.load(open(os.path.join(d, "meta.agent.json")))
    except Exception:
        meta = {}
    checks = []
    first_missed = []
    for f in sorted(glob.glob(os.path.join(d, "check_*.txt"))):
        if f.endswith(".before.txt"):
            # output of the check BEFORE it was strengthened (kept for the record)
            if not re.search(r"(?m)^VIOLATION ", open(f, errors="replace").read()):
                first_missed.append(os.path.basename(f)[6:-11])
            continue
        cid = os.path.basename(f)[6:-4]
        txt = open(f, errors="replace").read()
        nv = len(re.findall(r"(?m)^VIOLATION ", txt))
        m = re.search(r"(?m)^  (.*violated.*)$", txt)
        first = m.group(1)[:110] if m else ""
        checks.append((cid, nv, first))
    caught = any(nv > 0 for _, nv, _ in checks)
    # meta.json for the kept change
    keep = {
        "property": meta.get("property", name.split("-")[0]),
        "summary": meta.get("summary", ""),
        "needs": meta.get("needs", ""),
        "files_changed": meta.get("files_changed", []),
        "confirmed": {"demo_unchanged_rc": ev.get("demo_unchanged_rc"), "demo_changed_rc": ev.get("demo_changed_rc"),
                      "tests_on_changed_tree": ev.get("tests_changed")},
        "ran": ["tools/seed_eval.sh %s <agent worktree> %s" % (name, " ".join(c for c, _, _ in checks))],
        "detected_by": [{"check": c, "violations": nv, "first": first} for c, nv, first in checks],
    }
    json.dump(keep, open(os.path.join(d, "meta.json"), "w"), indent=1)
    keep["first_missed_by"] = first_missed
    json.dump(keep, open(os.path.join(d, "meta.json"), "w"), indent=1)
    rows.append((name, keep["property"], keep["summary"], keep["needs"], checks, caught, ev, first_missed))
with open(os.path.join(ROOT, "seeded", "README.md"), "w") as f:
    f.write("# Seeded changes\n\nEach directory holds a change to enjoy-digital/litex written by an independent sub-agent that saw only the "
            "property text (patch.diff, demo.py, the agent's meta.agent.json), our confirmation on a fresh scratch worktree "
            "(eval.json, demo_*.txt, tests_changed.txt: demo passes unchanged / fails changed, repository tests unchanged) and the "
            "output of the named checks run against the changed tree (`VERIF_REPO=<worktree> ./check <ID> --tier quick`).\n\n"
            "| seed | property | what it needs to manifest | caught by (quick tier) | first clause reported |\n|---|---|---|---|---|\n")
    for name, prop, summ, needs, checks, caught, ev, fm in rows:
        cb = ", ".join("%s (%d)" % (c, nv) for c, nv, _ in checks if nv) or "**not caught**"
        if fm:
            cb += " - first MISSED by %s, caught after strengthening" % ", ".join(fm)
        first = next((fi for _, nv, fi in checks if nv), "")
        f.write("| %s | %s | %s | %s | %s |\n" % (name, prop, str(needs).replace("|", "/").replace("\n", " ")[:260], cb, first.replace("|", "/")))
print("%d seeds, %d caught" % (len(rows), sum(1 for r in rows if r[5])))
