"""tools/seed_prompt.py <ID> <round>  ->  prints the brief given to an independent seeding sub-agent.
The agent sees only the property text and its scratch worktree, nothing from /verif."""
import json
import sys

AVOID = {
    "C01": "the memory port template and `_lower_slice_cat` (already used)",
    "C02": "the leaf test of the hierarchical namer and the `_<n>` suffix skipping in SignalNamespace (already used)",
    "C03": "Gearbox and the up-converter strobe/flag handling (already used)",
    "C04": "Gearbox and the up-converter flag latching (already used)",
    "C05": "BusSynchronizer (already used twice)",
    "C06": "the Arbiter request expression and wishbone.Timeout (already used)",
    "C07": "the Cache dirty bit and the DownConverter read shift register (already used)",
    "C08": "the AXI-Lite arbiter grant/lock and _AXILiteRequestCounter (already used)",
    "C09": "the AXILiteDownConverter response register and Wishbone2AXILite's w-done flag (already used)",
    "C10": "AXIBurst2Beat (already used twice)",
    "C11": "AXILiteTimeout's guard and wishbone.Timeout's wait expression (already used)",
    "C12": "CSRBank address decode width and write_from_dev priority (already used)",
    "C13": "SoCRegion.decoder alignment and check_regions_overlap's size (already used)",
    "C14": "the C accessor address of CSRs after a wide CSR and csr_bus.SRAM paging (already used)",
    "C15": "EventManager's clear index and EventSourceProcess's set/clear priority (already used)",
    "C16": "PacketFIFO sink.ready and packet.Status (already used)",
    "C17": "the Decoder k output under stall and the Encoder disparity register enable (already used)",
    "C18": "the top code-word bit correction and the enable gating order (already used)",
    "C19": "PWM and the SPI master MOSI latch (already used)",
    "C20": "ECP5PLL feedback choice and the S7MMCM fractional divider range (already used)",
}

TEMPLATE = """You are helping to evaluate a verification effort for the open-source project enjoy-digital/litex
(a Python/Migen framework that generates FPGA SoCs). Your job is to play the role of a developer who
introduces a *subtle, realistic regression*.

Your private scratch copy of the repository is the git worktree `{wt}` (a detached checkout of the
project's current HEAD). Work ONLY inside that directory. Never touch `/repo` or `/verif`, never read
anything under `/verif`, and never run `git commit`. Python is `/venv/bin/python` (3.12); run code
against your copy with `cd {wt} && PYTHONPATH={wt} /venv/bin/python ...`. There is no network.

## The property your change must break

**{title}**

{statement}

(The code this property is mostly about lives in: {files}.)

## What to deliver

A small change (typically 1-10 lines, at most two cooperating sites) to the LiteX source in your
worktree such that:

1. everything still imports/elaborates, and the project's existing test-suite result is unchanged:
   `cd {wt} && PYTHONPATH={wt} timeout 3000 /venv/bin/python -m pytest -q -p no:cacheprovider --timeout=900 --continue-on-collection-errors`
   gives on the unchanged tree `66 failed, 112 passed` (the 66 failures are all caused by Python 3.12
   breaking Migen's name tracer - "Cannot extract CSR name from code" - and are expected); with your
   change the SAME tests must pass and fail (compare the lists of failed test ids);
2. the property above is genuinely violated by the changed code (not merely a different but still
   correct behaviour - re-read the statement; if the statement leaves something open, it is not a
   violation);
3. the violation needs *something specific* to manifest: a particular interleaving of valid/ready or
   of clock edges, a fault at a particular moment, a multi-step sequence of operations, an unusual (but
   legal) parameter or input, or two cooperating sites that each look fine alone. A change that any
   ordinary use would expose at once is NOT wanted. The change should look like something a maintainer
   could plausibly write (an "optimisation", a refactoring slip, an off-by-one, a wrong priority, a
   widened/narrowed condition), not sabotage, and must not be guarded by anything artificial
   (no magic constants, no environment variables, no dependence on names or on being under test).
4. Earlier rounds already used {avoid}; choose a DIFFERENT component/mechanism among those the
   property talks about, preferably one that is less obvious.

Note for cores that contain CSRs (Timer, UART, EventManager, SoC ...): on this interpreter Migen cannot
extract CSR names, so `CSRStorage()` without `name=` raises. If you need such a core in your
demonstration, put this at the very top of demo.py (before importing litex) - it only restores the
names older interpreters produced:

```python
import dis, migen.fhdl.tracer as _tr
def _get_var_name(frame):
    code, lasti = frame.f_code, frame.f_lasti
    ins = list(dis.get_instructions(code))
    idx = next((i for i, x in enumerate(ins) if x.offset == lasti), None)
    if idx is None or not ins[idx].opname.startswith("CALL"): return None
    for x in ins[idx+1:]:
        if x.opname in ("STORE_NAME", "STORE_ATTR", "STORE_FAST", "STORE_DEREF", "STORE_GLOBAL"): return x.argval
        if x.opname.startswith("LOAD_") or x.opname in ("COPY", "BUILD_LIST", "CACHE", "PUSH_NULL", "DUP_TOP"): continue
        return None
    return None
_tr.get_var_name = _get_var_name
```

Create the directory `{wt}/SEED/` containing:

* `patch.diff` - output of `git -C {wt} diff` (LiteX source files only; SEED/ itself is untracked and
  must not be in it). It must apply with `git apply` on a clean checkout of HEAD.
* `demo.py` - a self-contained program (stdlib + migen + litex only; uses whatever `PYTHONPATH` points at,
  no absolute paths to your worktree) that exits 0 and prints PASS on the unchanged tree and exits 1
  and prints FAIL (with a short explanation of what was observed) on the changed tree. It must run in
  under 5 minutes. It should demonstrate the violation through the public behaviour the property talks
  about (simulate the design with `migen.sim.run_simulation` / `litex.gen.sim`, or call the public API),
  not by inspecting source text.
* `meta.json` - an object with the keys: `property` ("{pid}"), `summary` (what you changed and why it
  breaks the property), `needs` (precisely what is needed for the violation to manifest, and why the
  existing tests do not see it), `files_changed`, `tests_run` (commands + result lines, on the changed
  and the unchanged tree), `demo_unchanged`, `demo_changed` (last lines of the demo output).

Verify all of it yourself before you finish: run the demo with the patch applied and with it reverted
(`git -C {wt} stash` is NOT allowed - the stash is shared between worktrees; use
`git -C {wt} apply -R SEED/patch.diff` and re-apply), and run the full test-suite with the patch applied.
Leave the worktree with the patch APPLIED. Your final message: the patch, what is needed to trigger it,
and the test/demo results.
"""


def main():
    pid = sys.argv[1]
    rnd = sys.argv[2] if len(sys.argv) > 2 else "3"
    for line in open("/verif/properties.jsonl"):
        d = json.loads(line)
        if d["id"] == pid:
            break
    else:
        raise SystemExit("unknown property")
    wt = "/tmp/mut%s-%s" % (rnd, pid)
    print(TEMPLATE.format(wt=wt, title=d["title"], statement=d["statement"], pid=pid,
                          files=", ".join(d["anchors"]["files"]), avoid=AVOID[pid]))


if __name__ == "__main__":
    main()
