#!/bin/sh
# offline setup: nothing is compiled; verify that the tools the checks need are usable
set -e
cd "$(dirname "$0")/.."
(cd specs/stream && java -cp /opt/veriftools/tla/tla2tools.jar:/opt/veriftools/tla/CommunityModules-deps.jar tla2sany.SANY StreamGraph.tla >/dev/null 2>&1) || { echo "TLA+ tools not usable"; exit 1; }
PYTHONPATH=/verif:/repo /venv/bin/python -c "import migen, litex, harness.tlc" || { echo "python env not usable"; exit 1; }
mkdir -p evidence
echo "setup ok"
