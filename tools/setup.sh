#!/bin/sh
# offline setup: nothing is compiled; verify that the tools the checks need are usable
cd "$(dirname "$0")/.." || exit 1
CP=/opt/veriftools/tla/tla2tools.jar:/opt/veriftools/tla/CommunityModules-deps.jar
(cd specs/common && java -cp "$CP" tla2sany.SANY GraphLookup.tla) > /tmp/verif-setup.$$ 2>&1
if grep -q "Semantic processing of module GraphLookup" /tmp/verif-setup.$$ && ! grep -qi "error" /tmp/verif-setup.$$; then
    :
else
    cat /tmp/verif-setup.$$; rm -f /tmp/verif-setup.$$; echo "TLA+ tools not usable"; exit 1
fi
rm -f /tmp/verif-setup.$$
PYTHONPATH="$(pwd):/repo" /venv/bin/python -c "import migen, litex, harness.tlc, harness.graphloop" || { echo "python env not usable"; exit 1; }
mkdir -p evidence
echo "setup ok"
