"""Evidence, known findings and the verdict protocol (DESIGN.md 3.4)."""
import json
import os
import sys
import time

ROOT = os.path.dirname(os.path.dirname(os.path.abspath(__file__)))
# experiments against another tree (VERIF_REPO) write their evidence/replays elsewhere
EVIDENCE_DIR = os.environ.get("VERIF_EVIDENCE_DIR") or os.path.join(ROOT, "evidence")
REPLAY_DIR = os.environ.get("VERIF_REPLAY_DIR") or os.path.join(ROOT, "replays")
FINDINGS = os.path.join(ROOT, "known_findings.json")


def load_findings():
    try:
        with open(FINDINGS) as f:
            return json.load(f).get("findings", [])
    except FileNotFoundError:
        return []


class MachineryError(Exception):
    """exit 2: the check could not decide (TLC crashed, illegal stimulus, not reproducible)"""


class Report:
    def __init__(self, prop, tier, seed, level="model_checking"):
        self.prop = prop
        self.tier = tier
        self.seed = seed
        self.level = level
        self.t0 = time.time()
        self.cov = {"states": 0, "transitions": 0, "traces_validated_against_impl": 0, "samples": []}
        self.assumptions = []
        self.violations = []          # (signature dict, replay path, text)
        self.known_hit = []
        self.notes = []
        self.findings = [f for f in load_findings() if f.get("property") == prop]

    # ------------------------------------------------------------- coverage accounting
    def add(self, **kw):
        for k, v in kw.items():
            if isinstance(v, (int, float)) and not isinstance(v, bool):
                self.cov[k] = self.cov.get(k, 0) + v
            elif isinstance(v, list):
                self.cov.setdefault(k, []).extend(v)
            elif isinstance(v, dict):
                self.cov.setdefault(k, {}).update(v)
            else:
                self.cov[k] = v

    def sample(self, x, cap=8):
        if len(self.cov["samples"]) < cap:
            self.cov["samples"].append(x)

    def assume(self, text):
        if text not in self.assumptions:
            self.assumptions.append(text)

    def note(self, text):
        self.notes.append(text)
        print("NOTE: " + text)

    # ------------------------------------------------------------- verdicts
    def match_known(self, sig):
        """sig: dict of signature fields of a confirmed violation. A listed finding matches if
        every field of its 'signature' equals the violation's field."""
        for f in self.findings:
            if f.get("status") != "known":
                continue
            fs = f.get("signature", {})
            if all(_sigmatch(sig.get(k), v) for k, v in fs.items()):
                return f
        return None

    def violation(self, sig, replay, text):
        """a confirmed violation (already replayed on the real code)."""
        f = self.match_known(sig)
        if f is not None:
            key = f.get("id", json.dumps(f.get("signature"), sort_keys=True))
            if key not in self.known_hit:
                self.known_hit.append(key)
                print("KNOWN-FINDING: property=%s %s" % (self.prop, f.get("description", text)))
            return False
        os.makedirs(REPLAY_DIR, exist_ok=True)
        n = len(self.violations)
        path = os.path.join(REPLAY_DIR, "%s_%s_%d.json" % (self.prop, self.tier, n))
        replay = dict(replay)
        replay["property"] = self.prop
        replay["signature"] = sig
        replay["text"] = text
        with open(path, "w") as fh:
            json.dump(replay, fh, indent=1, default=_jd)
        self.violations.append((sig, path, text))
        print("VIOLATION property=%s replay=%s" % (self.prop, path))
        print("  " + text)
        return True

    def finish(self):
        ev = {
            "property_id": self.prop,
            "tier": self.tier,
            "seed": int(self.seed),
            "level": self.level,
            "coverage": self.cov,
            "assumptions": self.assumptions,
            "wall_s": round(time.time() - self.t0, 2),
            "violations": len(self.violations),
        }
        ev["coverage"]["known_findings_hit"] = self.known_hit
        ev["coverage"]["notes"] = self.notes
        for k in ("states", "transitions", "traces_validated_against_impl"):
            ev["coverage"][k] = int(ev["coverage"].get(k, 0))
        if not ev["coverage"]["samples"]:
            ev["coverage"]["samples"] = ["(no sample recorded)"]
        os.makedirs(EVIDENCE_DIR, exist_ok=True)
        with open(os.path.join(EVIDENCE_DIR, self.prop + ".json"), "w") as fh:
            json.dump(ev, fh, indent=1, default=_jd)
        print("%s %s: %d violation(s), %d known finding(s) hit, states=%d transitions=%d traces=%d, %.1fs" % (
            self.prop, self.tier, len(self.violations), len(self.known_hit), ev["coverage"]["states"],
            ev["coverage"]["transitions"], ev["coverage"]["traces_validated_against_impl"], ev["wall_s"]))
        return 1 if self.violations else 0


def _sigmatch(actual, wanted):
    if isinstance(wanted, dict) and isinstance(actual, dict):
        return all(_sigmatch(actual.get(k), v) for k, v in wanted.items())
    if isinstance(wanted, list) and isinstance(actual, (list, tuple)):
        return list(actual) == wanted
    return actual == wanted


def _jd(o):
    if isinstance(o, (set, frozenset)):
        return sorted(o, key=repr)
    if isinstance(o, tuple):
        return list(o)
    if isinstance(o, bytes):
        return o.hex()
    return repr(o)
