"""Tokenizer + recursive-descent parser for exactly the Verilog subset that
``litex.gen.fhdl.verilog.convert`` emits (C01), producing a purely syntactic JSON AST.

Nothing here knows what the text *means*: widths, signs, scheduling and memories are interpreted by
``specs/vlog/VerilogSem.tla``.  The parser is part of the trusted base, therefore every parsed text is
re-printed from the AST (`unparse`) and the token stream of the re-print must equal the token stream
of the original text (`parse` raises `ParseError` otherwise): nothing the back end wrote can be dropped,
reordered or invented by the parser without being noticed.

AST (JSON objects; absent field = absent syntax, there is no null)

 module   {"k":"module","name":N,"dirs":[directive text],"ports":[port],"items":[item]}
 port     {"dir":"input|output|inout","t":"wire|reg","s":0|1,"h":H,"l":L,"n":N[,"init":expr][,"attr":[tok]]}   no range: h = -1;
          init only on an output reg (ANSI declaration with initial value)
 item     {"k":"decl","t":"wire|reg","s":0|1,"h":H,"l":L,"n":N[,"init":expr][,"attr":[tok]]}
          {"k":"memdecl","h":H,"l":L,"n":N,"lo":A,"hi":B[,"attr"]}         reg [H:L] N[A:B];
          {"k":"assign","l":lhs,"r":expr}
          {"k":"always","ev":"*"|"posedge","clk":N,"b":[stmt]}              always @(...) begin ... end
          {"k":"initial","b":[stmt]}
          {"k":"inst","toks":[tok]}                                         kept opaque
 stmt     {"k":"nba"|"ba","l":lhs,"r":expr}
          {"k":"if","c":expr,"t":[stmt],"tb":0|1[,"f":[stmt],"fb":0|1]}      tb/fb: begin ... end present
          {"k":"case","e":expr,"items":[{"b":[stmt],"bb":0|1[,"l":[expr]]}]} no "l" = default
          {"k":"sys","n":"$display|$finish|$readmemh"[,"args":[expr]]}
 expr     {"k":"id","n":N}            {"k":"num","w":W,"s":0|1,"b":"d|h|b|o","v":V}   sized literal W'[s]bV
          {"k":"int","v":V}           unsized decimal            {"k":"str","v":S}
          {"k":"par","a":e}           ( e )
          {"k":"un","op":"-|~|!|+|&|\\||^","a":e}
          {"k":"bin","op":OP,"a":e,"b":e}
          {"k":"cond","c":e,"a":e,"b":e}
          {"k":"sgn","f":"$signed|$unsigned","a":e}
          {"k":"cat","l":[e]}         {"k":"rep","n":e,"l":[e]}
          {"k":"sel","a":e,"i":e}     a[i]  (bit select or memory word)
          {"k":"rng","a":e,"h":H,"l":L}   a[H:L] with constant bounds
"""
import re

KEYWORDS = {"module", "endmodule", "input", "output", "inout", "wire", "reg", "signed", "assign", "always",
            "initial", "begin", "end", "if", "else", "case", "endcase", "default", "posedge", "negedge"}

_TOKEN = re.compile(r"""
    (?P<ws>\s+)
  | (?P<lcom>//[^\n]*)
  | (?P<bcom>/\*.*?\*/)
  | (?P<dir>`[^\n]*)
  | (?P<num>\d+\s*'[sS]?[dDhHbBoO]\s*[0-9a-fA-F_xXzZ?]+)
  | (?P<real>\d+\.\d+(?:[eE][-+]?\d+)?)
  | (?P<int>\d[\d_]*)
  | (?P<id>[A-Za-z_][A-Za-z0-9_$]*)
  | (?P<sysid>\$[A-Za-z_][A-Za-z0-9_$]*)
  | (?P<str>"(?:[^"\\]|\\.)*")
  | (?P<op><<<|>>>|<=|>=|===|!==|==|!=|<<|>>|&&|\|\||[-+*/%&|^~!<>?:=,;.\#()\[\]{}@])
""", re.X | re.S)


class ParseError(Exception):
    pass


def tokenize(text):
    """-> list of (kind, text); comments and white space dropped; `(*`/`*)` attribute brackets are single tokens
    (but `@(*)` is `@ ( * )`)."""
    out = []
    i, n = 0, len(text)
    while i < n:
        if text.startswith("(*", i):
            j = i + 2
            while j < n and text[j] in " \t":
                j += 1
            if j < n and text[j] != ")":
                e = text.find("*)", i + 2)
                if e < 0:
                    raise ParseError("unterminated attribute at %d" % i)
                out.append(("op", "(*"))
                out.extend(tokenize(text[i + 2:e]))
                out.append(("op", "*)"))
                i = e + 2
                continue
        m = _TOKEN.match(text, i)
        if not m:
            raise ParseError("cannot tokenize at %d: %r" % (i, text[i:i + 30]))
        k = m.lastgroup
        if k not in ("ws", "lcom", "bcom"):
            t = m.group(0)
            if k == "num":
                t = re.sub(r"\s+", "", t)
            out.append((k, t))
        i = m.end()
    return out


# ------------------------------------------------------------------------------------------ parser
_BINPREC = [["||"], ["&&"], ["|"], ["^"], ["&"], ["==", "!=", "===", "!=="], ["<", "<=", ">", ">="],
            ["<<", ">>", "<<<", ">>>"], ["+", "-"], ["*", "/", "%"]]
_UNOPS = {"-", "~", "!", "+", "&", "|", "^"}


class _Parser:
    def __init__(self, toks):
        self.t = toks
        self.i = 0

    def peek(self, k=0):
        j = self.i + k
        return self.t[j] if j < len(self.t) else ("eof", "")

    def at(self, text, k=0):
        return self.peek(k)[1] == text and self.peek(k)[0] in ("op", "id")

    def eat(self, text=None, kind=None):
        tk = self.peek()
        if (text is not None and tk[1] != text) or (kind is not None and tk[0] != kind) or tk[0] == "eof":
            raise ParseError("expected %s, got %r at token %d (%s)" % (
                text or kind, tk, self.i, " ".join(x[1] for x in self.t[max(0, self.i - 8):self.i + 4])))
        self.i += 1
        return tk[1]

    def ident(self):
        tk = self.peek()
        if tk[0] != "id" or tk[1] in KEYWORDS:
            raise ParseError("identifier expected, got %r at token %d" % (tk, self.i))
        self.i += 1
        return tk[1]

    def uint(self):
        return int(self.eat(kind="int").replace("_", ""))

    # ---------------------------------------------------------------- module
    def source(self):
        dirs = []
        while self.peek()[0] == "dir":
            dirs.append(self.eat())
        self.eat("module")
        name = self.ident()
        ports = []
        self.eat("(")
        while not self.at(")"):
            p = {}
            attr = self.attrs()
            d = self.eat()
            if d not in ("input", "output", "inout"):
                raise ParseError("port direction expected, got %r" % d)
            p["dir"] = d
            t = self.eat()
            if t not in ("wire", "reg"):
                raise ParseError("port type expected, got %r" % t)
            p["t"] = t
            p.update(self.sign_range())
            p["n"] = self.ident()
            if self.at("="):
                # ANSI port declaration with initial value: output reg [..] x = <constant expression> (1364-2005 A.1.3)
                if not (d == "output" and t == "reg"):
                    raise ParseError("only an output reg port may have an initial value")
                self.eat("=")
                p["init"] = self.expr()
            if attr:
                p["attr"] = attr
            ports.append(p)
            if self.at(","):
                self.eat(",")
            elif not self.at(")"):
                raise ParseError("',' or ')' expected in port list at token %d" % self.i)
        self.eat(")")
        self.eat(";")
        items = []
        while not self.at("endmodule"):
            items.append(self.item())
        self.eat("endmodule")
        if self.peek()[0] != "eof":
            raise ParseError("text after endmodule")
        return {"k": "module", "name": name, "dirs": dirs, "ports": ports, "items": items}

    def attrs(self):
        toks = []
        while self.at("(*"):
            self.eat("(*")
            cur = []
            while not self.at("*)"):
                cur.append(self.eat())
            self.eat("*)")
            toks.append(cur)
        return toks

    def sign_range(self):
        r = {"s": 0, "h": -1, "l": 0}
        if self.at("signed"):
            self.eat("signed")
            r["s"] = 1
        if self.at("["):
            self.eat("[")
            r["h"] = self.uint()
            self.eat(":")
            r["l"] = self.uint()
            self.eat("]")
        return r

    def item(self):
        attr = self.attrs()
        tk = self.peek()
        it = None
        if tk[1] in ("wire", "reg") and tk[0] == "id":
            t = self.eat()
            sr = self.sign_range()
            n = self.ident()
            if self.at("["):
                if t != "reg" or sr["s"]:
                    raise ParseError("memory declaration must be an unsigned reg")
                self.eat("[")
                lo = self.uint()
                self.eat(":")
                hi = self.uint()
                self.eat("]")
                it = {"k": "memdecl", "h": sr["h"], "l": sr["l"], "n": n, "lo": lo, "hi": hi}
            else:
                it = {"k": "decl", "t": t}
                it.update(sr)
                it["n"] = n
                if self.at("="):
                    self.eat("=")
                    it["init"] = self.expr()
            self.eat(";")
        elif self.at("assign"):
            self.eat("assign")
            l = self.lhs()
            self.eat("=")
            r = self.expr()
            self.eat(";")
            it = {"k": "assign", "l": l, "r": r}
        elif self.at("always"):
            self.eat("always")
            self.eat("@")
            self.eat("(")
            it = {"k": "always"}
            if self.at("*"):
                self.eat("*")
                it["ev"] = "*"
            else:
                self.eat("posedge")
                it["ev"] = "posedge"
                it["clk"] = self.ident()
            self.eat(")")
            self.eat("begin")
            it["b"] = self.stmts_until("end")
            self.eat("end")
        elif self.at("initial"):
            self.eat("initial")
            self.eat("begin")
            it = {"k": "initial", "b": self.stmts_until("end")}
            self.eat("end")
        elif tk[0] == "id" and tk[1] not in KEYWORDS:
            # instance of another module / vendor primitive: opaque token list up to the closing ';'
            toks = []
            depth = 0
            while True:
                k, x = self.peek()
                if k == "eof":
                    raise ParseError("unterminated instance")
                self.i += 1
                toks.append(x)
                if x == "(":
                    depth += 1
                elif x == ")":
                    depth -= 1
                elif x == ";" and depth == 0:
                    break
            it = {"k": "inst", "toks": toks}
        else:
            raise ParseError("module item expected, got %r at token %d" % (tk, self.i))
        if attr:
            it["attr"] = attr
        return it

    # ---------------------------------------------------------------- statements
    def stmts_until(self, *stops):
        out = []
        while not any(self.at(s) for s in stops):
            out.append(self.stmt())
        return out

    def block_or_stmt(self):
        if self.at("begin"):
            self.eat("begin")
            b = self.stmts_until("end")
            self.eat("end")
            return b, 1
        return [self.stmt()], 0

    def stmt(self):
        tk = self.peek()
        if self.at("if"):
            self.eat("if")
            self.eat("(")
            c = self.expr()
            self.eat(")")
            t, tb = self.block_or_stmt()
            s = {"k": "if", "c": c, "t": t, "tb": tb}
            if self.at("else"):
                self.eat("else")
                f, fb = self.block_or_stmt()
                s["f"] = f
                s["fb"] = fb
            return s
        if self.at("case"):
            self.eat("case")
            self.eat("(")
            e = self.expr()
            self.eat(")")
            items = []
            while not self.at("endcase"):
                ci = {}
                if self.at("default"):
                    self.eat("default")
                    self.eat(":")
                else:
                    labels = [self.expr()]
                    while self.at(","):
                        self.eat(",")
                        labels.append(self.expr())
                    self.eat(":")
                    ci["l"] = labels
                b, bb = self.block_or_stmt()
                ci["b"] = b
                ci["bb"] = bb
                items.append(ci)
            self.eat("endcase")
            return {"k": "case", "e": e, "items": items}
        if tk[0] == "sysid":
            n = self.eat()
            s = {"k": "sys", "n": n}
            if self.at("("):
                self.eat("(")
                args = []
                while not self.at(")"):
                    args.append(self.expr())
                    if self.at(","):
                        self.eat(",")
                self.eat(")")
                s["args"] = args
            self.eat(";")
            return s
        l = self.lhs()
        if self.at("<="):
            self.eat("<=")
            k = "nba"
        else:
            self.eat("=")
            k = "ba"
        r = self.expr()
        self.eat(";")
        return {"k": k, "l": l, "r": r}

    def lhs(self):
        if self.at("{"):
            self.eat("{")
            l = [self.lhs()]
            while self.at(","):
                self.eat(",")
                l.append(self.lhs())
            self.eat("}")
            return {"k": "cat", "l": l}
        e = {"k": "id", "n": self.ident()}
        return self.selects(e)

    def selects(self, e):
        while self.at("["):
            self.eat("[")
            if self.peek()[0] == "int" and self.peek(1)[1] == ":":
                h = self.uint()
                self.eat(":")
                l = self.uint()
                self.eat("]")
                e = {"k": "rng", "a": e, "h": h, "l": l}
            else:
                i = self.expr()
                self.eat("]")
                e = {"k": "sel", "a": e, "i": i}
        return e

    # ---------------------------------------------------------------- expressions
    def expr(self):
        c = self.binary(0)
        if self.at("?"):
            self.eat("?")
            a = self.expr()
            self.eat(":")
            b = self.expr()
            return {"k": "cond", "c": c, "a": a, "b": b}
        return c

    def binary(self, lvl):
        if lvl == len(_BINPREC):
            return self.unary()
        a = self.binary(lvl + 1)
        while self.peek()[0] == "op" and self.peek()[1] in _BINPREC[lvl]:
            op = self.eat()
            b = self.binary(lvl + 1)
            a = {"k": "bin", "op": op, "a": a, "b": b}
        return a

    def unary(self):
        tk = self.peek()
        if tk[0] == "op" and tk[1] in _UNOPS:
            op = self.eat()
            return {"k": "un", "op": op, "a": self.unary()}
        return self.primary()

    def primary(self):
        k, x = self.peek()
        if k == "num":
            self.i += 1
            m = re.match(r"^(\d+)'([sS]?)([dDhHbBoO])([0-9a-fA-F_]+)$", x)
            if not m:
                raise ParseError("unsupported literal %r (x/z digits are not in the emitted subset)" % x)
            base = m.group(3).lower()
            v = int(m.group(4).replace("_", ""), {"d": 10, "h": 16, "b": 2, "o": 8}[base])
            return {"k": "num", "w": int(m.group(1)), "s": 1 if m.group(2) else 0, "b": base, "v": v, "t": m.group(4)}
        if k == "int":
            self.i += 1
            return {"k": "int", "v": int(x.replace("_", "")), "t": x}
        if k == "real":
            self.i += 1
            return {"k": "real", "t": x}
        if k == "str":
            self.i += 1
            return {"k": "str", "v": x[1:-1]}
        if k == "sysid":
            if x not in ("$signed", "$unsigned"):
                raise ParseError("system function %s is not in the emitted subset" % x)
            self.i += 1
            self.eat("(")
            a = self.expr()
            self.eat(")")
            return {"k": "sgn", "f": x, "a": a}
        if x == "(" and k == "op":
            self.eat("(")
            a = self.expr()
            self.eat(")")
            return {"k": "par", "a": a}
        if x == "{" and k == "op":
            self.eat("{")
            first = self.expr()
            if self.at("{"):
                self.eat("{")
                l = [self.expr()]
                while self.at(","):
                    self.eat(",")
                    l.append(self.expr())
                self.eat("}")
                self.eat("}")
                return {"k": "rep", "n": first, "l": l}
            l = [first]
            while self.at(","):
                self.eat(",")
                l.append(self.expr())
            self.eat("}")
            return {"k": "cat", "l": l}
        if k == "id" and x not in KEYWORDS:
            self.i += 1
            return self.selects({"k": "id", "n": x})
        raise ParseError("expression expected, got %r at token %d (%s)" % (
            (k, x), self.i, " ".join(t[1] for t in self.t[max(0, self.i - 8):self.i + 4])))


# ------------------------------------------------------------------------------------------ printer
def _prec(op):
    for i, ops in enumerate(_BINPREC):
        if op in ops:
            return i
    raise KeyError(op)


def unparse_expr(e, out):
    k = e["k"]
    if k == "id":
        out.append(e["n"])
    elif k == "num":
        out.append("%d'%s%s%s" % (e["w"], "s" if e["s"] else "", e["b"], e["t"]))
    elif k in ("int", "real"):
        out.append(e["t"])
    elif k == "str":
        out.append('"' + e["v"] + '"')
    elif k == "par":
        out.append("(")
        unparse_expr(e["a"], out)
        out.append(")")
    elif k == "un":
        out.append(e["op"])
        unparse_expr(e["a"], out)
    elif k == "bin":
        unparse_expr(e["a"], out)
        out.append(e["op"])
        unparse_expr(e["b"], out)
    elif k == "cond":
        unparse_expr(e["c"], out)
        out.append("?")
        unparse_expr(e["a"], out)
        out.append(":")
        unparse_expr(e["b"], out)
    elif k == "sgn":
        out.extend([e["f"], "("])
        unparse_expr(e["a"], out)
        out.append(")")
    elif k == "cat":
        out.append("{")
        for i, x in enumerate(e["l"]):
            if i:
                out.append(",")
            unparse_expr(x, out)
        out.append("}")
    elif k == "rep":
        out.append("{")
        unparse_expr(e["n"], out)
        out.append("{")
        for i, x in enumerate(e["l"]):
            if i:
                out.append(",")
            unparse_expr(x, out)
        out.extend(["}", "}"])
    elif k == "sel":
        unparse_expr(e["a"], out)
        out.append("[")
        unparse_expr(e["i"], out)
        out.append("]")
    elif k == "rng":
        unparse_expr(e["a"], out)
        out.extend(["[", str(e["h"]), ":", str(e["l"]), "]"])
    else:
        raise ParseError("cannot print node %r" % k)


def _unparse_sr(d, out):
    if d["s"]:
        out.append("signed")
    if d["h"] >= 0:
        out.extend(["[", str(d["h"]), ":", str(d["l"]), "]"])


def _unparse_attr(d, out):
    for a in d.get("attr", ()):
        out.append("(*")
        out.extend(a)
        out.append("*)")


def _unparse_block(b, flag, out):
    if flag:
        out.append("begin")
    for s in b:
        unparse_stmt(s, out)
    if flag:
        out.append("end")


def unparse_stmt(s, out):
    k = s["k"]
    if k in ("nba", "ba"):
        unparse_expr(s["l"], out)
        out.append("<=" if k == "nba" else "=")
        unparse_expr(s["r"], out)
        out.append(";")
    elif k == "if":
        out.extend(["if", "("])
        unparse_expr(s["c"], out)
        out.append(")")
        _unparse_block(s["t"], s["tb"], out)
        if "f" in s:
            out.append("else")
            _unparse_block(s["f"], s["fb"], out)
    elif k == "case":
        out.extend(["case", "("])
        unparse_expr(s["e"], out)
        out.append(")")
        for ci in s["items"]:
            if "l" in ci:
                for i, x in enumerate(ci["l"]):
                    if i:
                        out.append(",")
                    unparse_expr(x, out)
            else:
                out.append("default")
            out.append(":")
            _unparse_block(ci["b"], ci["bb"], out)
        out.append("endcase")
    elif k == "sys":
        out.append(s["n"])
        if "args" in s:
            out.append("(")
            for i, x in enumerate(s["args"]):
                if i:
                    out.append(",")
                unparse_expr(x, out)
            out.append(")")
        out.append(";")
    else:
        raise ParseError("cannot print statement %r" % k)


def unparse(m):
    """AST -> token texts (the inverse of the parser on the token level)"""
    out = list(m["dirs"])
    out.extend(["module", m["name"], "("])
    for i, p in enumerate(m["ports"]):
        if i:
            out.append(",")
        _unparse_attr(p, out)
        out.extend([p["dir"], p["t"]])
        _unparse_sr(p, out)
        out.append(p["n"])
        if "init" in p:
            out.append("=")
            unparse_expr(p["init"], out)
    out.extend([")", ";"])
    for it in m["items"]:
        _unparse_attr(it, out)
        k = it["k"]
        if k == "decl":
            out.append(it["t"])
            _unparse_sr(it, out)
            out.append(it["n"])
            if "init" in it:
                out.append("=")
                unparse_expr(it["init"], out)
            out.append(";")
        elif k == "memdecl":
            out.append("reg")
            _unparse_sr({"s": 0, "h": it["h"], "l": it["l"]}, out)
            out.extend([it["n"], "[", str(it["lo"]), ":", str(it["hi"]), "]", ";"])
        elif k == "assign":
            out.append("assign")
            unparse_expr(it["l"], out)
            out.append("=")
            unparse_expr(it["r"], out)
            out.append(";")
        elif k == "always":
            out.extend(["always", "@", "("])
            if it["ev"] == "*":
                out.append("*")
            else:
                out.extend(["posedge", it["clk"]])
            out.extend([")", "begin"])
            for s in it["b"]:
                unparse_stmt(s, out)
            out.append("end")
        elif k == "initial":
            out.extend(["initial", "begin"])
            for s in it["b"]:
                unparse_stmt(s, out)
            out.append("end")
        elif k == "inst":
            out.extend(it["toks"])
        else:
            raise ParseError("cannot print item %r" % k)
    out.append("endmodule")
    return out


def _canon(toks):
    """token texts with the purely lexical freedom removed (underscores/leading zeros in range integers never
    occur in the emitted subset, so texts are compared as they are)"""
    return [t[1] if isinstance(t, tuple) else t for t in toks]


def parse(text):
    """Verilog text -> module AST; raises ParseError if the text is outside the subset or if the re-printed AST
    does not give back the same token stream."""
    toks = tokenize(text)
    ast = _Parser(toks).source()
    back = unparse(ast)
    orig = _canon(toks)
    if back != orig:
        for i, (a, b) in enumerate(zip(back, orig)):
            if a != b:
                raise ParseError("round trip differs at token %d: printed %r, text has %r (%s)" % (
                    i, a, b, " ".join(orig[max(0, i - 6):i + 4])))
        raise ParseError("round trip differs in length: %d printed, %d in the text" % (len(back), len(orig)))
    return ast


def parse_expr(text):
    """a single expression (used by self tests)"""
    toks = tokenize(text)
    p = _Parser(toks)
    e = p.expr()
    if p.peek()[0] != "eof":
        raise ParseError("trailing tokens after expression")
    out = []
    unparse_expr(e, out)
    if out != _canon(toks):
        raise ParseError("expression round trip differs: %r vs %r" % (out, _canon(toks)))
    return e


def strip_lex(e):
    """drop the fields that only serve the round trip (literal digit text) - what goes to TLC"""
    if isinstance(e, dict):
        return {k: strip_lex(v) for k, v in e.items()
                if not (e.get("k") in ("num", "int") and (k == "t" or (k == "b" and v == "d")))}
    if isinstance(e, list):
        return [strip_lex(x) for x in e]
    return e
