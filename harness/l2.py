"""L2 lanes: implementation-shaped TLA+ models (DESIGN.md section 9).

Three uses of an L2 model `specs/<fam>/<X>Model.tla` (operators MInit(m), MStep(m, r, iv)):

* conformance (exhaustive): after a G-mode batch has been accepted, EVERY edge of the complete transition
  graph of each real netlist that has a model is handed to TLC (`<X>ModelConf`): registers are read by name
  from the netlist (`proj`), and MStep must reproduce outputs and next registers bit for bit.
* conformance (sampled, realistic widths): every cycle of long runs of the real netlist.
* M-mode: model x Env x the same L1 contract that judges the real code, for parameters far beyond what the
  Python stepper affords, safety and liveness.

An L2 model never gives a verdict.  Disagreement with the code is MODEL-DRIFT (printed, recorded in the evidence,
exit code unaffected); the family may react by *escalating*: the drifting DUT is explored against the L1
contract at the thorough tier's parameters, because what was model-checked in M-mode no longer describes it.
An M-mode counterexample is replayed on the real netlist and judged in T-mode; only if it reproduces there is it
a violation.
"""
import importlib
import json
import os
import shutil
import tempfile

from . import tlc as tlcmod
from .report import MachineryError


# ------------------------------------------------------------------------------ projection (worker side)
def _wproj(args):
    """runs in a GraphLoop worker: index positions of the named registers in the stepper's state vector"""
    spec_json, proj_path = args
    from .graphloop import _stepper
    st = _stepper(spec_json)
    return spec_json, proj_index(st, proj_path, json.loads(spec_json))


def proj_index(st, proj_path, spec):
    from migen import Signal
    from migen.fhdl.specials import Memory
    mod, _, fn = proj_path.rpartition(":")
    proj = getattr(importlib.import_module(mod), fn)(spec, st)
    pos = {s: i for i, s in enumerate(st.regs)}
    out = []
    for name, obj in proj.items():
        if isinstance(obj, Memory):
            arr = st.ev.replaced_memories[obj]
            out.append((name, [pos[s] for s in arr]))
        elif isinstance(obj, (list, tuple)):
            # an int element = a register this configuration does not have (constant), as for scalar entries
            out.append((name, [("const", s) if isinstance(s, int) else pos[s] for s in obj]))
        elif isinstance(obj, int):
            out.append((name, ("const", obj)))     # a register the configuration does not have (width 0)
        elif isinstance(obj, Signal):
            if obj not in pos:
                raise KeyError("projection %r: signal is not a register of the netlist" % name)
            out.append((name, pos[obj]))
        else:
            raise TypeError("projection %r: %r" % (name, obj))
    return out


def project(index, state):
    r = {}
    for name, ix in index:
        if isinstance(ix, tuple):
            r[name] = ix[1]
        else:
            r[name] = [i[1] if isinstance(i, tuple) else int(state[i]) for i in ix] if isinstance(ix, list) else int(state[ix])
    return r


# ------------------------------------------------------------------------------ conformance
class Lane:
    """one L2 lane of a family.
    model_cfg(spec, cfg) -> model configuration dict `m` (JSON-able) or None if the DUT has no model
    proj_path            -> 'module:function' (spec, Stepper) -> {register name: Signal | Memory | [Signals]}"""
    def __init__(self, name, conf_module, model_cfg, proj_path, clauses=("OutputsAgree", "NextStateAgrees", "ResetAgrees"),
                 m_module=None, include=()):
        self.name = name
        self.conf_module = conf_module
        self.model_cfg = model_cfg
        self.proj_path = proj_path
        self.clauses = list(clauses)
        self.m_module = m_module
        self.include = tuple(include)     # further spec directories (a model that INSTANCEs a model of another family)


def graph_cases(gl, lane, max_edges_per_dut=400000, cap_per_dut=None):
    """all edges of the complete graphs of an accepted GraphLoop run, projected on the modelled registers.
    -> list of dict(spec, m, reset, cases=[[r, iv, o, r2], ...])"""
    out = []
    pool = gl._pool()
    want = []
    for g in gl.duts:
        m = lane.model_cfg(g.spec, g.cfg)
        if m is not None:
            want.append((g, m))
    if not want:
        return out
    idx = dict(pool.map(_wproj, [(g.spec_json, lane.proj_path) for g, _ in want]))
    for g, m in want:
        ix = idx[g.spec_json]
        pr = [project(ix, s) for s in g.states]
        cases = []
        for s, edges in enumerate(g.succ):
            for k, (o, d) in edges.items():
                iv = g.alphabet.get(k)
                if iv is None:
                    iv = tuple(int(x) for x in k.strip("<>").split(",")) if k.strip("<>").strip() else ()
                if isinstance(d, (tuple, list)):      # multi-successor edge (metastable resolutions)
                    cases.append([pr[s], list(iv), list(o), [pr[x] for x in d[1]] if d and d[0] == "multi" else [pr[x] for x in d]])
                else:
                    cases.append([pr[s], list(iv), list(o), pr[d]])
                if len(cases) >= max_edges_per_dut:
                    break
            if len(cases) >= max_edges_per_dut:
                break
        total = len(cases)
        if cap_per_dut and total > cap_per_dut:
            # quick tier: every k-th edge of the complete graph (deterministic stride); the thorough tier judges all
            stride = -(-total // cap_per_dut)
            cases = cases[::stride]
        out.append({"spec": g.spec, "m": m, "reset": pr[0], "cases": cases, "nstates": len(g.states), "edges_total": total})
    return out


def conformance(lane, duts, timeout=1800, workers=8, heap="8g", log=print):
    """duts: output of graph_cases / run_cases.  -> (ncases, drifts) where drifts is a list of
    dict(spec, clause, case).  TLC evaluates MStep on every case (one initial state per case)."""
    duts = [d for d in duts if d["cases"]]
    if not duts:
        return 0, []
    scratch = tempfile.mkdtemp(prefix="verif-l2-", dir=os.environ.get("VERIF_SCRATCH", "/var/tmp"))
    drifts = []
    n = sum(len(d["cases"]) for d in duts)
    try:
        live = list(range(len(duts)))
        while live:
            path = os.path.join(scratch, "cases.json")
            with open(path, "w") as f:
                json.dump({"duts": [{"m": duts[i]["m"], "reset": duts[i]["reset"], "cases": duts[i]["cases"]} for i in live]},
                          f, separators=(",", ":"))
            cfg = "INIT Init\nNEXT Next\nCHECK_DEADLOCK FALSE\n" + "".join("INVARIANT %s\n" % c for c in lane.clauses)
            res = tlcmod.run(lane.conf_module, cfg, env={"CASES": path}, timeout=timeout, scratch=scratch,
                             workers=workers, heap=heap, include=getattr(lane, "include", ()))
            if res.errors:
                raise MachineryError("TLC failed in L2 conformance (%s): %s\n%s" % (lane.name, " | ".join(res.errors[:4]), res.out[-1500:]))
            if not res.violated:
                if res.distinct != sum(len(duts[i]["cases"]) for i in live):
                    raise MachineryError("L2 conformance (%s): %d cases judged, %d expected" % (
                        lane.name, res.distinct, sum(len(duts[i]["cases"]) for i in live)))
                break
            last = res.trace[-1]["vars"] if res.trace else {}
            i, j = last.get("i"), last.get("j")
            if not isinstance(i, int) or not isinstance(j, int):
                raise MachineryError("L2 conformance: violation of %s without a parsable state" % res.violated)
            real = live[i - 1]
            drifts.append({"spec": duts[real]["spec"], "m": duts[real]["m"], "clause": res.violated,
                           "case": duts[real]["cases"][j - 1]})
            live = [x for x in live if x != real]
    finally:
        shutil.rmtree(scratch, ignore_errors=True)
    return n, drifts


def run_cases(factory_path, spec, proj_path, schedule, shim=True):
    """cycle-by-cycle run of the real netlist from reset on the reference evaluator under `schedule`
    (list of input tuples); -> (reset projection, cases)"""
    from .gcheck import linear_replay
    from .fhdl_step import Stepper
    if shim:
        from . import py312_tracer
        py312_tracer.install()
    mod, _, fn = factory_path.rpartition(":")
    make = getattr(importlib.import_module(mod), fn)
    made = make(spec)
    opts = made[3] if len(made) > 3 else {}
    st = Stepper(made[0], made[1], made[2], clocks=tuple(opts.get("clocks", ("sys",))), engine="ref")
    ix = proj_index(st, proj_path, spec)
    st.load(st.reset_state, tuple(0 for _ in st.inputs))
    reset = project(ix, st.state())
    cases = []
    cdsel = opts.get("cds_from_input")
    strip = opts.get("strip_input", lambda x: x)
    for iv in schedule:
        iv = tuple(iv)
        pre = project(ix, st.state())
        st.load(st.state(), strip(iv))
        o = [int(x) for x in st.peek()]
        st.tick(cdsel(iv) if cdsel else None)
        cases.append([pre, list(iv), o, project(ix, st.state())])
    return reset, cases


def report_drifts(report, lane, drifts):
    for d in drifts:
        report.note("MODEL-DRIFT %s: the L2 model no longer reproduces the netlist of %s (%s at registers %s, inputs %s: "
                    "netlist gives outputs %s, next %s); no verdict, the L1 checks of the real netlist decide" % (
                        lane.name, json.dumps(d["spec"], sort_keys=True), d["clause"], json.dumps(d["case"][0], sort_keys=True),
                        d["case"][1], d["case"][2], json.dumps(d["case"][3], sort_keys=True)))
    report.add(l2_model_drifts=len(drifts))


# ------------------------------------------------------------------------------ M-mode
def mmode(module, mcfgs, invariants, properties, spec_name="Spec", timeout=1800, workers=16, heap="12g",
          constraint=None, alias="Alias", envname="MCFG", include=()):
    """pure TLC run of  model x Env x L1 monitor  over the configurations `mcfgs` (list of JSON-able dicts)."""
    scratch = tempfile.mkdtemp(prefix="verif-m-", dir=os.environ.get("VERIF_SCRATCH", "/var/tmp"))
    try:
        path = os.path.join(scratch, "mcfg.json")
        with open(path, "w") as f:
            json.dump(mcfgs, f, separators=(",", ":"))
        lines = ["SPECIFICATION %s" % spec_name, "CHECK_DEADLOCK FALSE"]
        lines += ["INVARIANT %s" % i for i in invariants]
        lines += ["PROPERTY %s" % p for p in properties]
        if constraint:
            lines.append("CONSTRAINT %s" % constraint)
        if alias:
            lines.append("ALIAS %s" % alias)
        res = tlcmod.run(module, "\n".join(lines) + "\n", env={envname: path}, timeout=timeout, scratch=scratch,
                         workers=workers, heap=heap, include=include)
        if res.errors:
            raise MachineryError("TLC failed in M-mode (%s): %s\n%s" % (module, " | ".join(res.errors[:4]), res.out[-1500:]))
        return res
    finally:
        shutil.rmtree(scratch, ignore_errors=True)
