"""DUT factory for C07: Wishbone adapters and memories seen by a master as a flat memory.
Every DUT ends in real wishbone.SRAM (or csr_bus.SRAM) instances, so the whole chain is repo code."""
from migen import Module, Signal, Cat, Constant, Memory

from litex.soc.interconnect import wishbone, csr_bus
from litex.soc.integration.soc import SoCRegion


def _sram(dw, words, init_bytes, read_only=False, aw=None, bursting=False):
    """real wishbone.SRAM with `words` words of dw bits, byte b of the image = init_bytes[b]"""
    lanes = dw // 8
    init = []
    for w in range(words):
        v = 0
        for l in range(lanes):
            v |= (init_bytes[w * lanes + l] & 0xff) << (8 * l)
        init.append(v)
    bus = wishbone.Interface(data_width=dw, adr_width=aw if aw is not None else max(1, (words - 1).bit_length()),
                             bursting=bursting)
    return wishbone.SRAM(words * lanes, init=init, bus=bus, read_only=read_only)


def image(spec):
    """backing store image (bytes, in backing address order)"""
    n = spec["backing_bytes"]
    pat = spec.get("init", "zero")
    if pat == "zero":
        return [0] * n
    if pat == "alt":
        return [(b % 2) ^ ((b // 2) % 2) for b in range(n)]
    if pat == "ones":
        return [1] * n
    if pat == "idx":      # distinguishes addresses: b -> b % 2 ^ (b // 4) % 2
        return [(0xd2b9 >> (b % 16)) & 1 for b in range(n)]
    raise ValueError(pat)


def master_view(spec):
    """byte values the master must see initially, in master byte order (documented address map)"""
    img = image(spec)
    kind = spec["kind"]
    L = spec["lanes"]
    words = spec["words"]
    if kind == "remap":
        # master word a -> backing word map(a)
        out = []
        for a in range(words):
            ba = remap_word(spec, a)
            out += img[ba * L:(ba + 1) * L]
        return out
    return img[:words * L]


def remap_word(spec, a):
    """documented Remapper function on word addresses (lanes*8-bit words, word addressing)"""
    L = spec["lanes"]
    origin, size = spec["origin"], spec["size"]          # bytes
    mask = size // L - 1
    w = (origin // L) | (a & mask)
    byte = w * L
    for (so, ss), (do, ds) in zip(spec.get("src", []), spec.get("dst", [])):
        if so <= byte < so + ss:
            w = (do + byte - so) // L
    return w


def make(spec):
    kind = spec["kind"]
    L = spec["lanes"]
    dw = 8 * L
    words = spec["words"]
    top = Module()
    img = image(spec)
    aw = max(1, (words - 1).bit_length())
    if kind in ("sram", "sram_ro"):
        sram = _sram(dw, words, img, read_only=(kind == "sram_ro"), aw=aw)
        top.submodules += sram
        master = sram.bus
    elif kind == "down":      # master dw, slave dw/ratio
        ratio = spec["ratio"]
        sdw = dw // ratio
        sram = _sram(sdw, words * ratio, img, aw=aw + (ratio - 1).bit_length())
        master = wishbone.Interface(data_width=dw, adr_width=aw)
        top.submodules += sram, wishbone.DownConverter(master, sram.bus)
    elif kind == "up":
        ratio = spec["ratio"]
        sdw = dw * ratio
        sram = _sram(sdw, max(1, words // ratio), img, aw=max(1, aw - (ratio - 1).bit_length()))
        master = wishbone.Interface(data_width=dw, adr_width=aw)
        top.submodules += sram, wishbone.UpConverter(master, sram.bus)
    elif kind == "chain":     # dw -> dw*2 -> dw through wishbone.Converter twice
        mid = wishbone.Interface(data_width=dw * 2, adr_width=max(1, aw - 1))
        sram = _sram(dw, words, img, aw=aw)
        master = wishbone.Interface(data_width=dw, adr_width=aw)
        top.submodules += sram, wishbone.Converter(master, mid), wishbone.Converter(mid, sram.bus)
    elif kind == "cache":
        sdw = spec["slave_dw"]
        sl = sdw // 8
        swords = words * L // sl
        sram = _sram(sdw, swords, img, aw=max(1, (swords - 1).bit_length()))
        master = wishbone.Interface(data_width=dw, adr_width=aw)
        top.submodules += sram, wishbone.Cache(spec["cachesize"], master, sram.bus, reverse=spec.get("reverse", True))
    elif kind == "remap":
        bwords = spec["backing_bytes"] // L
        sram = _sram(dw, bwords, img, aw=max(1, (bwords - 1).bit_length()))
        master = wishbone.Interface(data_width=dw, adr_width=max(1, (bwords - 1).bit_length()))
        src = [SoCRegion(origin=o, size=s) for o, s in spec.get("src", [])]
        dst = [SoCRegion(origin=o, size=s) for o, s in spec.get("dst", [])]
        top.submodules += sram, wishbone.Remapper(master, sram.bus, origin=spec["origin"], size=spec["size"],
                                                  src_regions=src, dst_regions=dst)
    elif kind == "wb2csr":
        assert L == 1
        mem = Memory(8, words, init=img[:words], name="m")
        csr = csr_bus.Interface(data_width=8, address_width=14)
        cs = csr_bus.SRAM(mem, 0, bus=csr, paging=0x800)
        master = wishbone.Interface(data_width=8, adr_width=14)
        top.submodules += cs, wishbone.Wishbone2CSR(master, csr, register=spec.get("register", True))
    else:
        raise ValueError(kind)
    req, adr, we, sel, data = Signal(), Signal(max=max(2, words)), Signal(), Signal(L), Signal(L)
    top.comb += [
        master.cyc.eq(req), master.stb.eq(req), master.we.eq(we), master.adr.eq(adr), master.sel.eq(sel),
        master.dat_w.eq(Cat(*[Cat(data[l], Constant(0, 7)) for l in range(L)])),
    ]
    outs = [master.ack, master.err] + [master.dat_r[8 * l:8 * l + 8] for l in range(L)]
    return top, [req, adr, we, sel, data], outs


def tla_cfg(spec):
    return {"lanes": spec["lanes"], "words": spec["words"], "init": master_view(spec),
            "readonly": int(spec["kind"] == "sram_ro"), "nosel0": int(spec.get("nosel0", 0))}


class Hint:
    def init(self, cfg):
        return None

    def allowed(self, cfg, ctx, iv):
        return ctx is None or tuple(iv) == ctx

    def next(self, cfg, ctx, iv, o):
        if iv[0] == 1 and o[0] == 0:
            return tuple(iv)
        return None


def configs(tier):
    L = []

    def add(**spec):
        spec.setdefault("backing_bytes", spec["words"] * spec["lanes"])
        L.append((spec, tla_cfg(spec)))
    add(kind="sram", lanes=2, words=2, init="alt")
    add(kind="sram_ro", lanes=2, words=2, init="alt")
    add(kind="sram", lanes=1, words=4, init="idx")
    add(kind="down", lanes=2, words=2, ratio=2, init="alt")
    add(kind="down", lanes=4, words=1, ratio=4, init="alt")
    add(kind="up", lanes=1, words=4, ratio=2, init="idx")
    add(kind="chain", lanes=1, words=4, init="idx")
    add(kind="remap", lanes=1, words=2, backing_bytes=8, origin=4, size=2, init="idx")
    add(kind="remap", lanes=1, words=4, backing_bytes=8, origin=0, size=4, src=[(2, 2)], dst=[(6, 2)], init="idx")
    add(kind="wb2csr", lanes=1, words=4, register=True, init="idx")
    add(kind="wb2csr", lanes=1, words=4, register=False, init="idx")
    add(kind="cache", lanes=1, words=4, slave_dw=8, cachesize=2, init="zero")
    add(kind="cache", lanes=1, words=4, slave_dw=8, cachesize=2, init="idx")
    add(kind="cache", lanes=1, words=4, slave_dw=16, cachesize=4, init="zero")
    add(kind="cache", lanes=2, words=2, slave_dw=8, cachesize=2, init="zero", nosel0=1)
    if tier == "thorough":
        # (memories of at most 4-6 bytes: the product with the monitor's own memory must stay enumerable)
        add(kind="down", lanes=4, words=1, ratio=2, init="alt")
        add(kind="down", lanes=2, words=2, ratio=2, init="zero")
        add(kind="up", lanes=1, words=8, ratio=4, init="idx")
        add(kind="up", lanes=2, words=4, ratio=2, init="alt")
        add(kind="cache", lanes=1, words=4, slave_dw=16, cachesize=4, init="zero", reverse=False)
        add(kind="sram", lanes=4, words=2, init="alt")
        add(kind="sram_ro", lanes=1, words=4, init="idx")
    return L
