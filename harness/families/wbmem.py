"""DUT factory for C07: Wishbone adapters and memories seen by a master as a flat memory.
Every DUT ends in real wishbone.SRAM (or csr_bus.SRAM) instances, so the whole chain is repo code."""
from migen import Module, Signal, Cat, Constant, Memory

from litex.soc.interconnect import wishbone, csr_bus
from litex.soc.integration.soc import SoCRegion


def _sram(dw, words, init_bytes, read_only=False, aw=None, bursting=False):
    """real wishbone.SRAM with `words` words of dw bits, byte b of the image = init_bytes[b]"""
    lanes = dw // 8
    init = []
    for w in range(words):
        v = 0
        for l in range(lanes):
            v |= (init_bytes[w * lanes + l] & 0xff) << (8 * l)
        init.append(v)
    bus = wishbone.Interface(data_width=dw, adr_width=aw if aw is not None else max(1, (words - 1).bit_length()),
                             bursting=bursting)
    return wishbone.SRAM(words * lanes, init=init, bus=bus, read_only=read_only)


def image(spec):
    """backing store image (bytes, in backing address order)"""
    n = spec["backing_bytes"]
    pat = spec.get("init", "zero")
    if pat == "zero":
        return [0] * n
    if pat == "alt":
        return [(b % 2) ^ ((b // 2) % 2) for b in range(n)]
    if pat == "ones":
        return [1] * n
    if pat == "idx":      # distinguishes addresses: b -> b % 2 ^ (b // 4) % 2
        return [(0xd2b9 >> (b % 16)) & 1 for b in range(n)]
    raise ValueError(pat)


def master_view(spec):
    """byte values the master must see initially, in master byte order (documented address map)"""
    img = image(spec)
    kind = spec["kind"]
    L = spec["lanes"]
    words = spec["words"]
    if kind == "remap":
        # master word a -> backing word map(a)
        out = []
        for a in range(words):
            ba = remap_word(spec, a)
            out += img[ba * L:(ba + 1) * L]
        return out
    return img[:words * L]


def remap_word(spec, a):
    """documented Remapper function on word addresses (lanes*8-bit words, word addressing)"""
    L = spec["lanes"]
    origin, size = spec["origin"], spec.get("size")      # bytes
    if size is None:                                     # default: the master's whole address space
        size = L << max(1, (spec["backing_bytes"] // L - 1).bit_length())
    mask = size // L - 1
    w = (origin // L) | (a & mask)
    byte = w * L
    for (so, ss), (do, ds) in zip(spec.get("src", []), spec.get("dst", [])):
        if so <= byte < so + ss:
            w = (do + byte - so) // L
    return w


def make(spec):
    kind = spec["kind"]
    L = spec["lanes"]
    dw = 8 * L
    words = spec["words"]
    top = Module()
    img = image(spec)
    aw = max(1, (words - 1).bit_length())
    adr_shift = 0           # byte-addressed master interfaces: the Env's word index is shifted onto the bus
    slave = sside = None    # slave side of the adapter, observed with spec["sside"]
    if kind in ("sram", "sram_ro"):
        sram = _sram(dw, words, img, read_only=(kind == "sram_ro"), aw=aw)
        top.submodules += sram
        master = sram.bus
    elif kind == "down":      # master dw, slave dw/ratio
        ratio = spec["ratio"]
        sdw = dw // ratio
        sram = _sram(sdw, words * ratio, img, aw=aw + (ratio - 1).bit_length())
        master = wishbone.Interface(data_width=dw, adr_width=aw)
        top.submodules += sram, wishbone.DownConverter(master, sram.bus)
    elif kind == "up":
        ratio = spec["ratio"]
        sdw = dw * ratio
        sram = _sram(sdw, max(1, words // ratio), img, aw=max(1, aw - (ratio - 1).bit_length()))
        master = wishbone.Interface(data_width=dw, adr_width=aw)
        top.submodules += sram, wishbone.UpConverter(master, sram.bus)
    elif kind == "chain":     # dw -> dw*2 -> dw through wishbone.Converter twice
        mid = wishbone.Interface(data_width=dw * 2, adr_width=max(1, aw - 1))
        sram = _sram(dw, words, img, aw=aw)
        master = wishbone.Interface(data_width=dw, adr_width=aw)
        top.submodules += sram, wishbone.Converter(master, mid), wishbone.Converter(mid, sram.bus)
    elif kind == "cache":
        sdw = spec["slave_dw"]
        sl = sdw // 8
        swords = words * L // sl
        sram = _sram(sdw, swords, img, aw=max(1, (swords - 1).bit_length()))
        master = wishbone.Interface(data_width=dw, adr_width=aw)
        top.submodules += sram, wishbone.Cache(spec["cachesize"], master, sram.bus, reverse=spec.get("reverse", True))
        slave = sram.bus
    elif kind == "remap":
        bwords = spec["backing_bytes"] // L
        bw = max(1, (bwords - 1).bit_length())
        sram = _sram(dw, bwords, img, aw=bw)
        src = [SoCRegion(origin=o, size=s) for o, s in spec.get("src", [])]
        dst = [SoCRegion(origin=o, size=s) for o, s in spec.get("dst", [])]
        kw = {} if spec.get("size") is None else {"size": spec["size"]}
        if spec.get("addressing", "word") == "byte":
            # byte-addressed master and slave interfaces (the Remapper's second code path); the word-addressed
            # SRAM is wired to the upper address bits of the remapper's slave side (plain wiring, no logic)
            adr_shift = (L - 1).bit_length()
            master = wishbone.Interface(data_width=dw, adr_width=bw, addressing="byte")
            slave = wishbone.Interface(data_width=dw, adr_width=bw, addressing="byte")
            top.comb += [slave.connect(sram.bus, omit={"adr"}), sram.bus.adr.eq(slave.adr[adr_shift:])]
            sside = [slave.cyc & slave.stb, slave.ack, slave.we, slave.adr[adr_shift:]]
        else:
            master = wishbone.Interface(data_width=dw, adr_width=bw)
            slave = sram.bus
        top.submodules += sram, wishbone.Remapper(master, slave, origin=spec["origin"], src_regions=src, dst_regions=dst, **kw)
    elif kind == "wb2csr":
        mem = Memory(dw, words, init=[sum((img[w * L + l] & 0xff) << (8 * l) for l in range(L)) for w in range(words)],
                     name="m")
        csr = csr_bus.Interface(data_width=dw, address_width=14)
        cs = csr_bus.SRAM(mem, 0, bus=csr, paging=0x800)
        if spec.get("addressing", "word") == "byte":
            adr_shift = (L - 1).bit_length()
            master = wishbone.Interface(data_width=dw, adr_width=14, addressing="byte")
        else:
            master = wishbone.Interface(data_width=dw, adr_width=14)
        top.submodules += cs, wishbone.Wishbone2CSR(master, csr, register=spec.get("register", True))
    else:
        raise ValueError(kind)
    # req: 0 idle, 1 cyc & stb, 2 cyc & ~stb, 3 ~cyc & stb (codes 2 and 3: FlatMemContract, Junk)
    req, adr, we, sel, data = Signal(2), Signal(max=max(2, words)), Signal(), Signal(L), Signal(L)
    top.comb += [
        master.cyc.eq((req == 1) | (req == 2)), master.stb.eq((req == 1) | (req == 3)), master.we.eq(we),
        master.adr.eq(adr << adr_shift), master.sel.eq(sel),
        master.dat_w.eq(Cat(*[Cat(data[l], Constant(0, 7)) for l in range(L)])),
    ]
    outs = [master.ack, master.err] + [master.dat_r[8 * l:8 * l + 8] for l in range(L)]
    if spec.get("sside"):
        if sside is None:
            sside = [slave.cyc & slave.stb, slave.ack, slave.we, slave.adr]
        outs += sside
    return top, [req, adr, we, sel, data], outs


def tla_cfg(spec, wi=0):
    cfg = {"lanes": spec["lanes"], "words": spec["words"], "init": master_view(spec),
           "readonly": int(spec["kind"] == "sram_ro"), "nosel0": int(spec.get("nosel0", 0)),
           "junk": int(spec.get("junk", 0)), "adrs": list(spec.get("adrs", [])), "sels": list(spec.get("sels", [])),
           "sside": int(bool(spec.get("sside"))), "smap": [], "wi": wi}
    if spec["kind"] == "remap" and spec.get("sside"):
        cfg["smap"] = [remap_word(spec, a) for a in range(spec["words"])]     # documented map, as for `init`
    return cfg


def required_witnesses(spec):
    """names (FlatMemContract.tla, Wit) that the exploration of this DUT must have produced"""
    w = []
    if spec.get("junk"):
        w += ["write-shaped lines with cyc high and stb low", "write-shaped lines with cyc low and stb high"]
    if spec["kind"] == "cache" and spec.get("misses"):
        # the geometry has more tags than lines for the addresses used: dirty lines are evicted and refilled
        w += ["slave-side write acknowledged", "slave-side read acknowledged"]
    if spec["kind"] == "remap" and spec.get("sside"):
        w.append("slave-side address differs from the master's")
    return w


class Hint:
    def init(self, cfg):
        return None

    def allowed(self, cfg, ctx, iv):
        return ctx is None or tuple(iv) == ctx

    def next(self, cfg, ctx, iv, o):
        if iv[0] == 1 and o[0] == 0:
            return tuple(iv)
        return None


def configs(tier):
    """junk = 1: between requests the bus lines also carry write-shaped patterns without a request (cyc & ~stb,
    ~cyc & stb), see FlatMemContract; sside: slave side observed (witnesses, SlaveAddressMapped); misses: cache
    geometry in which the addresses used have more tags than lines (witnesses required); adrs / sels: the master
    uses these word addresses / byte selects only"""
    L = []

    def add(**spec):
        spec.setdefault("backing_bytes", spec["words"] * spec["lanes"])
        if spec["kind"] in ("cache", "remap"):
            spec.setdefault("sside", 1)
        L.append(spec)
    add(kind="sram", lanes=2, words=2, init="alt", junk=1)
    add(kind="sram_ro", lanes=2, words=2, init="alt", junk=1)
    add(kind="sram", lanes=1, words=4, init="idx", junk=1)
    add(kind="down", lanes=2, words=2, ratio=2, init="alt", junk=1)
    add(kind="down", lanes=4, words=1, ratio=4, init="alt", junk=1)
    add(kind="up", lanes=1, words=4, ratio=2, init="idx", junk=1)
    add(kind="chain", lanes=1, words=4, init="idx", junk=1)
    add(kind="remap", lanes=1, words=2, backing_bytes=8, origin=4, size=2, init="idx", junk=1)
    add(kind="remap", lanes=1, words=4, backing_bytes=8, origin=0, size=4, src=[(2, 2)], dst=[(6, 2)], init="idx", junk=1)
    # 16-bit words: origin and region bounds are byte quantities, the bus is word addressed (shift by log2(lanes)) ...
    add(kind="remap", lanes=2, words=2, backing_bytes=16, origin=8, size=4, init="idx", junk=1)
    # ... a region with master words below AND above it (both bounds of the window comparison) ...
    add(kind="remap", lanes=1, words=4, backing_bytes=8, origin=0, size=4, src=[(1, 2)], dst=[(5, 2)], init="idx", junk=1)
    # ... and byte-addressed interfaces (no shift), 16-bit words
    add(kind="remap", lanes=2, words=4, backing_bytes=16, origin=0, size=8, src=[(2, 4)], dst=[(10, 4)], init="idx",
        addressing="byte", sels=[3, 1], junk=1)
    add(kind="wb2csr", lanes=1, words=4, register=True, init="idx", junk=1)
    add(kind="wb2csr", lanes=1, words=4, register=False, init="idx", junk=1)
    # 16-bit CSR bus behind a byte-addressed Wishbone interface (address shift of the bridge); the CSR bus has no
    # byte enables, so whole-word and null accesses only
    add(kind="wb2csr", lanes=2, words=2, register=True, init="alt", addressing="byte", sels=[3, 0], junk=1)
    # demonstration of the listed finding C07-wb2csr-partial-write (every byte select on a 16-bit CSR bus): own batch,
    # dropped after the finding
    add(kind="wb2csr", lanes=2, words=2, register=False, init="alt", partial=1, alone=True, nofollowup=True)
    add(kind="cache", lanes=1, words=4, slave_dw=8, cachesize=2, init="zero", junk=1, misses=1)
    add(kind="cache", lanes=1, words=4, slave_dw=8, cachesize=2, init="idx", junk=1, misses=1)
    add(kind="cache", lanes=1, words=4, slave_dw=16, cachesize=4, init="zero", junk=1)
    add(kind="cache", lanes=2, words=2, slave_dw=8, cachesize=2, init="zero", nosel0=1, junk=1)
    # the two geometries above hold the whole memory (one tag): no line is ever evicted or refilled.  Line of two
    # master words / master word of two slave words WITH two tags per line: the master uses the addresses of one
    # cache line only (the other line's bytes never change, which keeps the product small)
    add(kind="cache", lanes=1, words=8, slave_dw=16, cachesize=4, init="zero", adrs=[0, 1, 4, 5], junk=1, misses=1)
    add(kind="cache", lanes=2, words=4, slave_dw=8, cachesize=2, init="zero", adrs=[0, 2], nosel0=1, junk=1, misses=1)
    if tier == "thorough":
        # (memories of at most 4-6 bytes: the product with the monitor's own memory must stay enumerable)
        add(kind="down", lanes=4, words=1, ratio=2, init="alt")
        add(kind="down", lanes=2, words=2, ratio=2, init="zero")
        add(kind="up", lanes=1, words=8, ratio=4, init="idx")
        add(kind="up", lanes=2, words=4, ratio=2, init="alt")
        add(kind="up", lanes=1, words=16, ratio=8, init="idx", adrs=[0, 3, 7, 8, 13], junk=1)
        add(kind="cache", lanes=1, words=4, slave_dw=16, cachesize=4, init="zero", reverse=False)
        add(kind="sram", lanes=4, words=2, init="alt")
        add(kind="sram_ro", lanes=1, words=4, init="idx")
        add(kind="cache", lanes=1, words=8, slave_dw=16, cachesize=4, init="zero", adrs=[0, 1, 4, 5], reverse=False,
            junk=1, misses=1)
        # line of four master words, both byte orders
        add(kind="cache", lanes=1, words=16, slave_dw=32, cachesize=8, init="zero", adrs=[0, 1, 8, 9], junk=1, misses=1)
        add(kind="cache", lanes=1, words=16, slave_dw=32, cachesize=8, init="zero", adrs=[0, 1, 8, 9], reverse=False,
            misses=1)
        # (a master word of four slave words - lanes=4, slave_dw=8 - is out of reach: 8 varying bytes behind the
        # cache's own copy give > 2*10^6 product states)
        # default size (the whole address space) and two regions swapped
        add(kind="remap", lanes=1, words=8, backing_bytes=8, origin=0, size=None, src=[(0, 2), (4, 2)],
            dst=[(4, 2), (0, 2)], init="idx", junk=1)
        add(kind="remap", lanes=2, words=4, backing_bytes=16, origin=8, size=8, src=[(10, 2)], dst=[(2, 2)], init="idx")
        add(kind="wb2csr", lanes=2, words=2, register=False, init="alt", sels=[3, 0])
        add(kind="wb2csr", lanes=2, words=2, register=False, init="alt", addressing="byte", sels=[3, 0], junk=1)
    return [(s, tla_cfg(s, i + 1)) for i, s in enumerate(L)]
