"""DUT factory for the burst part of C07: Wishbone B4 registered feedback burst cycles (cti/bte) through
wishbone.SRAM(bursting=True), the read-only bursting SRAM and the data-width converters in front of a
bursting SRAM.  Every DUT ends in real wishbone.SRAM instances, so the whole chain is repository code.

The contract is specs/wbmem/FlatMemBurst.tla; nothing here decides what is correct.  `Hint.inputs` mirrors
the environment's `Inputs` only to let the graph loop speculate along the inputs TLC is going to ask for
(an accelerator: a wrong mirror costs rounds or unused edges, never a verdict)."""
from migen import Module, Signal, Cat, Constant

from litex.soc.interconnect import wishbone

from .wbmem import _sram, image as _image


def image(spec):
    """backing store image; "db32": a binary de Bruijn sequence of order 5 (every window of 5 consecutive bytes
    is unique over 32 bytes, so a beat served from another wrap block is seen), else the patterns of wbmem"""
    if spec.get("init") == "db32":
        return [(0x077CB531 >> (b % 32)) & 1 for b in range(spec["backing_bytes"])]
    return _image(spec)


def _log2(n):
    return max(0, (n - 1).bit_length())


def make(spec):
    kind = spec["kind"]
    L = spec["lanes"]
    dw = 8 * L
    words = spec["words"]
    top = Module()
    img = image(spec)
    aw = max(1, _log2(words))
    slave = None
    if kind in ("bsram", "bsram_ro", "sram_nb"):
        # adr_extra: address bus wider than the memory (the usual situation in a SoC) - the upper bits are
        # driven with 0 by the harness, the burst counter of the SRAM is then wider than the memory port
        sram = _sram(dw, words, img, read_only=(kind == "bsram_ro"), aw=aw + spec.get("adr_extra", 0),
                     bursting=(kind != "sram_nb"))
        top.submodules += sram
        master = sram.bus
    elif kind == "bdown":     # master dw -> bursting SRAM of dw/ratio
        ratio = spec["ratio"]
        sram = _sram(dw // ratio, words * ratio, img, aw=aw + _log2(ratio), bursting=bool(spec.get("slave_bursting", 1)))
        master = wishbone.Interface(data_width=dw, adr_width=aw, bursting=True)
        top.submodules += sram, wishbone.DownConverter(master, sram.bus)
        slave = sram.bus
    elif kind == "bup":       # master dw -> bursting SRAM of dw*ratio
        ratio = spec["ratio"]
        sram = _sram(dw * ratio, max(1, words // ratio), img, aw=max(1, aw - _log2(ratio)), bursting=True)
        master = wishbone.Interface(data_width=dw, adr_width=aw, bursting=True)
        top.submodules += sram, wishbone.UpConverter(master, sram.bus)
        slave = sram.bus
    elif kind == "bconv":     # wishbone.Converter with equal widths (plain connect) in front of a bursting SRAM
        sram = _sram(dw, words, img, aw=aw, bursting=True)
        master = wishbone.Interface(data_width=dw, adr_width=aw, bursting=True)
        top.submodules += sram, wishbone.Converter(master, sram.bus)
        slave = sram.bus
    else:
        raise ValueError(kind)
    req, adr, we, sel, data = Signal(2), Signal(max=max(2, words)), Signal(), Signal(L), Signal(L)
    cti, bte = Signal(3), Signal(2)
    top.comb += [
        master.cyc.eq((req == 1) | (req == 2)), master.stb.eq((req == 1) | (req == 3)), master.we.eq(we), master.adr.eq(adr), master.sel.eq(sel),
        master.cti.eq(cti), master.bte.eq(bte),
        master.dat_w.eq(Cat(*[Cat(data[l], Constant(0, 7)) for l in range(L)])),
    ]
    outs = [master.ack, master.err] + [master.dat_r[8 * l:8 * l + 8] for l in range(L)]
    if spec.get("sside"):
        outs += [slave.cyc & slave.stb, slave.cyc, slave.adr, slave.we, slave.cti, slave.bte, slave.ack]
    return top, [req, adr, we, sel, data, cti, bte], outs


def tla_cfg(spec, wi):
    L = spec["lanes"]
    allsel = (1 << L) - 1
    sels = spec.get("sels", [allsel])
    return {"lanes": L, "words": spec["words"], "init": image(spec)[:spec["words"] * L],
            "readonly": int(spec["kind"] == "bsram_ro"),
            "sels": sels, "rsels": spec.get("rsels", [allsel]), "wes": spec.get("wes", [0, 1]),
            "classic": int(spec.get("classic", 1)), "end1": int(spec.get("end1", 1)), "const": int(spec.get("const", 1)),
            "btes": spec.get("btes", [0]), "maxlen": spec["maxlen"],
            "sside": int(bool(spec.get("sside"))), "swords": spec["words"] * spec.get("ratio", 1) if spec["kind"] != "bup"
            else max(1, spec["words"] // spec["ratio"]),
            "mwait": int(spec.get("mwait", 0)), "junk": int(spec.get("junk", 0)), "wi": wi}


WRAPLEN = {0: 1, 1: 4, 2: 8, 3: 16}


def beat_adr(W, kind, bte, a0, k):
    if kind != 2:
        return a0
    if bte == 0:
        return (a0 + k) % W
    n = WRAPLEN[bte]
    off = a0 % n
    return ((a0 - off) + (k // n) * n + ((off + k) % n)) % W


def required_witnesses(spec):
    """names (FlatMemBurst.tla, Wit) that the exploration of this DUT must have produced"""
    w = []
    ml = spec["maxlen"]
    btes = spec.get("btes", [0])
    wes = spec.get("wes", [0, 1])
    if ml >= 3 and btes and 0 in wes:
        w.append("incrementing read burst, third or later beat")
    if ml >= 2 and btes and 1 in wes:
        w.append("incrementing write burst, second or later beat")
    if ml >= 2 and any(b and WRAPLEN[b] < spec["words"] for b in btes):     # else wrap-n = linear modulo the address space
        w.append("wrapped beat (address differs from the linear one)")
    if ml >= 2 and 0 in btes:
        w.append("linear burst across the top of the address space")
    if ml >= 2 and spec.get("const", 1):
        w.append("constant address burst, second or later beat")
    if ml >= 2 and btes:
        w.append("burst starts right after the last beat of a burst")
        if spec.get("classic", 1):
            w.append("classic cycle starts right after the last beat of a burst")
    if spec.get("end1", 1):
        w.append("single access tagged end-of-burst")
    if spec.get("sside") and spec["kind"] == "bdown" and ml >= 2 and 0 in btes:
        w.append("slave-side burst of three or more beats")
    if any(b and ml > WRAPLEN[b] for b in btes):
        w.append("wrap burst longer than the wrap size")
    if spec.get("mwait") and ml >= 2 and btes:
        w.append("beat of an incrementing burst after a master wait state")
        w.append("cyc ahead of the first stb")
    if spec.get("junk") and btes:
        w.append("burst beat of another slave on the bus (stb without cyc)")
        if spec.get("mwait") and ml >= 2:
            w.append("wait state with write-shaped lines")
    return w


class Hint:
    """mirror of the Env master of FlatMemBurst.tla: ctx = (st, a0, k, kind, bte, we, held iv, wait states so far)"""
    IDLE = (0, 0, 0, 0, 0, 0, None, 0)

    def init(self, cfg):
        return self.IDLE

    @staticmethod
    def _wdata(cfg, we, sel):
        if not we:
            return [0]
        return [x for x in range(1 << cfg["lanes"]) if x & ~sel == 0]

    def inputs(self, cfg, ctx):
        st, a0, k, kind, bte, we, held, wt = ctx
        mw = cfg.get("mwait", 0)
        junk = cfg.get("junk", 0)
        allsel = (1 << cfg["lanes"]) - 1
        if st == 1:
            return [held]
        out = []
        if st == 2:
            a = beat_adr(cfg["words"], kind, bte, a0, k)
            ctis = [kind, 7] if k < cfg["maxlen"] - 1 else [7]
            for sel in (cfg["sels"] if we else cfg["rsels"]):
                for x in self._wdata(cfg, we, sel):
                    for t in ctis:
                        out.append((1, a, we, sel, x, t, bte))
            if wt < mw:
                out += [(2, a, we, 0, 0, kind, bte), (2, 0, 0, 0, 0, 0, 0)]
                if junk:
                    out += [(2, x, 1, allsel, allsel, 0, 0) for x in range(cfg["words"])]
            return out
        out.append((0, 0, 0, 0, 0, 0, 0))
        if mw:
            out += [(2, 0, 0, 0, 0, 2, b) for b in cfg["btes"]]
        if junk:
            for q in ((2, 3) if mw else (3,)):
                for x in range(cfg["words"]):
                    out += [(q, x, 1, allsel, allsel, t[0], t[1]) for t in [(0, 0)] + [(2, b) for b in cfg["btes"]]]
        tags = []
        if cfg["classic"]:
            tags.append((0, 0))
        if cfg["end1"]:
            tags.append((7, 0))
        if cfg["maxlen"] >= 2:
            if cfg["const"]:
                tags.append((1, 0))
            tags += [(2, b) for b in cfg["btes"]]
        for w in cfg["wes"]:
            for sel in (cfg["sels"] if w else cfg["rsels"]):
                for x in self._wdata(cfg, w, sel):
                    for a in range(cfg["words"]):
                        for t in tags:
                            out.append((1, a, w, sel, x, t[0], t[1]))
        return out

    def allowed(self, cfg, ctx, iv):
        return tuple(iv) in set(self.inputs(cfg, ctx))

    def next(self, cfg, ctx, iv, o):
        st, a0, k, kind, bte, we, held, wt = ctx
        iv = tuple(iv)
        if iv[0] == 2:
            return (2, a0, k, kind, bte, we, None, wt + 1) if st == 2 else self.IDLE
        if iv[0] in (0, 3):
            return self.IDLE
        if st == 0:
            a0, k, kind, bte, we = iv[1], 0, iv[5], iv[6], iv[2]
        if o[0] == 0:
            return (1, a0, k, kind, bte, we, iv, 0)
        if iv[5] in (0, 7):
            return self.IDLE
        return (2, a0, k + 1, kind, bte, we, None, 0)


def configs(tier):
    """flags: live = the liveness property is model-checked for this DUT (else invariants only); alone = own batch;
    nofollowup = demonstration configuration of a listed finding (gcheck drops the DUT after the finding)"""
    out = []
    th = tier == "thorough"

    def add(**spec):
        spec.setdefault("live", True)
        spec.setdefault("backing_bytes", spec["words"] * spec["lanes"])
        out.append(spec)
    # wrap-4/8 and linear bursts of up to 6 (16) beats on a read-only 16-word memory: every start address, bursts
    # longer than the wrap size, linear bursts across the top of the address space, writes ignored
    add(kind="bsram_ro", lanes=1, words=16, init="idx", btes=[0, 1, 2, 3] if th else [0, 1, 2], maxlen=16 if th else 6)
    # master wait states inside bursts (cyc high, stb low) and cyc ahead of the first stb, reads and writes
    # ... and lines that are not quiet without a request (junk: write-shaped lines in wait states, cyc ahead of stb with
    # write lines, beats of another slave's burst with stb but without cyc)
    add(kind="bsram", lanes=1, words=4, init="idx", btes=[0, 1], maxlen=4, mwait=2 if th else 1, const=0, end1=0, classic=0,
        junk=1)
    # byte lanes of a 16-bit memory in write bursts
    add(kind="bsram", lanes=2, words=2, init="alt", btes=[0], maxlen=3, sels=[1, 2, 3])
    # cti translation of the down-converter (16 -> 8 bit), slave side observed
    add(kind="bdown", lanes=2, words=2, ratio=2, init="alt", btes=[0, 1], maxlen=3, sels=[1, 2, 3], rsels=[3, 1], sside=1)
    # ... and its treatment of wrap bursts (turned into classic cycles): needs more master words than the wrap size;
    # reads only (a writable 16-byte memory is out of reach)
    add(kind="bdown", lanes=2, words=8, ratio=2, init="idx", btes=[0, 1], maxlen=4, wes=[0], rsels=[3], sside=1,
        const=0, end1=0)
    # up-converter (8 -> 16 bit) in front of a bursting SRAM: everything but incrementing bursts ...
    add(kind="bup", lanes=1, words=4, ratio=2, init="idx", btes=[], maxlen=3, sside=1)
    # ... and the demonstration of the listed finding C07b-upconverter-burst-tags (reads only: one failing clause)
    add(kind="bup", lanes=1, words=8, ratio=2, init="idx", btes=[0], maxlen=3, wes=[0], const=0, end1=0, classic=0,
        alone=True, nofollowup=True, live=False)
    # write bursts on an 8-word memory (wrap-4 differs from linear only from 8 words on; 2^8 memory contents, so no
    # liveness run in quick - the acknowledge logic does not depend on the content and is judged on the other DUTs)
    add(kind="bsram", lanes=1, words=8, init="idx", btes=[0, 1], maxlen=8 if th else 4, const=0, end1=0, live=th, alone=True)
    if th:
        add(kind="bsram", lanes=2, words=4, init="alt", btes=[0], maxlen=4, sels=[1, 2, 3], const=0, end1=0, alone=True)
        add(kind="bsram", lanes=1, words=4, init="idx", btes=[0, 1, 2, 3], maxlen=8, adr_extra=2)
        add(kind="bsram_ro", lanes=2, words=8, init="idx", btes=[0, 1, 2], maxlen=8, rsels=[3, 1, 2])
        # wrap-16 differs from linear only from 32 words on
        add(kind="bsram_ro", lanes=1, words=32, init="db32", btes=[0, 3], maxlen=16, wes=[0], const=0, end1=0)
        add(kind="sram_nb", lanes=1, words=4, init="idx", btes=[0, 1], maxlen=4)
        add(kind="bconv", lanes=1, words=4, init="idx", btes=[0, 1], maxlen=4, sside=1)
        # burst tags translated by the down-converter for a slave that ignores them
        add(kind="bdown", lanes=2, words=2, ratio=2, init="alt", btes=[0], maxlen=3, sels=[1, 2, 3], rsels=[3, 1], sside=1,
            slave_bursting=0)
        # the two big ones (2^8 memory contents behind the converter's own state): invariants only, the
        # acknowledge/count logic does not depend on the content and is judged with liveness on the 2-word DUT
        add(kind="bdown", lanes=2, words=4, ratio=2, init="alt", btes=[0, 1], maxlen=4, sels=[1, 2, 3], rsels=[3],
            sside=1, const=0, alone=True, live=False)
        add(kind="bdown", lanes=4, words=2, ratio=4, init="alt", btes=[0], maxlen=3, sels=[15, 5, 8], rsels=[15],
            sside=1, const=0, alone=True, live=False)
    return [(s, tla_cfg(s, i + 1)) for i, s in enumerate(out)]
