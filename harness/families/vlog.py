"""Drivers for the `vlog` family (C01): generated Verilog vs. the simulated FHDL design.

Python only drives the real code and moves data:
  * builds the expressions TLC enumerated (specs/vlog/ExprSpace.tla) as real Migen objects, places them in
    tiny modules, lets the REAL back end (litex.gen.fhdl.verilog.convert) print them and the REAL reference
    simulator (litex.gen.sim.core.Evaluator / Simulator) evaluate them, parses the emitted text
    (harness/verilog_parse.py) and cuts it into the pieces that drive one target;
  * generates small FHDL fragments / builds real LiteX blocks, converts them, simulates them with the
    ordinary Simulator under seeded stimuli and records every signal's value per clock tick.
What the emitted Verilog means is defined in specs/vlog/VerilogSem.tla and decided by TLC.
"""
import random

from .. import verilog_parse as vp

NOVAL = 999999
MAXW = 30

TARGETS = [(1, 0), (2, 0), (3, 0), (4, 0), (5, 0), (6, 0), (2, 1), (5, 1)]
VARSHAPES = [(w, s) for w in (1, 2, 3) for s in (0, 1)]
CASE_LABELS = [-1, 0, 1, 2, 3]
INDEX_CHOICES = [1, 2, 3]


class Skip(Exception):
    """the AST is not buildable under this shape (slice outside the operand, signed shift amount, too wide)"""


# ------------------------------------------------------------------------------------------ AST -> Migen
def build_expr(t, va, vb):
    from migen.fhdl.structure import Constant, Cat, Replicate, _Operator, _Slice
    from migen.fhdl.bitcontainer import value_bits_sign

    def rec(t):
        k = t[0]
        if k == "v":
            return va if t[1] == 1 else vb
        if k == "c":
            return Constant(t[1])
        if k == "u":
            return _Operator(t[1], [rec(t[2])])
        if k == "b":
            x, y = rec(t[2]), rec(t[3])
            if t[1] in ("<<<", ">>>"):
                nb, sg = value_bits_sign(y)
                if sg:
                    raise Skip("signed shift amount")
                if t[1] == "<<<" and nb > 3:
                    raise Skip("shift amount wider than 3 bits")
            r = _Operator(t[1], [x, y])
            return r
        if k == "m":
            return _Operator("m", [rec(t[1]), rec(t[2]), rec(t[3])])
        if k == "s":
            x = rec(t[1])
            n = value_bits_sign(x)[0]
            lo, hi = t[2], t[3]
            if lo == -1:
                lo, hi = n - 1, n
            elif lo == -2:
                lo, hi = n // 2, n
            if hi > n or lo >= hi:
                raise Skip("slice outside the operand")
            return _Slice(x, lo, hi)
        if k == "cat":
            return Cat(rec(t[1]), rec(t[2]))
        if k == "rep":
            return Replicate(rec(t[1]), t[2])
        raise ValueError(t)

    e = rec(t)
    if max_width(e) > MAXW:
        raise Skip("wider than %d bits" % MAXW)
    return e


def max_width(e):
    from migen.fhdl.structure import Cat, Replicate, _Operator, _Slice
    from migen.fhdl.bitcontainer import value_bits_sign
    w = value_bits_sign(e)[0]
    if isinstance(e, _Operator):
        return max([w] + [max_width(o) for o in e.operands])
    if isinstance(e, _Slice):
        return max(w, max_width(e.value))
    if isinstance(e, Cat):
        return max([w] + [max_width(o) for o in e.l])
    if isinstance(e, Replicate):
        return max(w, max_width(e.v))
    return w


def ast_vars(t):
    if t[0] == "v":
        return {t[1]}
    out = set()
    for x in t[1:]:
        if isinstance(x, tuple):
            out |= ast_vars(x)
    return out


def ast_text(t):
    """Migen-like rendering of an AST for messages"""
    k = t[0]
    if k == "v":
        return "ab"[t[1] - 1]
    if k == "c":
        return "C(%d)" % t[1]
    if k == "u":
        return "(%s%s)" % (t[1], ast_text(t[2]))
    if k == "b":
        return "(%s %s %s)" % (ast_text(t[2]), {"<<<": "<<", ">>>": ">>"}.get(t[1], t[1]), ast_text(t[3]))
    if k == "m":
        return "Mux(%s, %s, %s)" % (ast_text(t[1]), ast_text(t[2]), ast_text(t[3]))
    if k == "s":
        if t[2] == -1:
            return "%s[msb]" % ast_text(t[1])
        if t[2] == -2:
            return "%s[upper half]" % ast_text(t[1])
        return "%s[%d:%d]" % (ast_text(t[1]), t[2], t[3])
    if k == "cat":
        return "Cat(%s, %s)" % (ast_text(t[1]), ast_text(t[2]))
    if k == "rep":
        return "Replicate(%s, %d)" % (ast_text(t[1]), t[2])
    return repr(t)


def ast_size(t):
    return 1 + sum(ast_size(x) for x in t[1:] if isinstance(x, tuple))


def migen_features(e, out=None):
    """structural features of the FHDL expression that only serve the signature of an unexplained mismatch"""
    from migen.fhdl.structure import Cat, Replicate, _Operator, _Slice, _ArrayProxy
    from migen.fhdl.bitcontainer import value_bits_sign
    out = set() if out is None else out
    if isinstance(e, _Operator):
        for o in e.operands:
            migen_features(o, out)
    elif isinstance(e, _Slice):
        # where the back end's own slice lowering (through Cat / Replicate / nested slices) ends up
        from litex.gen.fhdl.verilog import _lower_slice_cat, _lower_slice_replicate
        node, start, length = e, 0, e.stop - e.start
        while isinstance(node, _Slice):
            start += node.start
            node = node.value
            while True:
                node, start = _lower_slice_cat(node, start, length)
                former = node
                node, start = _lower_slice_replicate(node, start, length)
                if node is former:
                    break
        nb, sg = value_bits_sign(node)
        if sg and start == 0 and nb == length:
            out.add("whole-signed-operand-slice")
        migen_features(e.value, out)
    elif isinstance(e, Cat):
        for o in e.l:
            migen_features(o, out)
    elif isinstance(e, Replicate):
        migen_features(e.v, out)
    elif isinstance(e, _ArrayProxy):
        migen_features(e.key, out)
        for c in e.choices:
            migen_features(c, out)
    return out


def migen_ops(e, out):
    """pre-order list of (operator, Migen width) in the order the back end prints the operands"""
    from migen.fhdl.structure import Cat, Replicate, _Operator, _Slice, _ArrayProxy
    from migen.fhdl.bitcontainer import value_bits_sign
    if isinstance(e, _Operator):
        out.append((e.op, value_bits_sign(e)[0]))
        for o in e.operands:
            migen_ops(o, out)
    elif isinstance(e, _Slice):
        migen_ops(e.value, out)
    elif isinstance(e, Cat):
        for o in reversed(e.l):
            migen_ops(o, out)
    elif isinstance(e, Replicate):
        migen_ops(e.v, out)
    elif isinstance(e, _ArrayProxy):
        migen_ops(e.key, out)
        for c in e.choices:
            migen_ops(c, out)
    return out


# ------------------------------------------------------------------------------------------ parsed text helpers
def expr_ids(e, out):
    if isinstance(e, dict):
        if e.get("k") == "id":
            out.add(e["n"])
        for v in e.values():
            expr_ids(v, out)
    elif isinstance(e, list):
        for v in e:
            expr_ids(v, out)
    return out


def lhs_names(l, out):
    k = l["k"]
    if k == "id":
        out.add(l["n"])
    elif k in ("sel", "rng"):
        lhs_names(l["a"], out)
    elif k == "cat":
        for x in l["l"]:
            lhs_names(x, out)
    return out


def stmt_targets(stmts, out):
    for s in stmts:
        k = s["k"]
        if k in ("nba", "ba"):
            lhs_names(s["l"], out)
        elif k == "if":
            stmt_targets(s["t"], out)
            stmt_targets(s.get("f", []), out)
        elif k == "case":
            for ci in s["items"]:
                stmt_targets(ci["b"], out)
    return out


def item_targets(it):
    if it["k"] == "assign":
        return lhs_names(it["l"], set())
    if it["k"] == "always":
        return stmt_targets(it["b"], set())
    return set()


def decl_table(mod):
    """name -> {"w", "s"[, "d"]} and name -> initial value expression, from ports and declarations"""
    D, ini = {}, {}
    for p in mod["ports"]:
        D[p["n"]] = {"w": p["h"] - p["l"] + 1 if p["h"] >= 0 else 1, "s": p["s"]}
        if "init" in p:
            ini[p["n"]] = p["init"]
    for it in mod["items"]:
        if it["k"] == "decl":
            D[it["n"]] = {"w": it["h"] - it["l"] + 1 if it["h"] >= 0 else 1, "s": it["s"]}
            if "init" in it:
                ini[it["n"]] = it["init"]
        elif it["k"] == "memdecl":
            D[it["n"]] = {"w": it["h"] - it["l"] + 1 if it["h"] >= 0 else 1, "s": 0, "d": it["hi"] - it["lo"] + 1}
    return D, ini


def const_value(e):
    """value of a constant initialiser `N'dV` / `-N'dV` (bits); None if it is not one"""
    if e["k"] == "num":
        return e["v"] % (1 << e["w"])
    if e["k"] == "un" and e["op"] == "-" and e["a"]["k"] == "num":
        return (-e["a"]["v"]) % (1 << e["a"]["w"])
    return None


def collect_pars(e, drivers, seen, out):
    """parenthesised nodes in text pre-order, following internal wires into their drivers at the first use"""
    if isinstance(e, list):
        for x in e:
            collect_pars(x, drivers, seen, out)
        return out
    if not isinstance(e, dict):
        return out
    k = e.get("k")
    if k == "par":
        out.append(e)
        collect_pars(e["a"], drivers, seen, out)
    elif k == "id":
        n = e["n"]
        if n in drivers and n not in seen:
            seen.add(n)
            for it in drivers[n]:
                if it["k"] == "assign":
                    collect_pars(it["r"], drivers, seen, out)
                else:
                    collect_pars_stmts(it["b"], drivers, seen, out)
    elif k in ("un", "sgn"):
        collect_pars(e["a"], drivers, seen, out)
    elif k == "bin":
        collect_pars(e["a"], drivers, seen, out)
        collect_pars(e["b"], drivers, seen, out)
    elif k == "cond":
        for f in ("c", "a", "b"):
            collect_pars(e[f], drivers, seen, out)
    elif k in ("cat", "rep"):
        collect_pars(e["l"], drivers, seen, out)
    elif k == "sel":
        collect_pars(e["a"], drivers, seen, out)
        collect_pars(e["i"], drivers, seen, out)
    elif k == "rng":
        collect_pars(e["a"], drivers, seen, out)
    return out


def collect_pars_stmts(stmts, drivers, seen, out):
    for s in stmts:
        k = s["k"]
        if k in ("nba", "ba"):
            collect_pars(s["r"], drivers, seen, out)
        elif k == "if":
            collect_pars(s["c"], drivers, seen, out)
            collect_pars_stmts(s["t"], drivers, seen, out)
            collect_pars_stmts(s.get("f", []), drivers, seen, out)
        elif k == "case":
            collect_pars(s["e"], drivers, seen, out)
            for ci in s["items"]:
                collect_pars_stmts(ci["b"], drivers, seen, out)
    return out


_OPMAP = {"m": "?:"}


def annotate(pars, ops):
    """attach Migen's width (mw) and a node number (pi) to the parenthesised nodes if the two operator sequences
    agree; returns the number of annotated nodes (0 = not annotated)"""
    if len(pars) != len(ops):
        return 0
    for p, (op, w) in zip(pars, ops):
        a = p["a"]
        vop = a.get("op") if a["k"] in ("bin", "un") else ("?:" if a["k"] == "cond" else None)
        if vop != _OPMAP.get(op, op):
            return 0
    for i, (p, (op, w)) in enumerate(zip(pars, ops)):
        p["mw"] = w
        p["pi"] = i + 1
    return len(pars)


# ------------------------------------------------------------------------------------------ layer 1 recording
def shape_range(shape):
    w, s = shape
    return range(-(1 << (w - 1)), 1 << (w - 1)) if s else range(0, 1 << w)


def record_batch(job):
    """job = (sa, sb, [(aid, ast)], repo-independent)  ->  dict(groups=[...], skipped={reason: n}, stats)
    One tiny module per batch: inputs a, b with the given shapes; for every AST the targets of every position.
    The simulator side is evaluated first (on pristine objects), then the very same module is converted."""
    from migen import Module, Signal, If, Case, Array
    from migen.fhdl.structure import Constant, _Operator
    from migen.fhdl.bitcontainer import value_bits_sign
    from litex.gen.fhdl.verilog import convert
    from litex.gen.sim.core import Evaluator

    sa, sb, asts, positions, twovar = job
    m = Module()
    a = Signal((sa[0], bool(sa[1])), name_override="a")
    b = Signal((sb[0], bool(sb[1])), name_override="b")
    cases = []
    skipped = {}
    for aid, ast in asts:
        try:
            e = build_expr(ast, a, b)
        except Skip as ex:
            skipped[str(ex)] = skipped.get(str(ex), 0) + 1
            continue
        c = {"aid": aid, "ast": ast, "e": e, "rhs": [], "frags": [], "mf": ",".join(sorted(migen_features(e)))}
        nb, sg = value_bits_sign(e)
        if "rhs" in positions:
            for (w, s) in TARGETS:
                t = Signal((w, bool(s)), name_override="t%d_%d%s" % (aid, w, "s" if s else "u"))
                st = t.eq(e)
                m.comb += st
                c["rhs"].append((t, st))
        if "if" in positions:
            t = Signal(1, name_override="t%d_if" % aid)
            st = If(e, t.eq(1))
            m.comb += st
            c["frags"].append(("if", t, st, e))
        if "case" in positions:
            t = Signal(3, name_override="t%d_case" % aid)
            lo, hi = (-(1 << (nb - 1)), (1 << (nb - 1)) - 1) if sg else (0, (1 << nb) - 1)
            labels = [k for k in CASE_LABELS if lo <= k <= hi]
            st = Case(e, dict([(k, t.eq(j + 1)) for j, k in enumerate(labels)] + [("default", t.eq(0))]))
            m.comb += st
            c["frags"].append(("case", t, st, e))
        if "index" in positions and not sg:
            t = Signal(3, name_override="t%d_index" % aid)
            arr = Array([Constant(v, (3, False)) for v in INDEX_CHOICES])
            root = arr[e]
            st = t.eq(root)
            m.comb += st
            c["frags"].append(("index", t, st, root))
        if "cmp" in positions:
            t = Signal(1, name_override="t%d_cmp" % aid)
            root = _Operator("<=", [e, a])
            st = t.eq(root)
            m.comb += st
            c["frags"].append(("cmp", t, st, root))
        cases.append(c)
    if not cases:
        return {"groups": [], "skipped": skipped, "evals": 0, "unannotated": 0}

    # ---- the reference simulator's side: Evaluator.eval / assign / execute on the statements of the module
    ev = Evaluator([], {})
    envs_all = [(x, y) for x in shape_range(sa) for y in shape_range(sb)] if twovar else [(x,) for x in shape_range(sa)]
    evals = 0
    for c in cases:
        envs = envs_all
        c["envs"] = envs
        c["rhs_rec"] = [[] for _ in c["rhs"]]
        c["frag_rec"] = [[] for _ in c["frags"]]
        for env in envs:
            ev.signal_values[a] = env[0]
            ev.signal_values[b] = env[1] if twovar else 0
            try:
                v = ev.eval(c["e"])
            except Exception:
                v = None
            for j, (t, st) in enumerate(c["rhs"]):
                if v is None:
                    c["rhs_rec"][j].append(NOVAL)
                else:
                    ev.modifications.clear()
                    ev.assign(t, v)
                    c["rhs_rec"][j].append(ev.modifications[t])
            for j, (pos, t, st, root) in enumerate(c["frags"]):
                ev.modifications.clear()
                try:
                    ev.execute([t.eq(t.reset), st])          # comb targets fall back to their reset value
                    c["frag_rec"][j].append(ev.modifications[t])
                except Exception:
                    c["frag_rec"][j].append(NOVAL)
            evals += 1 + len(c["frags"])
    ev.modifications.clear()

    # ---- the back end's side
    ios = {a, b}
    for c in cases:
        ios |= {t for t, _ in c["rhs"]} | {f[1] for f in c["frags"]}
    out = convert(m, ios=ios, name="top")
    mod = vp.parse(out.main_source)
    D, ini = decl_table(mod)
    drivers = {}
    for it in mod["items"]:
        for n in item_targets(it):
            drivers.setdefault(n, []).append(it)
    groups = []
    unann = 0
    ins = ["a", "b"] if twovar else ["a"]
    for c in cases:
        envs = [list(e) for e in c["envs"]]
        # rhs: all targets must have been given the same right-hand side text
        if c["rhs"]:
            items = []
            for t, _ in c["rhs"]:
                n = out.ns.get_name(t)
                its = drivers.get(n, [])
                cone = _cone(its, drivers, ("a", "b"))
                items.append((n, its, cone))
            simple = all(len(its) == 1 and its[0]["k"] == "assign" and its[0]["l"] == {"k": "id", "n": n} and len(cone) == 1
                         for n, its, cone in items)
            first = items[0][1][0]["r"] if simple else None
            if simple and all(its[0]["r"] == first for _, its, _ in items):
                e = _copy(first)
                pars = collect_pars(e, {}, set(), [])
                np = annotate(pars, migen_ops(c["e"], []))
                if pars and not np:
                    unann += 1
                groups.append({"kind": "rhs", "aid": c["aid"], "pos": "rhs", "np": np, "mf": c["mf"],
                               "D": {n: D[n] for n in ins}, "ins": ins, "e": vp.strip_lex(e), "envs": envs,
                               "tg": [{"w": t.nbits, "s": int(t.signed), "rec": rec}
                                      for (t, _), rec in zip(c["rhs"], c["rhs_rec"])]})
            else:
                # lowered through proxies (complex slices): one fragment per target
                for (n, its, cone), (t, _), rec in zip(items, c["rhs"], c["rhs_rec"]):
                    g = _frag_group(c, "rhs", n, cone, drivers, D, ini, ins, envs, rec, c["e"])
                    unann += g.pop("_unann")
                    groups.append(g)
        for (pos, t, st, root), rec in zip(c["frags"], c["frag_rec"]):
            n = out.ns.get_name(t)
            cone = _cone(drivers.get(n, []), drivers, ("a", "b"))
            if len(cone) == 1 and cone[0]["k"] == "assign" and cone[0]["l"] == {"k": "id", "n": n}:
                e = _copy(cone[0]["r"])
                pars = collect_pars(e, {}, set(), [])
                np = annotate(pars, migen_ops(root, []))
                if pars and not np:
                    unann += 1
                groups.append({"kind": "rhs", "aid": c["aid"], "pos": pos, "np": np, "mf": c["mf"], "D": {x: D[x] for x in ins},
                               "ins": ins, "e": vp.strip_lex(e), "envs": envs,
                               "tg": [{"w": t.nbits, "s": int(t.signed), "rec": rec}]})
                continue
            g = _frag_group(c, pos, n, cone, drivers, D, ini, ins, envs, rec, root)
            unann += g.pop("_unann")
            groups.append(g)
    return {"groups": groups, "skipped": skipped, "evals": evals, "unannotated": unann}


def _copy(e):
    if isinstance(e, dict):
        return {k: _copy(v) for k, v in e.items()}
    if isinstance(e, list):
        return [_copy(v) for v in e]
    return e


def _cone(items, drivers, inputs):
    """the items driving a target plus, transitively, the items driving every internal name they read"""
    out, todo, seen = [], list(items), set()
    while todo:
        it = todo.pop(0)
        if id(it) in seen:
            continue
        seen.add(id(it))
        out.append(it)
        for n in expr_ids(it, set()):
            if n not in inputs:
                for d in drivers.get(n, []):
                    if id(d) not in seen:
                        todo.append(d)
    return out


def _frag_group(c, pos, tname, cone, drivers, D, ini, ins, envs, rec, root):
    items = [_copy(it) for it in cone]
    names = set()
    for it in items:
        expr_ids(it, names)
    names |= set(ins)
    local = {}
    for it in items:
        for n in item_targets(it):
            local.setdefault(n, []).append(it)
    start = [it for it in items if tname in item_targets(it)]
    pars = []
    seen = {tname}
    for it in start:
        if it["k"] == "assign":
            collect_pars(it["r"], local, seen, pars)
        else:
            collect_pars_stmts(it["b"], local, seen, pars)
    np = annotate(pars, migen_ops(root, []))
    inits = {}
    for n in names:
        if n in ini and n not in ins:
            v = const_value(ini[n])
            if v is not None:
                inits[n] = v
    inits["_"] = 0
    return {"kind": "frag", "aid": c["aid"], "pos": pos, "np": np, "mf": c["mf"], "D": {n: D[n] for n in sorted(names)}, "ins": ins,
            "items": vp.strip_lex(items), "ini": inits, "t": tname, "envs": envs, "rec": rec,
            "_unann": 1 if (pars and not np) else 0}


# ========================================================================================== layers 2 and 3
class Unsupported(Exception):
    """the design uses something VerilogSem keeps opaque (instances, tristates, clocks read as data)"""


class Recorder:
    """stands in for the simulator's VCD writer (same protocol: set / delay / close): the Simulator reports, after the
    combinational settling of every tick, each signal that changed together with its committed value"""

    def __init__(self):
        self.ticks = [{}]

    def init(self, signals):
        pass

    def set(self, signal, value):
        self.ticks[-1][signal] = value

    def delay(self, dt):
        self.ticks.append({})

    def close(self):
        pass


def simulate(fragment, generators, clocks):
    """run the ordinary Simulator (what run_simulation does) with the recorder as its value sink"""
    from litex.gen.sim.core import Simulator
    sim = Simulator(fragment, generators, clocks=clocks)
    rec = Recorder()
    sim.vcd = rec
    with sim:
        sim.run()
    return sim, rec


def _ordered_signals(f):
    from migen.fhdl.tools import list_signals, list_special_ios
    sigs = list_signals(f) | list_special_ios(f, ins=True, outs=True, inouts=True)
    for cd in f.clock_domains:
        sigs.add(cd.clk)
        if cd.rst is not None:
            sigs.add(cd.rst)
    return sorted(sigs, key=lambda s: s.duid)


def _memories(f):
    from migen.fhdl.specials import Memory
    return sorted([s for s in f.specials if isinstance(s, Memory)], key=lambda s: s.duid)


def topo_items(items):
    """order the combinational items so that drivers precede readers where possible (the fixed point VerilogSem
    computes does not depend on the order; a good order only saves sweeps); other items keep their place at the end"""
    comb = [it for it in items if it["k"] == "assign" or (it["k"] == "always" and it["ev"] == "*")]
    rest = [it for it in items if not (it["k"] == "assign" or (it["k"] == "always" and it["ev"] == "*"))]
    drv = {}
    for i, it in enumerate(comb):
        for n in item_targets(it):
            drv.setdefault(n, []).append(i)
    reads = [expr_ids(it, set()) - item_targets(it) for it in comb]
    done, order, state = set(), [], {}

    def visit(i):
        stack = [(i, iter(sorted({j for n in reads[i] for j in drv.get(n, [])})))]
        state[i] = 1
        while stack:
            k, itr = stack[-1]
            for j in itr:
                if state.get(j, 0) == 0:
                    state[j] = 1
                    stack.append((j, iter(sorted({x for n in reads[j] for x in drv.get(n, [])}))))
                    break
            else:
                stack.pop()
                state[k] = 2
                order.append(k)

    for i in range(len(comb)):
        if state.get(i, 0) == 0:
            visit(i)
    return [comb[i] for i in order] + rest


def build_trace(build, stim_seed, cycles, regular_comb=True, label=None, reset_memories=False):
    """build() -> (module or fragment, clocks dict name->period, info) - called twice: one instance goes through the real
    convert(), the other through the real Simulator; signals of the two instances correspond by creation order.
    -> trace record for specs/vlog/VlogTrace.tla"""
    from migen.fhdl.structure import _Fragment
    from migen.fhdl.tools import list_targets, list_special_ios
    from litex.gen.fhdl.verilog import convert

    def frag(x):
        return x if isinstance(x, _Fragment) else x.get_fragment()

    ma, clocks = build()
    fa = frag(ma)
    sa = _ordered_signals(fa)
    mema = _memories(fa)
    mb, _ = build()
    fb = frag(mb)
    sb = _ordered_signals(fb)
    memb = _memories(fb)
    if len(sa) != len(sb) or any((x.nbits, x.signed, x.reset.value) != (y.nbits, y.signed, y.reset.value) for x, y in zip(sa, sb)) \
            or len(mema) != len(memb):
        raise ValueError("the two instances of the design do not correspond")
    a2b = dict(zip(sa, sb))
    # ---- inputs: every signal nothing in the design drives (clocks apart)
    driven = list_targets(fa) | list_special_ios(fa, ins=False, outs=True, inouts=True)
    clk_a = {cd.clk: cd.name for cd in fa.clock_domains}
    rst_a = {cd.rst: cd.name for cd in fa.clock_domains if cd.rst is not None}
    inputs_a = [s for s in sa if s not in driven and s not in clk_a]
    ios = set(inputs_a) | set(clk_a)
    extra = [s for s in sa if s in driven]
    rng = random.Random("%s/ios" % stim_seed)
    ios |= set(rng.sample(extra, min(len(extra), max(1, len(extra) // 3)))) if extra else set()
    # ---- structural features of the FHDL memories (only used in the signature of a rejected trace)
    from migen.fhdl.specials import WRITE_FIRST, NO_CHANGE
    mfeat = set()
    for mem in mema:
        clocks_ = {p.clock.cd for p in mem.ports}
        if len(clocks_) > 1 and any(not p.async_read and (p.mode == WRITE_FIRST or (p.mode == NO_CHANGE and p.we is not None))
                                    for p in mem.ports):
            mfeat.add("dual-clock-forced-read-first")
        if any(p.mode == NO_CHANGE and not p.async_read and p.we is not None and len(p.we) > 1 for p in mem.ports):
            mfeat.add("no-change-granular-we")
    # ---- the back end
    out = convert(fa, ios=ios, name="top", regular_comb=regular_comb)
    mod = vp.parse(out.main_source)
    if any(it["k"] == "inst" for it in mod["items"]) or any(p["dir"] == "inout" for p in mod["ports"]):
        raise Unsupported("instances / tristates are opaque to VerilogSem")
    D, ini = decl_table(mod)
    name_a = {}
    for s in sa:
        try:
            n = out.ns.get_name(s)
        except Exception:
            continue
        if n in D:
            name_a[s] = n
    clk_names = {name_a[c] for c in clk_a if c in name_a}
    items = [it for it in mod["items"] if it["k"] in ("assign", "always")]
    for it in items:
        rd = expr_ids(it.get("r", it.get("b")), set())
        if rd & clk_names:
            raise Unsupported("a clock is read as data")
    images = {}
    for it in mod["items"]:
        if it["k"] == "initial":
            for st in it["b"]:
                if st["k"] == "sys" and st["n"] == "$readmemh":
                    fn, mem = st["args"][0]["v"], st["args"][1]["n"]
                    images[mem] = [int(x, 16) for x in out.data_files[fn].split()]
                else:
                    raise Unsupported("initial statement %r" % st.get("n"))
    inits = {}
    for n, e in ini.items():
        v = const_value(e)
        if v is None:
            raise Unsupported("non constant initial value of %s" % n)
        inits[n] = v
    for mname, img in images.items():
        inits[mname] = img
    # ---- the simulator
    b_inputs = [a2b[s] for s in inputs_a]
    b_clk = {a2b[c]: n for c, n in clk_a.items()}
    dom_inputs = {}
    cds = sorted(clocks)
    srng = random.Random("%s/stim" % stim_seed)
    for s in b_inputs:
        dn = rst_a.get({v: k for k, v in a2b.items()}[s])
        dom_inputs.setdefault(dn if dn in clocks else srng.choice(cds), []).append(s)
    nbits = sum(s.nbits for s in b_inputs)

    def driver(cd, sigs):
        r = random.Random("%s/drv/%s" % (stim_seed, cd))
        rsts = {s for s in sigs if {v: k for k, v in a2b.items()}[s] in rst_a}
        seq = None
        if nbits <= 5 and len(cds) == 1:
            vals = list(range(1 << nbits)) * 3
            r.shuffle(vals)
            seq = vals
        hold = {s: 0 for s in sigs}
        for cyc in range(cycles):
            st = []
            if seq is not None:
                x = seq[cyc % len(seq)]
                for s in sigs:
                    v = x & ((1 << s.nbits) - 1)
                    x >>= s.nbits
                    st.append(s.eq(v - (1 << s.nbits) if s.signed and v >> (s.nbits - 1) else v))
            else:
                for s in sigs:
                    if s in rsts:
                        # the reference simulator resets memory words like registers (MemoryToArray + insert_resets), the
                        # Verilog template does not: designs with memories are only reset by the dedicated probe
                        v = 1 if (cyc == 1 or r.random() < 0.06) and (not mema or reset_memories) else 0
                    elif hold[s] > 0:
                        hold[s] -= 1
                        continue
                    else:
                        k = r.random()
                        lo, hi = (-(1 << (s.nbits - 1)), (1 << (s.nbits - 1)) - 1) if s.signed else (0, (1 << s.nbits) - 1)
                        v = lo if k < 0.1 else hi if k < 0.2 else 0 if k < 0.3 else r.randint(lo, hi)
                        if r.random() < 0.3:
                            hold[s] = r.randrange(1, 5)
                    st.append(s.eq(v))
            if st:
                yield st
            yield
    gens = {cd: [driver(cd, dom_inputs.get(cd, []))] for cd in cds}
    sim, rec = simulate(fb, gens, clocks)
    # ---- what is compared: every declared name with a counterpart in the simulated design
    b_name = {a2b[s]: n for s, n in name_a.items()}
    memname = {}
    for xa, xb in zip(mema, memb):
        n = out.ns.get_name(xa)
        arr = sim.evaluator.replaced_memories.get(xb)
        if arr is None or n not in D:
            continue
        for i, s in enumerate(arr):
            memname[s] = (n, i)
        if "d" not in D[n] or D[n]["d"] != len(arr):
            raise ValueError("memory %s: depth differs" % n)
    ins = sorted(b_name[s] for s in b_inputs if s in b_name)
    cmp_names = sorted({n for s, n in b_name.items() if n not in clk_names and n not in ins} | {n for n, _ in memname.values()})
    cur = {}
    for s, n in b_name.items():
        if n not in clk_names:
            cur[n] = s.reset.value
    for s, (n, i) in memname.items():
        cur.setdefault(n, [0] * D[n]["d"])[i] = s.reset.value
    for s, v in rec.ticks[0].items():
        if s in memname:
            cur[memname[s][0]][memname[s][1]] = v
        elif s in b_name and b_name[s] not in clk_names:
            cur[b_name[s]] = v
    v0 = {n: (list(v) if isinstance(v, list) else v) for n, v in cur.items()}
    ev = []
    for tk in rec.ticks[1:]:
        rising = sorted(b_name[s] for s, v in tk.items() if s in b_clk and v == 1 and s in b_name)
        dv, dm = {}, {}
        for s, v in tk.items():
            if s in memname:
                dm.setdefault(memname[s][0], []).append([memname[s][1], v])
            elif s in b_name and b_name[s] not in clk_names:
                dv[b_name[s]] = v
        if not rising:
            if dv or dm:
                raise Unsupported("signals change in a tick without a rising clock edge")
            continue
        ev.append({"r": rising, "v": dv, "m": dm})
    pini = {}
    for prt in mod["ports"]:
        if prt["dir"] == "output" and prt["t"] == "reg" and "init" not in prt:
            for s_, n_ in name_a.items():
                if n_ == prt["n"] and s_.reset.value != 0:
                    pini[n_] = s_.reset.value
    return {"label": label, "D": D, "items": vp.strip_lex(topo_items(items)), "ini": inits, "pini": pini, "ins": ins, "cmp": cmp_names,
            "memfeat": "+".join(sorted(mfeat)), "memories": len(mema),
            "v0": v0, "ev": ev, "regular_comb": bool(regular_comb), "verilog": out.main_source}


# ------------------------------------------------------------------------------------------ fragment grammar
_ARITH = ["+", "-", "*", "&", "|", "^"]
_REL = ["<", "<=", "==", "!=", ">", ">="]


def gen_fragment(seed, comb_cat=True, mixed_arr=False):
    """a small FHDL design as plain data (so that a replay can rebuild it): 1-6 state/combinational signals of width
    1-6 plus inputs, comb and sync statements with nested If / Case / Array, slices and Cat on the left, 1-2 clock
    domains with / without reset.  Expressions come from the sub-grammar on which the reference simulator and the
    Verilog are expected to agree (layer 1 maps where they do not): no negative constants, comparisons / right
    shifts / concatenations only over leaves, slices only of unsigned signals."""
    r = random.Random("%s/frag" % seed)
    ndom = 1 if r.random() < 0.6 else 2
    doms = [["sys", int(r.random() < 0.6)]] + ([["b", int(r.random() < 0.5)]] if ndom == 2 else [])
    nin = r.randint(1, 3)
    nst = r.randint(1, 6)
    sigs = []
    for i in range(nin):
        sigs.append({"w": r.randint(1, 4) if r.random() < 0.8 else r.randint(5, 6), "s": int(r.random() < 0.25), "reset": 0, "role": "in"})
    for i in range(nst):
        w = r.randint(1, 6)
        s = int(r.random() < 0.25)
        lo, hi = (-(1 << (w - 1)), (1 << (w - 1)) - 1) if s else (0, (1 << w) - 1)
        role = r.choice(["comb", "sync0", "sync0"] + (["sync1"] if ndom == 2 else []))
        sigs.append({"w": w, "s": s, "reset": r.randint(lo, hi) if r.random() < 0.5 else 0, "role": role,
                     "reset_less": int(role != "comb" and r.random() < 0.15)})
    idx = list(range(len(sigs)))

    def readable(upto):
        # comb signal k may read inputs, registers and comb signals with a smaller index (no loops)
        return [i for i in idx if sigs[i]["role"] != "comb" or i < upto]

    def leaf(upto, unsigned=False, sig_only=False):
        c = [i for i in readable(upto) if not (unsigned and sigs[i]["s"])]
        if c and (sig_only or r.random() < 0.8):
            return ["s", r.choice(c)]
        if sig_only:
            return None
        return ["c", r.randint(0, 7)]

    def uleaf(upto):
        k = r.random()
        us = [i for i in readable(upto) if not sigs[i]["s"]]
        if k < 0.15 and us:
            i = r.choice(us)
            lo = r.randrange(sigs[i]["w"])
            hi = r.randint(lo + 1, sigs[i]["w"])
            return ["sl", ["s", i], lo, hi]
        if k < 0.27:
            return ["cat", [leaf(upto) for _ in range(r.randint(2, 3))]]
        if k < 0.32:
            return ["rep", leaf(upto), r.randint(1, 3)]
        return leaf(upto)

    def cmp_(upto):
        a = leaf(upto, sig_only=True) or ["c", 1]
        return ["b", r.choice(_REL), a, leaf(upto)] if r.random() < 0.5 else ["b", r.choice(_REL), leaf(upto), a]

    def cond(upto, d=1):
        k = r.random()
        us1 = [i for i in readable(upto) if not sigs[i]["s"]]
        if k < 0.35 and us1:
            i = r.choice(us1)
            if sigs[i]["w"] == 1 or r.random() < 0.3:
                return ["s", i]
            b = r.randrange(sigs[i]["w"])
            return ["sl", ["s", i], b, b + 1]
        if k < 0.85 or d == 0:
            return cmp_(upto)
        return ["b", r.choice(["&", "|", "^"]), cond(upto, 0), cond(upto, 0)]

    def arith(upto, d):
        k = r.random()
        if d == 0 or k < 0.3:
            return uleaf(upto)
        if k < 0.7:
            return ["b", r.choice(_ARITH), arith(upto, d - 1), arith(upto, d - 1)]
        if k < 0.76:
            return ["u", r.choice(["~", "-"]), arith(upto, d - 1)]
        if k < 0.84:
            return ["b", "<<<", leaf(upto), ["c", r.randint(0, 3)]]
        if k < 0.92:
            amt = leaf(upto, unsigned=True)
            if amt[0] == "s" and sigs[amt[1]]["w"] > 3:
                amt = ["c", r.randint(0, 3)]
            return ["b", ">>>", leaf(upto, sig_only=True) or ["c", 5], amt]
        return ["m", cond(upto), arith(upto, d - 1), arith(upto, d - 1)]

    class Invalid(Exception):
        pass

    def typ(e):
        """(signed-typed, leaf-like) of a generated expression; raises Invalid where an unsigned-typed operator node
        would meet a signed operand: the back end then wraps it in $signed({1'd0, ...}), which makes it a self-determined
        operand that loses the bits FHDL keeps (layer 1: intermediate overflow / negative intermediates)"""
        k = e[0]
        if k == "s":
            return sigs[e[1]]["s"], True
        if k in ("c", "sl", "cat", "rep"):
            return 0, True
        if k == "arr":
            return max(typ(x)[0] for x in e[1]), True
        if k == "u":
            sg, lf = typ(e[2])
            if e[1] == "-":
                if not sg and not lf:
                    raise Invalid()
                return 1, False
            return sg, False
        if k == "b":
            if e[1] in _REL:
                return 0, False
            a, b = typ(e[2]), typ(e[3])
            if e[1] in ("<<<", ">>>"):
                return a[0], False
            if a[0] != b[0] and not (b if a[0] else a)[1]:
                raise Invalid()
            return max(a[0], b[0]), False
        if k == "m":
            typ(e[1])
            a, b = typ(e[2]), typ(e[3])
            if a[0] != b[0] and not (b if a[0] else a)[1]:
                raise Invalid()
            return max(a[0], b[0]), False
        raise ValueError(e)

    def rhs(upto):
        k = r.random()
        if k < 0.6:
            for _ in range(30):
                e = arith(upto, 2)
                try:
                    typ(e)
                    return e
                except Invalid:
                    continue
            return uleaf(upto)
        if k < 0.75:
            return cond(upto)
        if k < 0.87:
            sg = r.random() < 0.2
            # (an Array over signed AND unsigned elements is a finding of its own: only on request)
            ch = [i for i in readable(upto) if bool(sigs[i]["s"]) == sg or mixed_arr]
            key = leaf(upto, unsigned=True, sig_only=True)
            if len(ch) >= 2 and key:
                return ["arr", [["s", i] for i in r.sample(ch, r.randint(2, min(4, len(ch))))], key]
        return uleaf(upto)

    def lhs(targets, cat_ok=True):
        k = r.random()
        i = r.choice(targets)
        if k < 0.55:
            return ["s", i]
        if k < 0.75:
            lo = r.randrange(sigs[i]["w"])
            return ["sl", i, lo, r.randint(lo + 1, sigs[i]["w"])]
        if k < 0.9 and len(targets) >= 2 and cat_ok:
            parts = []
            for j in r.sample(targets, r.randint(2, min(3, len(targets)))):
                if r.random() < 0.6:
                    parts.append(["s", j])
                else:
                    lo = r.randrange(sigs[j]["w"])
                    parts.append(["sl", j, lo, r.randint(lo + 1, sigs[j]["w"])])
            return ["cat", parts]
        if len(targets) >= 2:
            return ["arr", r.sample(targets, r.randint(2, min(3, len(targets)))), None]
        return ["s", i]

    def stmts(targets, upto, depth, n, cat_ok=True):
        # every expression below reads comb signals with an index < upto only; every target has an index >= upto
        out = []
        for _ in range(n):
            k = r.random()
            l = lhs(targets, cat_ok)
            if l[0] == "arr":
                key = leaf(upto, unsigned=True, sig_only=True)
                if key is None:
                    l = ["s", l[1][0]]
                else:
                    l[2] = key
            if depth == 0 or k < 0.45:
                out.append(["=", l, rhs(upto)])
            elif k < 0.8:
                out.append(["if", cond(upto), stmts(targets, upto, depth - 1, r.randint(1, 2), cat_ok),
                            stmts(targets, upto, depth - 1, r.randint(0, 2), cat_ok)])
            else:
                sel = leaf(upto, unsigned=True, sig_only=True)
                if sel is None:
                    out.append(["=", l, rhs(upto)])
                    continue
                top = (1 << sigs[sel[1]]["w"]) - 1
                labels = sorted(r.sample(range(0, top + 1), min(top + 1, r.randint(1, 3))))
                r.shuffle(labels)
                out.append(["case", sel, [[k2, stmts(targets, upto, depth - 1, r.randint(1, 2), cat_ok)] for k2 in labels],
                            stmts(targets, upto, depth - 1, 1, cat_ok) if r.random() < 0.6 else None])
        return out

    comb_t = [i for i in idx if sigs[i]["role"] == "comb"]
    spec = {"sig": sigs, "dom": doms, "comb": [], "sync": [[], []]}
    for _ in range(r.randint(1, 2 + len(comb_t)) if comb_t else 0):
        k = r.choice(comb_t)                     # the lowest target of this statement tree
        spec["comb"] += stmts([i for i in comb_t if i >= k], k, 2, 1, comb_cat)
    for i in comb_t:                             # every comb signal has a driver (else it would be an input)
        if not _assigns(spec["comb"], i):
            spec["comb"].append(["=", ["s", i], rhs(i)])
    for d in range(ndom):
        tg = [i for i in idx if sigs[i]["role"] == "sync%d" % d]
        if tg:
            spec["sync"][d] = stmts(tg, len(sigs), 2, r.randint(1, 2 + len(tg)))
            for i in tg:
                if not _assigns(spec["sync"][d], i):
                    spec["sync"][d].append(["=", ["s", i], rhs(len(sigs))])
    return spec


def _assigns(stmts, i):
    for s in stmts:
        if s[0] == "=":
            l = s[1]
            used = [l[1]] if l[0] in ("s", "sl") else ([p[1] for p in l[1]] if l[0] in ("cat", "slcat") else list(l[1]))
            if i in used:
                return True
        elif s[0] == "if":
            if _assigns(s[2], i) or _assigns(s[3], i):
                return True
        elif s[0] == "case":
            if any(_assigns(b, i) for _, b in s[2]) or (s[3] and _assigns(s[3], i)):
                return True
    return False


def fragment_builder(spec):
    """spec -> build() for build_trace"""
    def build():
        from migen import Module, Signal, If, Case, Array, Cat, Replicate, ClockDomain
        from migen.fhdl.structure import Constant, _Operator, _Slice
        m = Module()
        sg = []
        for i, d in enumerate(spec["sig"]):
            kw = {"reset_less": True} if d.get("reset_less") else {}
            sg.append(Signal((d["w"], bool(d["s"])), name_override="%s%d" % ("i" if d["role"] == "in" else "x", i),
                             reset=d["reset"], **kw))
        cds = []
        for name, has_rst in spec["dom"]:
            cd = ClockDomain(name, reset_less=not has_rst)
            m.clock_domains += cd
            cds.append(cd)

        def ex(e):
            k = e[0]
            if k == "s":
                return sg[e[1]]
            if k == "c":
                return Constant(e[1])
            if k == "u":
                return _Operator(e[1], [ex(e[2])])
            if k == "b":
                return _Operator(e[1], [ex(e[2]), ex(e[3])])
            if k == "m":
                return _Operator("m", [ex(e[1]), ex(e[2]), ex(e[3])])
            if k == "sl":
                return _Slice(ex(e[1]), e[2], e[3])
            if k == "cat":
                return Cat(*[ex(x) for x in e[1]])
            if k == "rep":
                return Replicate(ex(e[1]), e[2])
            if k == "arr":
                return Array([ex(x) for x in e[1]])[ex(e[2])]
            raise ValueError(e)

        def lh(l):
            k = l[0]
            if k == "s":
                return sg[l[1]]
            if k == "sl":
                return _Slice(sg[l[1]], l[2], l[3])
            if k == "cat":
                return Cat(*[lh(x) for x in l[1]])
            if k == "slcat":
                return _Slice(Cat(*[lh(x) for x in l[1]]), l[2], l[3])
            if k == "arr":
                return Array([sg[i] for i in l[1]])[ex(l[2])]
            raise ValueError(l)

        def st(s):
            if s[0] == "=":
                return lh(s[1]).eq(ex(s[2]))
            if s[0] == "if":
                x = If(ex(s[1]), *[st(y) for y in s[2]])
                return x.Else(*[st(y) for y in s[3]]) if s[3] else x
            if s[0] == "case":
                cases = {k: [st(y) for y in b] for k, b in s[2]}
                if s[3]:
                    cases["default"] = [st(y) for y in s[3]]
                return Case(ex(s[1]), cases)
            raise ValueError(s)

        for s in spec["comb"]:
            m.comb += st(s)
        for d, body in enumerate(spec["sync"][:len(cds)]):
            for s in body:
                getattr(m.sync, cds[d].name).__iadd__(st(s))
        periods = {"sys": 10, "b": 14}
        return m, {cd.name: periods[cd.name] for cd in cds}
    return build


class _Timeout(Exception):
    pass


def _alarm(signum, frame):
    raise _Timeout()


def with_timeout(fn, seconds):
    """run fn() under SIGALRM: a design whose combinational logic oscillates makes the reference simulator spin"""
    import signal
    old = signal.signal(signal.SIGALRM, _alarm)
    signal.alarm(seconds)
    try:
        return fn()
    finally:
        signal.alarm(0)
        signal.signal(signal.SIGALRM, old)


def record_fragment(job):
    seed, cycles, regular_comb, comb_cat = job[:4]
    mixed_arr = bool(job[4]) if len(job) > 4 else False
    spec = gen_fragment(seed, comb_cat, mixed_arr)
    try:
        tr = with_timeout(lambda: build_trace(fragment_builder(spec), seed, cycles, regular_comb, label="fragment %s" % seed), 60)
    except Unsupported as ex:
        return {"skip": str(ex), "spec": spec}
    except _Timeout:
        return {"skip": "the reference simulator did not finish within 60 s", "spec": spec}
    tr["spec"] = spec
    tr["seed"] = seed
    tr["comb_cat"] = comb_cat
    tr["mixed_arr"] = mixed_arr
    if _has_mixed_array(spec, spec["sig"]):
        tr["memfeat"] = "mixed-sign-array"
    return tr


LOWER_LHS_WIDTHS = [(a, b) for a in (1, 2, 3) for b in (1, 2, 3)] + [(a, b, c) for a in (1, 2) for b in (1, 2) for c in (1, 2)]


def lower_lhs_spec(widths, mode):
    """Cat(x0, x1, ..)[lo:hi].eq(i0[:hi - lo]) in sync, one register group per slice.
    mode "inside": the slices that lie inside ONE element (_ComplexSliceLowerer turns them into a slice of that element); every
    register also counts (x.eq(x + 1) before the slice assignment), so the bits outside the slice keep moving.
    mode "crossing": the slices that cross an element boundary (slice proxy driving the whole Cat); nothing else drives the
    registers.  mode "crossing-driven": crossing slices AND the counters (the proxy then is a second driver: a finding)."""
    total = sum(widths)
    bounds, acc = [], 0
    for w in widths:
        bounds.append((acc, acc + w))
        acc += w
    sigs = [{"w": 4, "s": 0, "reset": 0, "role": "in"}]
    sync = []
    for lo in range(total):
        for hi in range(lo + 1, min(total, lo + 4) + 1):
            ins = any(a <= lo and hi <= b for a, b in bounds)
            if ins != (mode == "inside"):
                continue
            grp = []
            for w in widths:
                sigs.append({"w": w, "s": 0, "reset": 0, "role": "sync0", "reset_less": 0})
                grp.append(len(sigs) - 1)
            if mode != "crossing":
                for j in grp:
                    sync.append(["=", ["s", j], ["b", "+", ["s", j], ["c", 1]]])
            sync.append(["=", ["slcat", [["s", j] for j in grp], lo, hi], ["sl", ["s", 0], 0, hi - lo]])
    return {"sig": sigs, "dom": [["sys", 0]], "comb": [], "sync": [sync, []]}


def record_lower_lhs(job):
    widths, mode, seed, cycles = job
    spec = lower_lhs_spec(tuple(widths), mode)
    label = "slice of Cat on the left, elements %s, %s" % ("/".join(map(str, widths)), mode)
    try:
        tr = with_timeout(lambda: build_trace(fragment_builder(spec), "%s/lowerlhs" % seed, cycles, True, label=label), 120)
    except Unsupported as ex:
        return {"skip": str(ex), "spec": spec}
    except _Timeout:
        return {"skip": "the reference simulator did not finish within 120 s", "spec": spec}
    tr["spec"] = spec
    tr["seed"] = seed
    tr["comb_cat"] = True
    tr["mixed_arr"] = False
    tr["sigfamily"] = "lowerlhs-" + mode
    return tr


def record_mixed_array_probe(seed):
    """one fixed design: t = Array([u, s])[k] with u unsigned and s signed of the same width, t wider"""
    def build():
        from migen import Module, Signal, Array, ClockDomain
        m = Module()
        m.clock_domains += ClockDomain("sys", reset_less=True)
        u = Signal(3, name_override="u")
        s = Signal((3, True), name_override="s")
        k = Signal(1, name_override="k")
        t = Signal(6, name_override="t")
        q = Signal(6, name_override="q")
        m.comb += t.eq(Array([u, s])[k])
        m.sync += q.eq(t)
        return m, {"sys": 10}
    tr = build_trace(build, "%s/arrprobe" % seed, 40, True, label="mixed-signedness Array probe")
    tr["memfeat"] = "mixed-sign-array"
    tr["seed"] = seed
    tr["spec"] = {"dom": [["sys", 0]]}
    tr["comb_cat"] = tr["mixed_arr"] = False
    return tr


def _has_mixed_array(x, sigs):
    if isinstance(x, list):
        if len(x) == 3 and x[0] == "arr" and isinstance(x[1], list) and x[1] and isinstance(x[1][0], list):
            sg = {sigs[c[1]]["s"] for c in x[1] if c[0] == "s"}
            if len(sg) > 1:
                return True
        return any(_has_mixed_array(y, sigs) for y in x)
    if isinstance(x, dict):
        return any(_has_mixed_array(y, sigs) for y in x.values())
    return False


# ------------------------------------------------------------------------------------------ layer 3: memories
def gen_memory(seed):
    """a design around one Memory as plain data: every port mode / granularity / init the template of
    litex/gen/fhdl/memory.py distinguishes.  Depths are powers of two (an address beyond the depth is undefined in
    Verilog and clamped by the simulator)."""
    r = random.Random("%s/mem" % seed)
    w = r.choice([4, 4, 6, 8])
    d = r.choice([2, 4, 8])
    k = r.random()
    init = None if k < 0.25 else [r.randrange(1 << w) for _ in range(d if k < 0.7 else r.randint(1, d))]
    two_clocks = r.random() < 0.2
    ports = []
    for p in range(r.randint(1, 2)):
        wr = r.random() < (0.8 if p == 0 else 0.5)
        asy = r.random() < 0.2
        grans = [0] + [g for g in (w // 2, w // 4) if g >= 1 and w % g == 0]
        ports.append({"wr": int(wr), "async": int(asy), "re": int(not asy and r.random() < 0.35),
                      "gran": r.choice(grans) if wr else 0,
                      # (a read-only NO_CHANGE port makes the back end raise TypeError: not generated, noted in the evidence)
                      "mode": r.choice(["wf", "rf", "nc"] if wr else ["wf", "rf"]),
                      "cd": 1 if (two_clocks and p == 1) else 0})
    return {"w": w, "d": d, "init": init, "ports": ports, "two_clocks": int(two_clocks),
            "outreg": int(r.random() < 0.3)}


def memory_builder(spec):
    def build():
        from migen import Module, Signal, ClockDomain, Memory
        from migen.fhdl.specials import WRITE_FIRST, READ_FIRST, NO_CHANGE
        m = Module()
        cds = [ClockDomain("sys", reset_less=True)]
        if spec["two_clocks"]:
            cds.append(ClockDomain("b", reset_less=True))
        for cd in cds:
            m.clock_domains += cd
        mem = Memory(spec["w"], spec["d"], init=spec["init"], name="mem")
        m.specials += mem
        modes = {"wf": WRITE_FIRST, "rf": READ_FIRST, "nc": NO_CHANGE}
        for i, p in enumerate(spec["ports"]):
            port = mem.get_port(write_capable=bool(p["wr"]), async_read=bool(p["async"]), has_re=bool(p["re"]),
                                we_granularity=p["gran"], mode=modes[p["mode"]], clock_domain=cds[p["cd"]].name)
            m.specials += port
            if spec["outreg"] and i == 0:
                q = Signal(spec["w"], name_override="q")
                m.sync += q.eq(port.dat_r)
        return m, {cd.name: {"sys": 10, "b": 14}[cd.name] for cd in cds}
    return build


def record_memory(job):
    seed, cycles = job
    spec = gen_memory(seed)
    try:
        tr = with_timeout(lambda: build_trace(memory_builder(spec), seed, cycles, True, label="memory %s" % seed), 60)
    except Unsupported as ex:
        return {"skip": str(ex), "spec": spec}
    tr["spec"] = spec
    tr["seed"] = seed
    return tr


# ------------------------------------------------------------------------------------------ layer 3: corpus of real cores
def _sys(m, rst=True):
    from migen import ClockDomain
    cd = ClockDomain("sys", reset_less=not rst)
    m.clock_domains += cd
    return m


def corpus():
    """name -> build(): real LiteX blocks at small parameters (every signal at most 30 bits wide).  All signals nothing
    drives become inputs and get random stimuli: C01 compares two semantics of the same netlist, no protocol needed."""
    from migen import Module

    def top(make, rst=True):
        def build():
            m = Module()
            _sys(m, rst)
            m.submodules.dut = make()
            return m, {"sys": 10}
        return build

    def stream_buffer():
        from litex.soc.interconnect import stream
        return stream.Buffer([("data", 8)])

    def stream_buffer_pr():
        from litex.soc.interconnect import stream
        return stream.Buffer([("data", 6)], pipe_valid=True, pipe_ready=True)

    def conv_up():
        from litex.soc.interconnect import stream
        return stream.Converter(8, 16)

    def conv_down():
        from litex.soc.interconnect import stream
        return stream.Converter(16, 8, reverse=True)

    def gearbox():
        from litex.soc.interconnect import stream
        return stream.Gearbox(8, 6)

    def syncfifo():
        from litex.soc.interconnect import stream
        return stream.SyncFIFO([("data", 8)], 4, buffered=True)

    def syncfifo_nb():
        from litex.soc.interconnect import stream
        return stream.SyncFIFO([("data", 5)], 2, buffered=False)

    def wb_down():
        from litex.soc.interconnect import wishbone
        return wishbone.DownConverter(wishbone.Interface(data_width=16, adr_width=8), wishbone.Interface(data_width=8, adr_width=9))

    def wb_sram():
        from litex.soc.interconnect import wishbone
        return wishbone.SRAM(32, init=[0x1234, 0xbeef, 0x55aa], bus=wishbone.Interface(data_width=16, adr_width=8))

    def csrbank():
        from litex.soc.interconnect import csr_bus
        from litex.soc.interconnect.csr import CSRStorage, CSRStatus, CSR
        csrs = [CSRStorage(8, name="a", reset=0x5a), CSRStatus(12, name="b"), CSR(4, name="c"), CSRStorage(20, name="d")]
        return csr_bus.CSRBank(csrs, address=0, bus=csr_bus.Interface(data_width=8, address_width=14))

    def eventmanager():
        from litex.soc.interconnect.csr_eventmanager import EventManager, EventSourcePulse, EventSourceProcess, EventSourceLevel
        ev = EventManager()
        ev.p = EventSourcePulse(name="p")
        ev.f = EventSourceProcess(name="f", edge="falling")
        ev.r = EventSourceProcess(name="r", edge="rising")
        ev.l = EventSourceLevel(name="l")
        ev.finalize()
        return ev

    def waittimer():
        from litex.gen.genlib.misc import WaitTimer
        return WaitTimer(11)

    def enc8b10b():
        from litex.soc.cores.code_8b10b import Encoder
        return Encoder(nwords=1)

    def dec8b10b():
        from litex.soc.cores.code_8b10b import Decoder
        return Decoder()

    def ecc_enc():
        from litex.soc.cores.ecc import ECCEncoder
        return ECCEncoder(4)

    def ecc_dec():
        from litex.soc.cores.ecc import ECCDecoder
        return ECCDecoder(4)

    def asyncfifo():
        def build():
            from migen import ClockDomain
            from litex.soc.interconnect import stream
            m = Module()
            m.clock_domains += ClockDomain("sys")
            m.clock_domains += ClockDomain("b")
            f = stream.AsyncFIFO([("data", 4)], 4)
            from migen.fhdl.decorators import ClockDomainsRenamer
            m.submodules.dut = ClockDomainsRenamer({"write": "sys", "read": "b"})(f)
            return m, {"sys": 10, "b": 14}
        return build

    return {
        "stream.Buffer": top(stream_buffer), "stream.Buffer(pipe_ready)": top(stream_buffer_pr),
        "stream.Converter(8,16)": top(conv_up), "stream.Converter(16,8,reverse)": top(conv_down),
        "stream.Gearbox(8,6)": top(gearbox), "stream.SyncFIFO(4,buffered)": top(syncfifo), "stream.SyncFIFO(2)": top(syncfifo_nb),
        "wishbone.DownConverter(16,8)": top(wb_down), "wishbone.SRAM(16bit)": top(wb_sram),
        "csr_bus.CSRBank": top(csrbank), "EventManager": top(eventmanager), "WaitTimer(11)": top(waittimer),
        "code_8b10b.Encoder": top(enc8b10b), "code_8b10b.Decoder": top(dec8b10b),
        "ECCEncoder(4)": top(ecc_enc, rst=False), "ECCDecoder(4)": top(ecc_dec, rst=False),
        "stream.AsyncFIFO(4)": asyncfifo(),
    }


QUICK_CORPUS = ["stream.Buffer", "stream.Converter(8,16)", "stream.SyncFIFO(4,buffered)", "wishbone.DownConverter(16,8)",
                "csr_bus.CSRBank", "EventManager", "WaitTimer(11)", "code_8b10b.Encoder", "ECCDecoder(4)", "wishbone.SRAM(16bit)"]


def record_memory_reset_probe(seed):
    """one fixed design - a write-first single-port memory in a clock domain WITH reset - driven with reset pulses: the
    reference simulator restores the memory image and the read address on reset, the Verilog template does not"""
    def build():
        from migen import Module, ClockDomain, Memory
        m = Module()
        m.clock_domains += ClockDomain("sys")
        mem = Memory(4, 4, init=[1, 2, 3, 4], name="mem")
        port = mem.get_port(write_capable=True)
        m.specials += mem, port
        return m, {"sys": 10}
    tr = build_trace(build, "%s/probe" % seed, 40, True, label="memory + reset probe", reset_memories=True)
    tr["memfeat"] = "reset-of-memory-domain"
    tr["seed"] = seed
    return tr


def record_corpus(job):
    name, seed, cycles, regular_comb = job
    try:
        tr = with_timeout(lambda: build_trace(corpus()[name], "%s/%s" % (seed, name), cycles, regular_comb,
                                              label="%s" % name), 300)
    except Unsupported as ex:
        return {"skip": str(ex), "label": name}
    tr["name"] = name
    tr["seed"] = seed
    return tr
