"""DUT factory for the CSR-bank family (C12): real csr.CSR / CSRStorage / CSRStatus objects collected by
AutoCSR, placed by _sort_gathered_items, mapped by csr_bus.CSRBankArray (one CSRBank per object) and
joined to one master by csr_bus.InterconnectShared / Interconnect.  All of that is repository code; the
harness only wires the master's adr/we/re/dat_w and the device-side inputs to stepper inputs and exposes
storage/status/re/we/field signals as stepper outputs.

Python spec of a DUT
  w          bus word width (csr_bus.Interface(data_width=w))
  ordering   "big" | "little"
  paging     CSRBankArray(paging=...)  (a page has paging//4 word addresses)
  npages     number of pages of the master's address space (power of two)
  ic         "shared" (InterconnectShared) | "plain" (Interconnect)
  banks      [{"address": page, "regs": [reg, ...]}, ...]
  reg        {"kind": csr|storage|storage_atomic|storage_dev|storage_atomic_dev|status|status_rw,
              "size", "reset", "n": fixed location or None,
              "fields": [{"size", "offset": int or None, "reset", "pulse": 0|1}, ...],
              "dvs": device-side value alphabet ([] = no device-side input)}
  dats       data alphabet of bus writes to mapped words;  hdat: data of writes to unmapped addresses

iv = <<op, adr, dat, dv_1 .. dv_n>>   op: 0 idle, 1 write, 2 read;  dv_r: device-side input of register r
     (status: value of `status` / packed field inputs; csr: `w`; storage_*dev: 0 = we low, 1+x = we with dat_w = x)
o  = <<master dat_r, bank_1 dat_r .. bank_nb dat_r>> \\o per register <<v, re, we, f, r2>>
     v: storage / status / CSR.r;  f: field signals packed in declaration order;  r2: CSRStatus.r (status_rw)
"""
from migen import Module, Signal, Cat, Constant, Memory, If, Mux
from migen.fhdl.bitcontainer import log2_int

from litex.soc.interconnect import csr_bus
from litex.soc.interconnect.csr import CSR, CSRStorage, CSRStatus, CSRField, AutoCSR

STORAGE_KINDS = ("storage", "storage_atomic", "storage_dev", "storage_atomic_dev")


class _Obj(Module, AutoCSR):
    """one peripheral: its CSR attributes are gathered by AutoCSR.get_csrs(sort=True)"""


def _fields(r, idx):
    return [CSRField("f%d_%d" % (idx, j), size=f["size"], offset=f.get("offset"), reset=f.get("reset", 0),
                     pulse=bool(f.get("pulse", 0))) for j, f in enumerate(r.get("fields", []))]


def _make_reg(r, idx):
    kind = r["kind"]
    name = "r%d" % idx
    n = r.get("n")
    if kind == "csr":
        return CSR(r["size"], name=name, n=n)
    if kind in STORAGE_KINDS:
        return CSRStorage(r["size"], reset=r.get("reset", 0), fields=_fields(r, idx), name=name, n=n,
                          atomic_write="atomic" in kind, write_from_dev=kind.endswith("dev"))
    if kind in ("status", "status_rw"):
        return CSRStatus(r["size"], reset=r.get("reset", 0), fields=_fields(r, idx), name=name, n=n,
                         read_only=(kind == "status"))
    raise ValueError(kind)


def _forget_names():
    """migen's tracer keeps every object that ever created a Signal in a global per-class list and searches
    it linearly for each new Signal (naming indices only): thousands of constructions in one process become
    quadratic and are never freed.  Start every construction with empty naming tables."""
    import migen.fhdl.tracer as tr
    tr.classname_to_objs.clear()
    tr.name_to_idx.clear()


def build(spec):
    """real construction: objects -> CSRBankArray -> interconnect.  Returns (top, masters, array, regs)
    where regs = [(bank index, reg spec, real object)] in creation order.  Raises whatever the
    repository code raises (e.g. ValueError on a location conflict)."""
    _forget_names()
    w = spec["w"]
    pb = log2_int(spec["paging"] // 4)
    aw = pb + log2_int(spec["npages"])
    top = Module()
    src = Module()
    regs = []
    addr = {}
    for bi, b in enumerate(spec["banks"]):
        ob = _Obj()
        sub = _Obj() if b.get("nest") is not None else None     # registers from position `nest` on live in a child
        for k, r in enumerate(b["regs"]):
            idx = len(regs) + 1
            reg = _make_reg(r, idx)
            setattr(sub if sub is not None and k >= b["nest"] else ob, "r%d" % idx, reg)
            regs.append((bi, r, reg))
        if sub is not None:
            ob.sub = sub
        setattr(src, "b%d" % bi, ob)
        addr["b%d" % bi] = b["address"]
    array = csr_bus.CSRBankArray(src, lambda name, mem: addr[name], data_width=w, address_width=aw,
                                 paging=spec["paging"], ordering=spec["ordering"])
    top.submodules += array
    ic = spec.get("ic", "shared")
    masters = [csr_bus.Interface(data_width=w, address_width=aw) for _ in range(2 if ic == "shared2" else 1)]
    if ic in ("shared", "shared2"):
        top.submodules += csr_bus.InterconnectShared(masters, array.get_buses())
    else:
        top.submodules += csr_bus.Interconnect(masters[0], array.get_buses())
    return top, masters, array, regs


def layout_of(array, regs):
    """the address map the real code produced: per bank (in bank order b0, b1, ...) the list over word
    addresses of [register index (0 = reserved filler), position inside that register in address order]"""
    owner = {}
    for idx, (bi, r, reg) in enumerate(regs):
        scs = [reg] if isinstance(reg, CSR) else reg.get_simple_csrs()
        for k, sc in enumerate(scs):
            owner[id(sc)] = [idx + 1, k]
    out = []
    for name, csrs, mapaddr, rmap in array.banks:
        out.append([owner.get(id(sc), [0, 0]) for sc in rmap.simple_csrs])
    return out


def make(spec):
    top, masters, array, regs = build(spec)
    w = spec["w"]
    op, adr, dat = Signal(2), Signal(len(masters[0].adr)), Signal(w)
    if len(masters) == 1:
        master = masters[0]
        top.comb += [master.adr.eq(adr), master.we.eq(op == 1), master.re.eq(op == 2), master.dat_w.eq(dat)]
        datr = master.dat_r
    else:
        # two masters on InterconnectShared: operations on even addresses are issued by master 0, on odd
        # addresses by master 1 (the other one idles with all outputs low); the read data is taken from the
        # master that issued the previous cycle's operation
        for j, m in enumerate(masters):
            mine = adr[0] == j
            top.comb += If(mine, m.adr.eq(adr), m.we.eq(op == 1), m.re.eq(op == 2), m.dat_w.eq(dat))
        pm = Signal(name="harness_prev_master")
        top.sync += pm.eq(adr[0])
        datr = Mux(pm, masters[1].dat_r, masters[0].dat_r)
    ins = [op, adr, dat]
    outs = [datr] + [rmap.bus.dat_r for name, csrs, mapaddr, rmap in array.banks]
    zero = Constant(0)
    for idx, (bi, r, reg) in enumerate(regs):
        kind = r["kind"]
        flds = r.get("fields", [])
        fsig = [getattr(reg.fields, "f%d_%d" % (idx + 1, j)) for j in range(len(flds))] if flds else []
        if kind == "csr":
            dv = Signal(r["size"], name="dv%d" % (idx + 1))
            top.comb += reg.w.eq(dv)
            outs += [reg.r, reg.re, reg.we, zero, zero]
        elif kind in STORAGE_KINDS:
            dv = Signal(r_size(r) + 1, name="dv%d" % (idx + 1))
            if kind.endswith("dev"):
                top.comb += [reg.we.eq(dv != 0), reg.dat_w.eq(dv - 1)]
            outs += [reg.storage, reg.re, zero, Cat(*fsig) if fsig else zero, zero]
        else:
            dv = Signal(max(1, sum(f["size"] for f in flds) if flds else r["size"]), name="dv%d" % (idx + 1))
            if r.get("dvs"):
                if flds:
                    lo = 0
                    for f, s in zip(flds, fsig):
                        top.comb += s.eq(dv[lo:lo + f["size"]])
                        lo += f["size"]
                else:
                    top.comb += reg.status.eq(dv)
            outs += [reg.status, reg.re, reg.we, zero, reg.r if kind == "status_rw" else zero]
        ins.append(dv)
    return top, ins, outs


def r_size(r):
    """documented size of a register: explicit, or end of the last field"""
    flds = r.get("fields", [])
    if not flds:
        return r["size"]
    off = 0
    for f in flds:
        if f.get("offset") is not None:
            off = f["offset"]
        off += f["size"]
    return off


def tla_cfg(spec):
    """configuration record handed to the TLA+ contract.  `map` is what the real code built (judged by
    clause AddressesDisjoint against the documented placement rule); everything else is the declaration."""
    rec = {"w": spec["w"], "little": int(spec["ordering"] == "little"),
           "pb": log2_int(spec["paging"] // 4), "npages": spec["npages"],
           "bankadr": [b["address"] for b in spec["banks"]],
           "dats": list(spec["dats"]), "hdat": spec.get("hdat", (1 << min(spec["w"], 30)) - 1),
           "free": int(spec.get("free", 0))}
    regs = []
    for bi, b in enumerate(spec["banks"]):
        for r in b["regs"]:
            regs.append({"bank": bi + 1, "kind": r["kind"], "size": r["size"], "reset": r.get("reset", 0),
                         "n": -1 if r.get("n") is None else r["n"],
                         "fields": [{"size": f["size"], "offset": -1 if f.get("offset") is None else f["offset"],
                                     "reset": f.get("reset", 0), "pulse": int(f.get("pulse", 0))}
                                    for f in r.get("fields", [])],
                         "dvs": list(r.get("dvs", []))})
    rec["regs"] = regs
    try:
        top, masters, array, robjs = build(spec)
        rec["built"] = 1
        rec["error"] = ""
        rec["map"] = layout_of(array, robjs)
        top, masters, array, robjs = build(spec)          # reproducibility: a second, independent construction
        rec["map2"] = layout_of(array, robjs)
    except Exception as ex:      # noqa: the contract decides whether a rejection is legitimate
        rec["built"] = 0
        rec["error"] = type(ex).__name__
        rec["map"] = rec["map2"] = [[] for _ in spec["banks"]]
    return rec


# ---------------------------------------------------------------------------------------- configurations
def R(kind, size, reset=0, n=None, fields=(), dvs=()):
    return {"kind": kind, "size": size, "reset": reset, "n": n, "fields": [dict(f) for f in fields],
            "dvs": list(dvs)}


def F(size, offset=None, reset=0, pulse=0):
    return {"size": size, "offset": offset, "reset": reset, "pulse": pulse}


def S(w, ordering, banks, paging=16, npages=4, ic="shared", dats=None, tag=""):
    spec = {"w": w, "ordering": ordering, "paging": paging, "npages": npages, "ic": ic,
            "banks": [dict({"address": b[0], "regs": list(b[1])}, **({"nest": b[2]} if len(b) > 2 else {}))
                      for b in banks],
            "dats": list(range(1 << w)) if dats is None else list(dats), "hdat": (1 << min(w, 30)) - 1}
    # tags used by known-finding signatures
    spec["atomic_multiword"] = int(any("atomic" in r["kind"] and r_size(r) > w for b in banks for r in b[1]))
    if tag:
        spec["tag"] = tag
    return spec


def configs(tier):
    L = []

    def add(spec):
        L.append((spec, tla_cfg(spec)))
    D4 = [0, 6, 9, 15]
    for o in ("big", "little"):
        # one wide storage, last word narrower than the bus (5 = 2+2+1), with a reset value
        add(S(2, o, [(1, [R("storage", 5, reset=0b10110)])]))
        # atomic write, 2 and 3 words
        add(S(2, o, [(0, [R("storage_atomic", 3, reset=0b101), R("csr", 2, dvs=[1, 2])])]))
        # device-writable storage next to a driven status
        add(S(2, o, [(2, [R("storage_dev", 3, reset=1, dvs=[0, 3, 6]), R("status", 3, dvs=[0, 5, 2])])]))
        # fields: offsets with a gap, reset composition, a pulse bit
        add(S(2, o, [(1, [R("storage", 5, fields=[F(2, reset=2), F(1, pulse=1), F(1, offset=4, reset=1)]),
                          R("status", 3, fields=[F(1), F(1, offset=2)], dvs=[0, 1, 2, 3])])]))
        # two banks on one bus, fixed locations (a hole filled by a reserved CSR), a writable status
        add(S(2, o, [(1, [R("storage", 2, reset=1), R("status_rw", 3, dvs=[0, 6], n=0)], 1),
                     (3, [R("storage", 1, n=3), R("status", 2, reset=2)])],
              ic="shared2" if o == "big" else "plain"))
        # 4-bit words, 9-bit register (4+4+1)
        add(S(4, o, [(0, [R("storage", 9, reset=0x1a5)])], dats=D4, paging=16))
    if tier == "thorough":
        for o in ("big", "little"):
            add(S(2, o, [(1, [R("storage_atomic", 5, reset=0b01101)])]))
            add(S(2, o, [(3, [R("storage_atomic_dev", 4, dvs=[0, 7, 10])])]))
            add(S(2, o, [(0, [R("csr", 1, dvs=[0, 1]), R("csr", 2, dvs=[0, 2], n=4), R("storage", 3)])], paging=32,
                  npages=2))
            add(S(4, o, [(1, [R("storage_atomic", 6, reset=0x2b), R("status", 5, dvs=[0, 0x15, 0x0a])])], dats=D4))
            add(S(4, o, [(2, [R("storage_dev", 5, dvs=[0, 0x16]), R("status_rw", 5)])], dats=[0, 5, 10]))
            add(S(2, o, [(0, [R("storage", 2), R("storage", 3, reset=5)], 0), (1, [R("storage_atomic", 3)]),
                         (2, [R("status", 3, dvs=[0, 5])])], dats=[1, 2], ic="shared2"))
            add(S(2, o, [(1, [R("storage", 5, fields=[F(2, reset=1), F(1, pulse=1), F(2, reset=3)]),
                              R("status", 4, fields=[F(2, offset=1), F(1)], dvs=[0, 1, 2, 4, 7])])]))
            add(S(2, o, [(1, [R("storage", 1, n=1), R("storage", 2, n=5), R("storage", 3), R("status", 1, dvs=[0, 1])])],
                  paging=32, npages=2, dats=[0, 3, 1]))
    return L


def sweep_configs():
    """thorough tier: every kind x size in {1, w, w+1, 2w, 2w+1} x ordering x bus word in {2, 4} as a
    single-register bank (layout-dependent faults: last word narrower than the bus, ordering, atomic slices)"""
    L = []
    pat = 0b1011010110
    for w in (2, 4):
        for o in ("big", "little"):
            k = 0
            for kind in ("csr", "storage", "storage_atomic", "storage_dev", "storage_atomic_dev", "status",
                         "status_rw"):
                for size in sorted({1, w, w + 1, 2 * w, 2 * w + 1}):
                    if kind == "csr" and size > w:
                        continue
                    if "atomic" in kind and size <= w:
                        continue                       # same netlist as the non-atomic register
                    m = (1 << size) - 1
                    dats = None if w == 2 else ([6, 9] if "atomic" in kind else [0, 6, 9, 15])
                    if kind.endswith("dev"):
                        dvs = sorted({pat & m, (pat >> 1) & m})
                    elif kind in ("status", "status_rw", "csr"):
                        dvs = sorted({0, pat & m, (pat >> 3) & m})
                    else:
                        dvs = []
                    k += 1
                    spec = S(w, o, [(k % 4, [R(kind, size, reset=(pat >> 2) & m, dvs=dvs)])], dats=dats,
                             ic=("shared", "plain")[k % 2])
                    L.append((spec, tla_cfg(spec)))
    return L


# ---------------------------------------------------------------------------------------- construction cases
def case_spec(nwords, locs, ordering, w=2):
    """register list of one bank from a TLC-enumerated case (specs/csrbank/CsrBankCases.tla): the case fixes
    the number of bus words and the location of every register; the kind only rotates (all kinds are placed
    by the same code) and a raw CSR is always one word"""
    regs = []
    for i, (nw, n) in enumerate(zip(nwords, locs)):
        if nw == 1:
            kind = ("storage", "status", "csr")[(i + len(locs)) % 3]
        else:
            kind = ("storage", "status_rw", "storage_atomic", "status")[(i + len(locs)) % 4]
        regs.append(R(kind, 1 if nw == 1 else (nw - 1) * w + 1, n=None if n < 0 else n))
    spec = S(w, ordering, [(1, regs)], paging=64, npages=2)
    spec["free"] = 1          # no input alphabet needed: only the construction is judged
    return spec


# ---------------------------------------------------------------------------------------- long runs (T-mode)
def random_spec(rnd, w):
    """register set at a real bus width (default paging 0x800, 14 address bits).  Everything TLC computes
    must stay below 2^31, so registers have at most 30 bits (4 words at w = 8, 2 at 16, 1 at 32)."""
    ordering = rnd.choice(["big", "little"])
    nb = rnd.choice([1, 1, 2, 3])
    pages = rnd.sample(range(32), nb)
    banks = []
    for p in pages:
        regs = []
        nreg = rnd.randint(1, 4)
        for i in range(nreg):
            kind = rnd.choice(["storage", "storage", "storage_atomic", "storage_dev", "storage_atomic_dev",
                               "status", "status", "status_rw", "csr"])
            size = rnd.choice([1, w - 1, w, w + 1, 2 * w, 2 * w + 1, rnd.randint(1, 30), rnd.randint(1, 30)])
            size = max(1, min(30, size))
            if kind == "csr":
                size = min(size, w)
            if ordering == "little" and "atomic" in kind and size > w:
                kind = kind.replace("_atomic", "")          # the listed finding; covered exhaustively in G-mode
            fields = []
            if kind in ("storage", "storage_dev", "status") and size >= 3 and rnd.random() < 0.4:
                off = 0
                for j in range(rnd.randint(1, 3)):
                    fs = rnd.randint(1, 3)
                    gap = rnd.choice([None, None, off + rnd.randint(0, 2)])
                    if gap is not None:
                        off = gap
                    if off + fs > 30:
                        break
                    pulse = int(kind != "status" and fs == 1 and rnd.random() < 0.5)
                    fields.append(F(fs, offset=gap, reset=0 if pulse else rnd.randrange(1 << fs), pulse=pulse))
                    off += fs
            r = R(kind, size, reset=rnd.randrange(1 << size), fields=fields)
            rs = r_size(r)
            if kind in ("status", "status_rw", "csr") and rnd.random() < 0.85:
                nbits = sum(f["size"] for f in fields) if fields else rs
                r["dvs"] = sorted({0} | {rnd.randrange(1 << nbits) for _ in range(3)})
            elif kind.endswith("dev"):
                r["dvs"] = sorted({rnd.randrange(1 << rs) for _ in range(3)})
            regs.append(r)
        # now and then a fixed location (never the defective / conflicting ones: those are construction cases)
        if rnd.random() < 0.3:
            k = rnd.randrange(len(regs))
            regs[k]["n"] = rnd.choice([x for x in range(len(regs) + 3) if x != len(regs)])
        if len(regs) > 1 and rnd.random() < 0.3:
            banks.append((p, regs, rnd.randrange(len(regs))))     # some registers in a nested AutoCSR child
        else:
            banks.append((p, regs))
    spec = S(w, ordering, banks, paging=0x800, npages=32, ic=rnd.choice(["shared", "plain", "shared2"]), dats=[0])
    spec["free"] = 1
    return spec


def random_schedule(rnd, spec, cfg, n):
    """n cycles: bus operations biased towards mapped words, device-side inputs from the declared alphabets"""
    w = spec["w"]
    pb = cfg["pb"]
    dmax = (1 << min(w, 31)) - 1
    mapped = []
    for b, m in enumerate(cfg["map"]):
        for lo in range(len(m)):
            mapped.append((cfg["bankadr"][b] << pb) | lo)
    nadr = spec["npages"] << pb
    regs = cfg["regs"]
    sched = []
    for _ in range(n):
        x = rnd.random()
        if x < 0.12 or not mapped:
            op, adr = 0, rnd.choice([0, rnd.randrange(nadr)])
        else:
            op = 1 if x < 0.6 else 2
            y = rnd.random()
            if y < 0.8:
                adr = rnd.choice(mapped)
            elif y < 0.9:
                adr = (rnd.choice(cfg["bankadr"]) << pb) | rnd.randrange(1 << pb)       # hole of a bank's page
            else:
                adr = rnd.randrange(nadr)
        dat = rnd.choice([0, dmax, rnd.randint(0, dmax), rnd.randint(0, dmax)]) if op == 1 else 0
        dv = []
        for r in regs:
            if r["dvs"] and rnd.random() < 0.5:
                v = rnd.choice(r["dvs"])
                dv.append(v + 1 if r["kind"].endswith("dev") else v)
            else:
                dv.append(0)
        sched.append([op, adr, dat] + dv)
    return sched


# ---------------------------------------------------------------------------------------- csr_bus.SRAM windows
class _MemObj(Module, AutoCSR):
    """an object owning a memory: CSRBankArray creates a csr_bus.SRAM window for it (and, when the memory
    is larger than a page, a bank holding the window's page register)"""
    def __init__(self, mw, depth, init, ro):
        self.m = Memory(mw, depth, init=list(init), name="m")
        self._ro = ro

    def get_memories(self):
        return [(True, self.m)] if self._ro else [self.m]


def build_sram(spec):
    _forget_names()
    w = spec["w"]
    pb = log2_int(spec["paging"] // 4)
    aw = pb + log2_int(spec["npages"])
    top = Module()
    src = Module()
    src.mo = _MemObj(spec["mw"], spec["depth"], spec["init"], bool(spec.get("ro")))
    array = csr_bus.CSRBankArray(src, lambda name, mem: spec["sadr"] if mem is not None else spec["badr"],
                                 data_width=w, address_width=aw, paging=spec["paging"],
                                 ordering=spec.get("ordering", "big"))
    top.submodules += array
    master = csr_bus.Interface(data_width=w, address_width=aw)
    top.submodules += csr_bus.InterconnectShared([master], array.get_buses())
    return top, master, array


def make_sram(spec):
    top, master, array = build_sram(spec)
    op, adr, dat = Signal(2), Signal(len(master.adr)), Signal(spec["w"])
    top.comb += [master.adr.eq(adr), master.we.eq(op == 1), master.re.eq(op == 2), master.dat_w.eq(dat)]
    mmap = array.get_mmaps()[0]
    pg = mmap._page.storage if mmap._page is not None else Constant(0)
    return top, [op, adr, dat], [master.dat_r, mmap.bus.dat_r, pg]


def sram_cfg(spec):
    top, master, array = build_sram(spec)
    mmap = array.get_mmaps()[0]
    pb = log2_int(spec["paging"] // 4)
    pgbits, pgadr = 0, -1
    if mmap._page is not None:
        pgbits = len(mmap._page.storage)
        name, csrs, mapaddr, rmap = array.banks[0]
        scs = mmap._page.get_simple_csrs()
        assert len(scs) == 1
        pgadr = (mapaddr << pb) | [id(x) for x in rmap.simple_csrs].index(id(scs[0]))
    return {"w": spec["w"], "pb": pb, "npages": spec["npages"], "sadr": spec["sadr"], "mw": spec["mw"],
            "depth": spec["depth"], "ro": int(bool(spec.get("ro"))), "init": list(spec["init"]),
            "pgbits": pgbits, "pgadr": pgadr, "dats": list(spec["dats"]), "hdat": (1 << spec["w"]) - 1}


def sram_configs(tier):
    L = []

    def add(w, mw, depth, paging, ro=0, dats=None, sadr=1, badr=2, npages=4, ordering="big"):
        init = [(((i + 1) * 0x9d) >> 1 ^ (i + 1)) & ((1 << mw) - 1) for i in range(depth)]
        spec = {"kind": "sram", "w": w, "mw": mw, "depth": depth, "paging": paging, "npages": npages, "sadr": sadr,
                "badr": badr, "ro": ro, "init": init, "dats": dats if dats is not None else list(range(1 << w)),
                "ordering": ordering}
        L.append((spec, sram_cfg(spec)))
    add(2, 2, 4, 16)                              # memory word = bus word, one page
    add(2, 2, 2, 16, ro=1, sadr=3)                # read-only
    add(2, 4, 2, 16, dats=[1, 2])                 # sub-word staging (2 chunks per word)
    add(2, 4, 2, 8, dats=[1, 2], sadr=0, badr=3)  # paged: one memory word per page
    add(2, 3, 2, 16, dats=[1, 3])                 # top chunk narrower than the bus
    if tier == "thorough":
        add(2, 2, 4, 8, dats=[1, 2], sadr=2, badr=1)      # paged, word = bus word
        add(4, 8, 2, 16, dats=[6, 9])
        add(2, 8, 2, 16, dats=[1])                        # 4 chunks per word
        add(2, 4, 4, 8, dats=[1], sadr=0, badr=1, ordering="little")   # 2-bit page register
        add(2, 4, 2, 16, ro=1, dats=[1, 2])
        add(2, 3, 2, 8, dats=[1, 3], sadr=3, badr=0)
    return L
