"""DUT factories and configurations for the stream ROUTING elements with a dynamic selector (C03/C04):
stream.Multiplexer, stream.Demultiplexer, stream.Crossbar (= Multiplexer -> Demultiplexer) and their compositions
with buffers.  Contract: specs/stream/StreamRoute.tla (NP = 3 port slots)."""
from migen import Module, Signal, Constant

from litex.soc.interconnect import stream

NP = 3


def _buf(kind, L):
    if kind == "PipeValid":
        return stream.PipeValid(L), 1
    if kind == "PipeReady":
        return stream.PipeReady(L), 1
    if kind == "Buffer":
        return stream.Buffer(L, pipe_valid=True, pipe_ready=True), 2
    if kind == "SyncFIFO2":
        return stream.SyncFIFO(L, 2), 2
    raise ValueError(kind)


def build(spec):
    """-> (top, sinks, sources, sel_in or None, sel_out or None, capacity)"""
    n = spec["n"]
    dw = spec.get("dw", 1)
    L = [("data", dw)]
    top = Module()
    cap = 0
    cls = spec["cls"]
    if cls == "Mux":
        m = stream.Multiplexer(L, n)
        top.submodules += m
        sinks = [getattr(m, "sink%d" % i) for i in range(n)]
        src = m.source
        if spec.get("post"):
            b, k = _buf(spec["post"], L)
            top.submodules += b
            top.comb += m.source.connect(b.sink)
            src = b.source
            cap += k
        return top, sinks, [src], m.sel, None, cap
    if cls == "Demux":
        d = stream.Demultiplexer(L, n)
        top.submodules += d
        sink = d.sink
        if spec.get("pre"):
            b, k = _buf(spec["pre"], L)
            top.submodules += b
            top.comb += b.source.connect(d.sink)
            sink = b.sink
            cap += k
        return top, [sink], [getattr(d, "source%d" % i) for i in range(n)], None, d.sel, cap
    if cls == "Crossbar":
        x = stream.Crossbar(L, n)
        top.submodules += x
        if spec.get("mid"):
            b, k = _buf(spec["mid"], L)
            top.submodules += b
            top.comb += [x.mux.source.connect(b.sink), b.source.connect(x.demux.sink)]
            cap += k
        else:
            top.comb += x.mux.source.connect(x.demux.sink)
        return (top, [getattr(x.mux, "sink%d" % i) for i in range(n)],
                [getattr(x.demux, "source%d" % i) for i in range(n)], x.mux.sel, x.demux.sel, cap)
    raise ValueError(cls)


def make(spec):
    """inputs  = si, so, (valid, data, first, last) x NP sink slots, ready x NP source slots
       outputs = ready x NP sink slots, (valid, data, first, last) x NP source slots"""
    top, sinks, sources, si, so, _ = build(spec)
    ins = [si if si is not None else Signal(name="si_unused"), so if so is not None else Signal(name="so_unused")]
    outs = []
    for i in range(NP):
        if i < len(sinks):
            ep = sinks[i]
            ins += [ep.valid, ep.data, ep.first, ep.last]
        else:
            ins += [Signal(name="u%d_%d" % (i, k)) for k in range(4)]
    for j in range(NP):
        ins.append(sources[j].ready if j < len(sources) else Signal(name="ur%d" % j))
    for i in range(NP):
        outs.append(sinks[i].ready if i < len(sinks) else Constant(0))
    for j in range(NP):
        if j < len(sources):
            ep = sources[j]
            outs += [ep.valid, ep.data, ep.first, ep.last]
        else:
            outs += [Constant(0)] * 4
    return top, ins, outs


def cfg_of(spec, toks=None):
    n = spec["n"]
    cls = spec["cls"]
    nsel = 2 ** max(1, (max(n, 2) - 1).bit_length())       # Signal(max=max(n, 2)): every value of the signal is driven
    cap = {"PipeValid": 1, "PipeReady": 1, "Buffer": 2, "SyncFIFO2": 2, None: 0}[
        spec.get("post") or spec.get("pre") or spec.get("mid")]
    if toks is None:
        toks = [[d, 0, l] for d in (0, 1) for l in (0, 1)]
    return {"ni": n if cls in ("Mux", "Crossbar") else 1,
            "no": n if cls in ("Demux", "Crossbar") else 1,
            "nsi": nsel if cls in ("Mux", "Crossbar") else 1,
            "nso": nsel if cls in ("Demux", "Crossbar") else 1,
            "toks": [list(t) for t in toks], "cap": cap}


def configs(tier):
    """list of (python spec, TLA+ cfg)"""
    L = []
    T4 = [[d, 0, l] for d in (0, 1) for l in (0, 1)]        # 1-bit payload + last
    T8 = [[d, f, l] for d in (0, 1) for f in (0, 1) for l in (0, 1)]
    T2 = [[0, 0, 1], [1, 0, 0]]

    def add(spec, toks=T4):
        L.append((spec, cfg_of(spec, toks)))
    add({"cls": "Mux", "n": 2}, T8)
    add({"cls": "Mux", "n": 3})
    add({"cls": "Demux", "n": 2}, T8)
    add({"cls": "Demux", "n": 3})
    add({"cls": "Crossbar", "n": 2})
    add({"cls": "Mux", "n": 2, "post": "PipeValid"})
    add({"cls": "Demux", "n": 3, "pre": "PipeValid"})
    add({"cls": "Crossbar", "n": 2, "mid": "PipeValid"}, T2)
    if tier == "thorough":
        add({"cls": "Crossbar", "n": 3}, T2)
        add({"cls": "Mux", "n": 3, "post": "SyncFIFO2"}, T2)
        add({"cls": "Demux", "n": 2, "pre": "Buffer"}, T8)
        add({"cls": "Demux", "n": 3, "pre": "PipeReady"})
        add({"cls": "Crossbar", "n": 2, "mid": "SyncFIFO2"}, T2)
        add({"cls": "Crossbar", "n": 3, "mid": "PipeValid"}, T2)
    return L


def tmode_configs(tier):
    """realistic widths for trace validation"""
    big8 = [0x00, 0xff, 0xa5, 0x3c, 0x81, 0x7e]
    toks = [[d, f, l] for d in big8 for f in (0, 1) for l in (0, 1)]
    L = []
    for spec in [{"cls": "Mux", "n": 3, "dw": 8}, {"cls": "Demux", "n": 3, "dw": 8},
                 {"cls": "Crossbar", "n": 3, "dw": 8, "mid": "SyncFIFO2"},
                 {"cls": "Mux", "n": 2, "dw": 8, "post": "Buffer"}]:
        L.append((spec, cfg_of(spec, toks)))
    return L
