"""Drivers for the SECDED family (C18): evaluate the real, purely combinational ECCEncoder /
ECCDecoder netlists of litex/soc/cores/ecc.py on given data words and bit-flip sets.

Python only drives and records: it XORs the flip mask onto the encoder's output to obtain the word
the decoder is fed with.  What the decoder has to answer is specified in specs/secded/Secded.tla.
Words travel to TLC as increasing lists of the positions of their 1 bits (code words reach 137 bits).
"""
import itertools
import random

_ST = {}        # per process: (k, engine) -> (encoder stepper, decoder stepper, code word width)


def ones(x):
    out = []
    i = 0
    while x:
        if x & 1:
            out.append(i)
        x >>= 1
        i += 1
    return out


def word(pos):
    x = 0
    for p in pos:
        x |= 1 << p
    return x


def netlists(k, engine="compiled"):
    r = _ST.get((k, engine))
    if r is None:
        from ..fhdl_step import Stepper
        from litex.soc.cores import ecc
        e = ecc.ECCEncoder(k)
        d = ecc.ECCDecoder(k)
        if len(e.i) != k or len(d.o) != k or len(e.o) != len(d.i):
            raise ValueError("ECC interface widths inconsistent for k=%d" % k)
        se = Stepper(e, [e.i], [e.o], engine=engine)
        sd = Stepper(d, [d.i, d.enable], [d.o, d.sec, d.ded], engine=engine)
        if se.regs or sd.regs:
            raise ValueError("ECC netlists are expected to be combinational")
        r = (se, sd, len(e.o))
        _ST[(k, engine)] = r
    return r


def width(k):
    return netlists(k)[2]


def encode(k, data, engine="compiled"):
    se = netlists(k, engine)[0]
    se.load((), (data,))
    return se.peek()[0]


def decode(k, w, en, engine="compiled"):
    sd = netlists(k, engine)[1]
    sd.load((), (w, en))
    return sd.peek()


def flip_sets(w, mode):
    if mode == "none":
        return [()]
    L = [()] + [(i,) for i in range(w)]
    if mode == "all012":
        L += list(itertools.combinations(range(w), 2))
    return L


def eval_runs(job):
    """job = (k, data int, en, [flip tuples], engine) -> (cw int, [[f, o ones, sec, ded], ...])"""
    k, data, en, flips, engine = job
    cw = encode(k, data, engine)
    if flips == "cwones":
        # mode "unit": the flip sets are read off the encoder's answer - nothing flipped, the parity
        # position alone, and every position at which the code word carries a 1 (each alone)
        flips = unit_flips(cw)
    dones = ones(data)
    runs = []
    for f in flips:
        m = 0
        for p in f:
            m |= 1 << p
        o, s, d = decode(k, cw ^ m, en, engine)
        runs.append([list(f), dones if o == data else ones(o), int(s), int(d)])
    return cw, runs


def unit_flips(cw):
    return [()] + [(p,) for p in sorted(set([0] + ones(cw)))]


def eval_enc(job):
    k, words = job
    return [encode(k, x) for x in words]


def crosscheck_job(job):
    """compiled stepper against the repository's reference evaluator on the same cases"""
    k, data, flipsets = job
    n = 0
    a = encode(k, data, "compiled")
    b = encode(k, data, "ref")
    if a != b:
        raise AssertionError("compiled/reference engines disagree on ECCEncoder(%d)" % k)
    n += 1
    for en, f in flipsets:
        m = word(f)
        if decode(k, a ^ m, en, "compiled") != decode(k, a ^ m, en, "ref"):
            raise AssertionError("compiled/reference engines disagree on ECCDecoder(%d)" % k)
        n += 1
    # the reference steppers of large k are big: drop them again
    _ST.pop((k, "ref"), None)
    return n


def sample_flips(w, n, rnd):
    """a sample of flip sets of size <= 2 that always contains the empty set, the parity position
    alone and pairs with it"""
    S = {(), (0,), (w - 1,), (0, 1), (0, w - 1)}
    while len(S) < n:
        if rnd.random() < 0.3:
            S.add((rnd.randrange(w),))
        else:
            a, b = rnd.sample(range(w), 2)
            S.add((min(a, b), max(a, b)))
    return sorted(S, key=lambda f: (len(f), f))


def plan_groups(k, cls, tier, rnd):
    """the (data, en, mode[, flips]) groups recorded for width k of a class; Secded.tla's Coverage
    clause verifies that what the class demands is there.  -> (groups, lin pairs)"""
    full = (1 << k) - 1
    evens = sum(1 << i for i in range(0, k, 2))
    G = []
    lin = []
    if cls == "small":
        for d in range(1 << k):
            G.append((d, 1, "all012", None))
            G.append((d, 0, "all012", None))
    elif cls == "mid":
        ds = [0, full, evens]
        while len(ds) < 5:
            x = rnd.getrandbits(k)
            if x not in ds:
                ds.append(x)
        for d in ds:
            G.append((d, 1, "all012", None))
        G.append((0, 0, "all012", None))
        G.append((full, 0, "all012", None))
        for i in range(k):
            G.append((1 << i, 1, "all01", None))
    else:
        w = width(k)
        G.append((0, 1, "all012", None))
        G.append((0, 0, "all01", None))
        unit_mode = "all01" if tier == "thorough" and (k <= 64 or k in (100, 128)) else "unit"
        for i in range(k):
            G.append((1 << i, 1, unit_mode, "cwones" if unit_mode == "unit" else None))
        G.append((full, 1, "sample", sample_flips(w, 60 if tier == "quick" else 200, rnd)))
        nrand = 3 if tier == "quick" else 5
        seen = {0, full}
        while nrand:
            x = rnd.getrandbits(k)
            if x in seen:
                continue
            seen.add(x)
            G.append((x, 1, "sample", sample_flips(w, 60 if tier == "quick" else 200, rnd)))
            nrand -= 1
        G.append((rnd.getrandbits(k) | 1, 0, "sample", sample_flips(w, 40, rnd)))
        for _ in range(8 if tier == "quick" else 16):
            a = rnd.getrandbits(k) | (1 << rnd.randrange(k))
            b = a
            while b == a or b == 0:
                b = rnd.getrandbits(k)
            lin.append((a, b))
    return G, lin
