"""DUT factory for the Wishbone interconnect family (C06, C11): real InterconnectShared / Crossbar
with tagged masters and policy-driven zero-latency slaves (see specs/wbic/WbIcContract.tla)."""
from migen import Module, Signal, Array, Constant, If, Case, Mux

from litex.soc.interconnect import wishbone
from litex.soc.integration.soc import SoCRegion

ADRW = 6          # word address bits of the test buses (byte address width 8)


def _regions(spec):
    """-> list of (origin_bytes, size_bytes) for the slaves, word base for each target incl. hole"""
    m = spec["m"]
    amap = spec.get("map", "contig")
    if amap == "contig":          # slave j at 0x40*j, 0x40 bytes each; hole above
        regs = [(0x40 * j, 0x40) for j in range(m)]
        hole = 0xc0
    elif amap == "mixed":         # different sizes, hole in the middle
        regs = [(0x00, 0x20), (0x80, 0x80), (0x40, 0x10)][:m]
        hole = 0x60
    elif amap == "small":         # up to 6 slaves of 0x20 bytes, hole at the top (L2 lane: 4 x 4 instances)
        assert m <= 6
        regs = [(0x20 * j, 0x20) for j in range(m)]
        hole = 0xe0
    elif amap == "all":           # single slave covering the whole space
        assert m == 1
        regs = [(0x00, 0x100)]
        hole = None
    else:
        raise ValueError(amap)
    return regs, hole


def make(spec):
    n, m = spec["n"], spec["m"]
    regs, hole = _regions(spec)
    top = Module()
    masters = [wishbone.Interface(data_width=32, adr_width=ADRW) for _ in range(n)]
    slaves = [wishbone.Interface(data_width=32, adr_width=ADRW) for _ in range(m)]
    ins, outs = [], []
    # word address a master drives for target t (1..m, m+1 = hole); offset inside region: last word
    bases = []
    for (org, size) in regs:
        bases.append((org + size - 4) >> 2 if spec.get("lastword") else (org >> 2) + spec.get("off", 1) % (size >> 2))
    tgt_adr = list(bases) + [(hole >> 2) if hole is not None else 0]
    for i, mi in enumerate(masters):
        req, tgt, we = Signal(2), Signal(max=m + 3), Signal()
        ins += [req, tgt, we]
        arr = Array([Constant(0, ADRW)] + [Constant(a, ADRW) for a in tgt_adr])
        top.comb += [
            mi.cyc.eq(req != 0), mi.stb.eq(req == 1), mi.we.eq(we),
            mi.adr.eq(arr[tgt]), mi.dat_w.eq(i + 1), mi.sel.eq(0xf),
        ]
    pols = []
    for j, sj in enumerate(slaves):
        pol = Signal(2)
        pols.append(pol)
        rdy = Signal()
        if spec.get("minlat", 0):
            seen = Signal(4)
            top.sync += seen.eq(0)
            top.sync += If(sj.cyc & sj.stb, seen.eq(sj.dat_w[:4]))
            top.comb += rdy.eq(sj.cyc & sj.stb & (seen == sj.dat_w[:4]))
        else:
            top.comb += rdy.eq(sj.cyc & sj.stb)
        top.comb += [
            sj.dat_r.eq(8 + j + 1),
            sj.ack.eq((pol == 1) & rdy),
            sj.err.eq((pol == 2) & rdy),
        ]
    ins += pols
    decoders = []
    for (org, size), sj in zip(regs, slaves):
        if spec.get("decoder", "region") == "region":
            r = SoCRegion(origin=org, size=size)
            decoders.append((r.decoder(masters[0]), sj))
        else:
            lo, sz = org >> 2, size >> 2
            decoders.append(((lambda lo, sz: (lambda a: (a >= lo) & (a < lo + sz)))(lo, sz), sj))
    timeout = spec.get("timeout") or None
    kind = spec["kind"]
    rr_orig = wishbone.roundrobin.RoundRobin
    if spec.get("canary") == "stuck_grant":
        # canary of the liveness clauses (never a DUT of the sweeps): the interconnect is built, in memory only, with
        # an arbiter whose grant register never moves - a master other than master 0 starves for ever on an idle bus
        class _StuckRR(Module):
            def __init__(self, n, switch_policy=None):
                self.request = Signal(n)
                self.grant = Signal(max=max(2, n))
                self.sync += self.grant.eq(self.grant)
        wishbone.roundrobin.RoundRobin = _StuckRR
    try:
        if kind == "shared":
            ic = wishbone.InterconnectShared(masters, decoders, register=spec.get("register", False),
                                             timeout_cycles=timeout)
        elif kind == "crossbar":
            ic = wishbone.Crossbar(masters, decoders, register=spec.get("register", False), timeout_cycles=timeout)
        elif kind == "p2p":
            ic = wishbone.InterconnectPointToPoint(masters[0], slaves[0])
        else:
            raise ValueError(kind)
    finally:
        wishbone.roundrobin.RoundRobin = rr_orig
    top.submodules.ic = ic
    for mi in masters:
        # read data as a small code: slave tags 9..11, 15 = all ones (the time-out's error data)
        outs += [mi.ack, mi.err, Mux(mi.dat_r == 0xffffffff, 15, mi.dat_r[:4])]
    for sj in slaves:
        outs += [sj.cyc, sj.stb, sj.we, sj.dat_w, sj.adr]
    err = getattr(getattr(ic, "timeout", None), "error", None)
    outs.append(err if err is not None else Constant(0))
    return top, ins, outs


def tla_cfg(spec):
    regs, hole = _regions(spec)
    m = spec["m"]
    bases = []
    for (org, size) in regs:
        bases.append((org + size - 4) >> 2 if spec.get("lastword") else (org >> 2) + spec.get("off", 1) % (size >> 2))
    return {"n": spec["n"], "m": m, "bases": bases, "hole": 1 if (hole is not None and spec.get("hole", True)) else 0,
            "minlat": int(spec.get("minlat", 0)), "waitstates": int(spec.get("waitstates", 0)), "rw": int(spec.get("rw", 1)), "errs": int(spec.get("errs", 1)),
            "timeout": int(spec.get("timeout") or 0), "slack": int(spec.get("slack", 1)),
            "faulty": int(spec.get("faulty", 0)), "allones": 2**32 - 1 if False else 15, "cbar": int(spec["kind"] == "crossbar")}


class Hint:
    """speculation hint: a master repeats an unterminated strobed request"""
    def init(self, cfg):
        return ()

    def allowed(self, cfg, ctx, iv):
        for i, h in ctx:
            if tuple(iv[3 * i:3 * i + 3]) != h:
                # an unmapped request without time-out may be withdrawn
                if not (h[1] == cfg["m"] + 1 and cfg["timeout"] == 0 and tuple(iv[3 * i:3 * i + 3]) == (0, 0, 0)):
                    return False
        return True

    def next(self, cfg, ctx, iv, o):
        held = []
        for i in range(cfg["n"]):
            req = iv[3 * i]
            if req == 1 and not (o[3 * i] or o[3 * i + 1]):
                held.append((i, (1, iv[3 * i + 1], iv[3 * i + 2])))
        return tuple(held)


def configs(tier, prop="C06"):
    L = []

    def add(**spec):
        L.append((spec, tla_cfg(spec)))
    if prop == "C06":
        add(kind="p2p", n=1, m=1, map="all", hole=False)
        add(kind="shared", n=1, m=2, register=False)
        add(kind="shared", n=2, m=1, map="all", register=False, waitstates=1)
        add(kind="shared", n=2, m=2, register=False, waitstates=1)
        add(kind="shared", n=2, m=2, register=True, rw=0, minlat=0)
        add(kind="shared", n=2, m=2, register=True, rw=0, minlat=1)
        add(kind="crossbar", n=2, m=2, register=False, rw=0)
        add(kind="crossbar", n=2, m=2, register=True, rw=0, errs=0, minlat=0)
        add(kind="crossbar", n=2, m=2, register=True, rw=0, errs=0, minlat=1)
        add(kind="shared", n=2, m=3, map="mixed", rw=0, errs=0, lastword=True)
        add(kind="shared", n=3, m=1, map="all", rw=0, errs=0, hole=False)
        if tier == "thorough":
            add(kind="shared", n=3, m=2, rw=0, errs=0)
            add(kind="crossbar", n=3, m=2, rw=0, errs=0)
            add(kind="crossbar", n=2, m=3, map="mixed", rw=0, errs=0)
            add(kind="shared", n=3, m=3, map="mixed", rw=0, errs=0, register=True, minlat=1)
            add(kind="crossbar", n=3, m=3, map="mixed", rw=0, errs=0, hole=False)
            add(kind="shared", n=2, m=2, decoder="range", waitstates=1)
    if prop == "C11":
        add(kind="shared", n=1, m=1, map="contig", timeout=1, faulty=1)
        add(kind="shared", n=1, m=2, timeout=2, faulty=1)
        add(kind="shared", n=2, m=1, map="contig", timeout=2, faulty=1, rw=0, slack=2)
        add(kind="shared", n=2, m=2, timeout=3, faulty=1, rw=0, errs=0, slack=2, register=True, minlat=1)
        add(kind="crossbar", n=1, m=1, map="contig", timeout=2, faulty=1, rw=0, errs=0)
        if tier == "thorough":
            add(kind="shared", n=2, m=2, timeout=1, faulty=1, slack=2)
            add(kind="shared", n=2, m=2, timeout=4, faulty=1, rw=0, slack=2)
            add(kind="shared", n=3, m=2, timeout=2, faulty=1, rw=0, errs=0, slack=2)
            add(kind="crossbar", n=2, m=2, timeout=2, faulty=1, rw=0, errs=0, slack=2)
    return L
