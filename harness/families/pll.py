"""C20 family: drives the REAL clocking helpers of litex.soc.cores.clock and records what they did.

Nothing here decides the property.  This module
  * reads the *declared* device ranges from the real classes / instances at run time (``device_table``),
  * executes one request (input frequency, 1..max outputs (frequency, phase, margin)) on a fresh helper
    (``execute``): register_clkin / create_clkout / finalize(), with compute_config wrapped so that the
    configuration actually used for the emitted Instance is captured,
  * encodes configuration, Instance parameters and outputs as integers (all numbers x8, so that the 1/8
    fractional dividers stay integral) / strings for the TLA+ judge (specs/pll/PllConfig.tla).

Frequencies travel as integer multiples of UNIT = 125 kHz (TLC integers are 32 bit).
"""
import contextlib
import io
import logging
import re
from fractions import Fraction

UNIT = 125000          # Hz per frequency unit
SC = 8                 # every number handed to TLA+ is multiplied by 8
UNBOUNDED = 1 << 24    # declared bounds above this many units are "no bound" (-1)


class Undeclarable(Exception):
    """a declared range cannot be expressed in the integer units of the specification"""


def _units(x, what):
    fr = Fraction(x) / UNIT
    if fr > UNBOUNDED:
        return -1
    if fr.denominator != 1:
        raise Undeclarable("%s = %r Hz is not a multiple of %d Hz" % (what, x, UNIT))
    return int(fr)


def _frange(r, what):
    return [_units(r[0], what + ".min"), _units(r[1], what + ".max")]


def _sc(x, what, sc=SC):
    fr = Fraction(x) * sc
    if fr.denominator != 1:
        raise Undeclarable("%s = %r is not a multiple of 1/%d" % (what, x, sc))
    return int(fr)


def _drange(r, what, sc=SC, off=0):
    """python (start, stop[, step]) as used with range()/clkdiv_range -> [lo, hi_exclusive, step] scaled"""
    start, stop = r[0], r[1]
    step = r[2] if len(r) > 2 else 1
    return [_sc(start + off, what, sc), _sc(stop + off, what, sc), _sc(step, what, sc)]


# ---------------------------------------------------------------------------------------- helpers
def _imports():
    from litex.soc.cores.clock import xilinx_s6, xilinx_s7, xilinx_us, xilinx_usp
    from litex.soc.cores.clock import lattice_ecp5, lattice_ice40, lattice_nx
    from litex.soc.cores.clock import intel_cyclone4, intel_cyclone5, intel_cyclone10, intel_max10, intel_stratix5
    from litex.soc.cores.clock import gowin_gw1n, gowin_gw2a, gowin_gw5a
    from litex.soc.cores.clock import efinix
    return locals()


_SG = ["-1", "-2", "-3"]
# name -> (module, kind, sub, primitives, variants).  The variant string is what the constructor gets.
HELPERS = {
    "S7PLL":    ("xilinx_s7", "nmd", "xilpll", ["PLLE2_ADV"], _SG),
    "S7MMCM":   ("xilinx_s7", "nmd", "xilmmcm", ["MMCME2_ADV"], _SG),
    "S6PLL":    ("xilinx_s6", "nmd", "s6pll", ["PLL_ADV"], _SG),
    "S6DCM":    ("xilinx_s6", "nmd", "s6dcm", ["DCM_CLKGEN"], _SG),
    "USPLL":    ("xilinx_us", "nmd", "xilpll", ["PLLE2_ADV"], _SG),
    "USMMCM":   ("xilinx_us", "nmd", "xilmmcm", ["MMCME2_ADV"], _SG),
    "USPPLL":   ("xilinx_usp", "nmd", "xilpll", ["PLLE2_ADV"], _SG),
    "USPMMCM":  ("xilinx_usp", "nmd", "xilmmcm", ["MMCME4_ADV"], _SG),
    "ECP5PLL":  ("lattice_ecp5", "ecp5", "ecp5", ["EHXPLLL"], ["-"]),
    "iCE40PLL": ("lattice_ice40", "nmd", "ice40", ["SB_PLL40_CORE", "SB_PLL40_PAD"], ["SB_PLL40_CORE", "SB_PLL40_PAD"]),
    "NXPLL":    ("lattice_nx", "nmd", "nx", ["PLL"], ["-"]),
    "CycloneIVPLL":   ("intel_cyclone4", "nmd", "intel", ["ALTPLL"], ["-6", "-7", "-8", "-8L", "-9L"]),
    "CycloneVPLL":    ("intel_cyclone5", "nmd", "intel", ["ALTPLL"], ["-C6", "-C7", "-I7", "-C8", "-A7"]),
    "Cyclone10LPPLL": ("intel_cyclone10", "nmd", "intel", ["ALTPLL"], ["-C6", "-C8", "-I7", "-A7", "-I8"]),
    "Max10PLL":       ("intel_max10", "nmd", "intel", ["ALTPLL"], ["-6", "-7", "-8"]),
    "StratixVPLL":    ("intel_stratix5", "nmd", "intel", ["ALTPLL"], ["-C4", "-C2", "-I3"]),
    "GW1NPLL":  ("gowin_gw1n", "gw1n", "gw1n", ["rPLL", "PLLVR"],
                 ["GW1NR-9C|GW1NR-LV9QN88PC6/I5", "GW1NSR-4C|GW1NSR-LV4CQN48PC7/I6", "GW1N-1|GW1N-LV1QN48C6/I5"]),
    "GW2APLL":  ("gowin_gw2a", "gw1n", "gw1n", ["rPLL", "PLLVR"], ["GW2A-18C|GW2A-LV18PG256C8/I7"]),
    "GW5APLL":  ("gowin_gw5a", "gw5a", "gw5a", ["PLLA", "PLL"],
                 ["GW5A-25A|GW5A-LV25MG121NES", "GW5AST-138B|GW5AST-LV138FPG676AES"]),
    "TRIONPLL": ("efinix", "trion", "trion", ["TRIONPLL"], ["T8F81", "T120F324"]),
}
# helpers of the repository that compute no configuration (nothing to judge): listed in the evidence
NOT_COVERED = {
    "GateMatePLL": "CologneChip CC_PLL: the helper passes REF_CLK/OUT_CLK strings to the primitive and the vendor "
                   "tool chain computes the dividers; there is no computed configuration to judge",
    "TITANIUMPLL": "Efinix Titanium: do_finalize returns before compute_config for every non-Trion family and the "
                   "class declares no ranges; the interface designer computes the PLL",
    "NXOSCA/GW1NOSC": "oscillator dividers, not PLL configurations",
}


class _StubIfaceWriter:
    def __init__(self):
        self.blocks = []

    def get_block(self, name):
        for b in self.blocks:
            if b["name"] == name:
                return b
        return None


class _StubToolchain:
    def __init__(self):
        self.ifacewriter = _StubIfaceWriter()
        self.excluded_ios = []
        self.additional_sdc_commands = []


class _StubEfinixPlatform:
    """the few attributes EFINIXPLL touches; the real EfinixPlatform needs the Efinity tool data base.
    The clock input is a fabric ('CORE') signal, outputs are created without a ClockDomain."""
    family = "Trion"

    def __init__(self, device):
        from migen import Signal
        self._Signal = Signal
        self.device = device
        self.toolchain = _StubToolchain()
        self.pll_available = ["PLL_TL0", "PLL_TR0"]
        self.pll_used = []
        self.clks = {}

    def add_iface_io(self, name, size=1, append=True):
        return self._Signal(size, name=name)

    def get_pin_name(self, sig):
        return getattr(sig, "name_override", None) or "clkin"

    def get_pin_location(self, sig):
        return None

    def get_free_pll_resource(self):
        r = [p for p in self.pll_available if p not in self.pll_used][0]
        self.pll_used.append(r)
        return r


def construct(helper, variant):
    mods = _imports()
    modname, kind, sub, prims, variants = HELPERS[helper]
    cls = getattr(mods[modname], helper)
    if sub in ("xilpll", "xilmmcm", "s6pll", "s6dcm"):
        return cls(speedgrade=int(variant))
    if sub == "intel":
        return cls(speedgrade=variant)
    if sub == "ice40":
        return cls(primitive=variant)
    if sub in ("gw1n", "gw5a"):
        devicename, device = variant.split("|")
        return cls(devicename, device)
    if sub == "trion":
        return cls(_StubEfinixPlatform(variant))
    return cls()


# ---------------------------------------------------------------------------------------- declared ranges
def describe(helper, variant):
    """the ranges the real class declares for this primitive/variant, as integers (see module doc)"""
    modname, kind, sub, prims, variants = HELPERS[helper]
    with _quiet():
        p = construct(helper, variant)
    nm = helper
    d = {"helper": helper, "variant": variant, "kind": kind, "sub": sub, "prims": list(prims),
         "nmax": int(p.nclkouts_max), "fin": [1, -1], "fout": [1, -1], "pfd": [0, -1], "hasvm": 0, "hasphase": 1,
         "m0only": 0, "literal": []}
    fin = getattr(p, "clkin_freq_range", None) or getattr(p, "clki_freq_range", None)
    if fin:
        d["fin"] = _frange(fin, nm + ".clkin_freq_range")
    fout = getattr(p, "clko_freq_range", None)
    if fout:
        d["fout"] = _frange(fout, nm + ".clko_freq_range")
        d["fout"][0] = max(d["fout"][0], 1)
    if kind == "nmd":
        d["sc"] = SC if sub in ("xilpll", "xilmmcm", "s6pll", "s6dcm") else 1
        sc = d["sc"]
        if sub in ("xilpll", "xilmmcm", "s6pll", "s6dcm"):
            d["hasvm"] = 1
            r = p.divclk_divide_range
            d["n"] = [int(r[0]), int(r[1]) - 1]
            d["m"] = _drange(p.clkfbout_mult_frange, nm + ".clkfbout_mult_frange", sc)
            common = _drange(p.clkout_divide_range, nm + ".clkout_divide_range", sc)
            d["d"] = []
            for i in range(p.nclkouts_max):
                rs = [common]
                extra = getattr(p, "clkout%d_divide_range" % i, None)
                if extra is not None:
                    rs.append(_drange(extra, nm + ".clkout%d_divide_range" % i, sc))
                d["d"].append(rs)
            if helper == "USPMMCM":
                # declared only as literals inside USPMMCM.compute_config (2.0..128.0 step 0.125, ug572)
                d["m"] = [16, 1025, 1]
                d["d"][0] = [[16, 1025, 1]]
                d["literal"] += ["CLKFBOUT_MULT_F 2.0..128.0 step 0.125", "CLKOUT0_DIVIDE_F 2.0..128.0 step 0.125"]
            d["vco"] = _frange(p.vco_freq_range, nm + ".vco_freq_range")
        elif sub == "intel":
            d["hasvm"] = 1
            d["n"] = [int(p.n_div_range[0]), int(p.n_div_range[1]) - 1]
            d["m"] = _drange(p.m_div_range, nm + ".m_div_range", sc)
            d["d"] = [[_drange(p.c_div_range, nm + ".c_div_range", sc)] for _ in range(p.nclkouts_max)]
            d["vco"] = _frange(p.vco_freq_range, nm + ".vco_freq_range")
            d["pfd"] = _frange(p.clkin_pfd_freq_range, nm + ".clkin_pfd_freq_range")
        elif sub == "nx":
            d["n"] = [int(p.clki_div_range[0]), int(p.clki_div_range[1]) - 1]
            d["m"] = _drange(p.clkfb_div_range, nm + ".clkfb_div_range", sc)
            d["d"] = [[_drange(p.clko_div_range, nm + ".clko_div_range", sc)] for _ in range(p.nclkouts_max)]
            d["vco"] = _frange(p.vco_out_freq_range, nm + ".vco_out_freq_range")
            d["pfd"] = _frange(p.vco_in_freq_range, nm + ".vco_in_freq_range")
        elif sub == "ice40":
            d["hasphase"] = 0
            # DIVR/DIVF hold divider-1, DIVQ holds log2 of the output divider
            d["n"] = [int(p.divr_range[0]) + 1, int(p.divr_range[1])]
            d["m"] = _drange(p.divf_range, nm + ".divf_range", sc, off=1)
            d["q"] = [int(p.divq_range[0]), int(p.divq_range[1]) - 1]
            d["d"] = [[[2 ** q, 2 ** q + 1, 1] for q in range(*p.divq_range)]]
            d["vco"] = _frange(p.vco_freq_range, nm + ".vco_freq_range")
    elif kind == "ecp5":
        d["ci"] = [int(p.clki_div_range[0]), int(p.clki_div_range[1]) - 1]
        d["fb"] = [int(p.clkfb_div_range[0]), int(p.clkfb_div_range[1]) - 1]
        d["co"] = [int(p.clko_div_range[0]), int(p.clko_div_range[1]) - 1]
        d["vco"] = _frange(p.vco_freq_range, nm + ".vco_freq_range")
        d["pfd"] = _frange(p.pfd_freq_range, nm + ".pfd_freq_range")
    elif kind == "gw1n":
        d["hasvm"] = 1
        d["vco"] = _frange(p.vco_freq_range, nm + ".vco_freq_range")
        d["pfd"] = _frange(p.pfd_freq_range, nm + ".pfd_freq_range")
        # the dividers are declared only as loop bounds / literals inside compute_config
        d["idiv"] = [1, 63]
        d["fdiv"] = [1, 63]
        d["odiv"] = [2, 4, 8, 16, 32, 48, 64, 80, 96, 112, 128]
        d["sdiv"] = [2, 128]
        d["literal"] += ["IDIV 1..63 and FBDIV 1..63 (loop bounds)", "ODIV in {2,4,8,16,32,48,64,80,96,112,128}",
                         "SDIV even 2..128 (comment)"]
    elif kind == "gw5a":
        d["hasvm"] = 1
        d["vco"] = _frange(p.vco_freq_range, nm + ".vco_freq_range")
        d["pfd"] = _frange(p.pfd_freq_range, nm + ".pfd_freq_range")
        d["idiv"] = [1, 63]
        d["fdiv"] = [1, 63]
        d["mdiv"] = [2, 127]
        d["odiv"] = [1, 128]
        d["literal"] += ["IDIV 1..63, FBDIV 1..63, MDIV 2..127 (loop bounds)", "ODIV 1..128 (comment on ODIV0_SEL)"]
    elif kind == "trion":
        d["m0only"] = 1        # EFINIXPLL.compute_config ignores the margin argument (exact match only)
        dev = variant
        d["vco"] = _frange(p.get_vco_freq_range(dev), nm + ".get_vco_freq_range")
        d["pfd"] = _frange(p.get_pfd_freq_range(dev), nm + ".get_pfd_freq_range")
        d["pll"] = _frange(p.get_pll_freq_range(dev), nm + ".get_pll_freq_range")
        cr = p.get_c_range(dev, 0)
        d["c"] = [int(min(cr)), int(max(cr))]
        d["cph"] = {str(ph): [int(x) for x in p.get_c_range(dev, ph)] for ph in (45, 90, 135, 180, 270)}
        d["nn"] = [1, 15]
        d["mm"] = [1, 255]
        d["moc"] = 255
        d["literal"] += ["N 1..15, M 1..255, M*O*Cfbk <= 255, O in {1,2,4,8} ({2,4,8} with several outputs)"]
    return d


def device_table(helpers=None):
    out = []
    for h in (helpers or HELPERS):
        for v in HELPERS[h][4]:
            out.append(describe(h, v))
    return out


# ---------------------------------------------------------------------------------------- execution
@contextlib.contextmanager
def _quiet():
    prev = logging.root.manager.disable
    logging.disable(logging.CRITICAL)
    try:
        with contextlib.redirect_stdout(io.StringIO()):
            yield
    finally:
        logging.disable(prev)


def _num8(v):
    """a number as an integer count of 1/8, or None"""
    if isinstance(v, bool):
        return int(v) * SC
    if isinstance(v, int):
        return v * SC if abs(v) < (1 << 26) else None
    if isinstance(v, float):
        x = v * SC
        if x == int(x) and abs(x) < (1 << 28):
            return int(x)
    return None


_INT_RE = re.compile(r"^-?\d+$")


def _encode_dict(dct, sigmap):
    """-> (numbers x8, strings, signals as 1-based request indices)"""
    num, txt, sig = {"_": 0}, {"_": ""}, {"_": 0}
    for k, v in dct.items():
        k = str(k)
        vv = getattr(v, "value", v) if type(v).__name__ == "Constant" else v
        n8 = _num8(vv)
        if n8 is not None:
            num[k] = n8
        elif isinstance(vv, str):
            txt[k] = vv
            if _INT_RE.match(vv) and abs(int(vv)) < (1 << 26):
                num[k] = int(vv) * SC
        elif vv is None:
            txt[k] = "None"
        elif id(vv) in sigmap:
            sig[k] = sigmap[id(vv)]
        else:
            txt[k] = "?" + type(vv).__name__
    return num, txt, sig


def execute(req):
    """run one request on the real helper. req: dict(h, v, fin, vm=[n,d], outs=[[f, phase, mn, md], ...])
    frequencies in UNITs.  Returns the case record for the judge (without 'dev')."""
    from migen import Signal, ClockDomain
    from migen.fhdl.specials import Instance
    h, v = req["h"], req["v"]
    modname, kind, sub, prims, variants = HELPERS[h]
    case = {"req": req, "res": "refused", "exc": "", "msg": "", "stage": "",
            "cfg": {"_": 0}, "cfgs": {"_": ""}, "cfgo": {"_": 0}, "hascfg": 0,
            "inst": {"of": "", "n": 0, "p": {"_": 0}, "s": {"_": ""}, "o": {"_": 0}}}
    captured = []
    with _quiet():
        stage = "construct"
        try:
            pll = construct(h, v)
            if req.get("vm", [0, 1])[0] != 0:
                pll.vco_margin = req["vm"][0] / req["vm"][1]
            stage = "register_clkin"
            if sub == "trion":
                pll.register_clkin(None, req["fin"] * UNIT, name="clkin")
            else:
                pll.register_clkin(Signal(name="clkin"), req["fin"] * UNIT)
            stage = "create_clkout"
            for i, (f, ph, mn, md) in enumerate(req["outs"]):
                margin = mn / md
                if sub == "ice40":
                    pll.create_clkout(ClockDomain("c%d" % i), f * UNIT, margin=margin)
                elif sub == "trion":
                    pll.create_clkout(None, f * UNIT, phase=ph, margin=margin, name="out%d" % i,
                                      is_feedback=(i == req.get("fbk", 0)))
                else:
                    pll.create_clkout(ClockDomain("c%d" % i), f * UNIT, phase=ph, margin=margin)
            orig = pll.compute_config

            def wrapped():
                c = orig()
                captured.append(c)
                return c
            pll.compute_config = wrapped
            stage = "finalize"
            pll.finalize()
            stage = "done"
        except Exception as ex:                              # any exception is a refusal of the request
            case["exc"] = type(ex).__name__
            case["msg"] = str(ex)[:200]
            case["stage"] = stage
        # request clock signals (by identity) -> 1-based index
        sigmap = {}
        try:
            if sub == "trion":
                pass
            else:
                couts = getattr(pll, "clkouts", {})
                for i in range(len(req["outs"])):
                    if i in couts:
                        sigmap[id(couts[i][0])] = i + 1
        except Exception:
            pass
        cfg = captured[-1] if captured else None
        if sub == "trion" and stage == "done":
            blk = pll.platform.toolchain.ifacewriter.get_block(pll.name)
            cfg = {k: blk[k] for k in blk if k in ("M", "N", "O", "feedback") or k.endswith("_DIV")}
        if isinstance(cfg, dict):
            case["hascfg"] = 1
            case["cfg"], case["cfgs"], case["cfgo"] = _encode_dict(cfg, sigmap)
        if stage == "done":
            case["res"] = "ok"
            if sub == "trion":
                # no Instance: the configuration placed in the interface-designer block IS what is emitted
                case["inst"] = {"of": "TRIONPLL", "n": 1, "p": dict(case["cfg"]), "s": {"_": ""}, "o": {"_": 0}}
            else:
                insts = [s for s in pll._fragment.specials if isinstance(s, Instance) and s.of in prims]
                case["inst"]["n"] = len(insts)
                if len(insts) == 1:
                    ins = insts[0]
                    params = {i.name: i.value for i in ins.items if isinstance(i, Instance.Parameter)}
                    outs = {i.name: i.expr for i in ins.items if isinstance(i, Instance.Output)}
                    p, s, _ = _encode_dict(params, {})
                    _, _, o = _encode_dict(outs, sigmap)
                    case["inst"] = {"of": ins.of, "n": 1, "p": p, "s": s, "o": o}
    return case


def run_request(req):
    try:
        return execute(req)
    except Exception as ex:                                  # harness failure, not a verdict
        return {"req": req, "harness_error": "%s: %s" % (type(ex).__name__, ex)}
