"""L2 lane of the AXI-Lite interconnect family (C08): model configurations, register projection, the netlist with
BOTH directions driven (M-mode replays, run conformance), M-mode sweeps
(specs/axilic/AxiLiteIcModel.tla, AxiLiteIcModelM.tla, AxiLiteIcModelConf.tla)."""
from . import axilic as fam
from ..l2 import Lane

SIZE = 0x40


def model_cfg(spec, cfg=None):
    """python spec of harness.families.axilic (or of make_rw below) -> configuration of AxiLiteIcModel, or None"""
    if spec.get("timeout"):
        return None                    # AXILiteTimeout is not modelled (C11's family)
    if spec["kind"] not in ("p2p", "arbiter", "decoder", "shared", "crossbar"):
        return None
    return {"kind": spec["kind"], "n": spec["n"], "m": spec["m"], "dirs": spec["dir"],
            "bases": [org for org, _ in fam._regions(spec)], "size": SIZE, "idle": int(spec.get("idle_addr", 0))}


# ------------------------------------------------------------------------------ projection
def _chan_of_lock(lock):
    """'write' / 'read': which channel a _AXILiteRequestCounter counts, read off its request expression
    (<x>.aw.valid & <x>.aw.ready  or  <x>.ar.valid & <x>.ar.ready)"""
    stmts = lock._fragment.sync.get("sys", [])
    if len(stmts) != 1 or not hasattr(stmts[0], "cond"):
        raise KeyError("_AXILiteRequestCounter: unexpected sync statements")
    req = stmts[0].cond.operands[0]
    names = sorted((getattr(o, "backtrace", None) or [("?", 0)])[-1][0] for o in getattr(req, "operands", []))
    if names == ["aw_ready", "aw_valid"]:
        return "write"
    if names == ["ar_ready", "ar_valid"]:
        return "read"
    raise KeyError("_AXILiteRequestCounter: request is %r" % (names,))


def _arbiter_regs(arb, n, regs):
    out = {}
    for key, rr, lock, chan in (("write", arb.rr_write, arb.wr_lock, "write"), ("read", arb.rr_read, arb.rd_lock, "read")):
        if _chan_of_lock(lock) != chan:
            raise KeyError("AXILiteArbiter: %s lock counts the %s channel" % (key, _chan_of_lock(lock)))
        if rr.grant in regs:
            out["rr_" + key] = rr.grant
        elif n == 1:
            out["rr_" + key] = 0            # RoundRobin(1): grant is the constant 0
        else:
            raise KeyError("AXILiteArbiter: rr_%s.grant is not a register" % key)
    out["wr_lock"] = arb.wr_lock.counter
    out["rd_lock"] = arb.rd_lock.counter
    return out


def _decoder_regs(dec):
    from litex.soc.interconnect.axi.axi_lite import _AXILiteRequestCounter
    locks = {}
    for _, sub in dec._submodules:
        if isinstance(sub, _AXILiteRequestCounter):
            ch = _chan_of_lock(sub)
            if ch in locks:
                raise KeyError("AXILiteDecoder: two %s locks" % ch)
            locks[ch] = sub
    if sorted(locks) != ["read", "write"]:
        raise KeyError("AXILiteDecoder: locks %r" % sorted(locks))
    out = {"lock_write": locks["write"].counter, "lock_read": locks["read"].counter}
    # slave_sel_reg[ch] is the register loaded under  If(locks[ch].ready ..., slave_sel_reg[ch].eq(slave_sel_dec[ch]))
    def mentions(e, sig):
        return e is sig or any(mentions(o, sig) for o in getattr(e, "operands", []))
    for st in dec._fragment.sync.get("sys", []):
        cond = getattr(st, "cond", None)
        for ch in ("write", "read"):
            if cond is not None and mentions(cond, locks[ch].ready):
                tgt = [a.l for a in st.t if hasattr(a, "l")]
                if len(tgt) != 1 or "sel_" + ch in out:
                    raise KeyError("AXILiteDecoder: slave_sel_reg[%s] not identified" % ch)
                out["sel_" + ch] = tgt[0]
    if "sel_write" not in out or "sel_read" not in out:
        raise KeyError("AXILiteDecoder: slave_sel_reg not found")
    return out


def _parts(spec, ic):
    """(arbiters, decoders) of the interconnect, in the order of the model (crossbar: one decoder per master, one
    arbiter per slave, in the order the code creates them)"""
    from litex.soc.interconnect.axi.axi_lite import AXILiteArbiter, AXILiteDecoder
    kind = spec["kind"]
    if kind == "p2p":
        return [], []
    if kind == "arbiter":
        return [ic], []
    if kind == "decoder":
        return [], [ic]
    if kind == "shared":
        return [ic.arbiter], [ic.decoder]
    subs = [m for _, m in ic._submodules]
    decs = [m for m in subs if isinstance(m, AXILiteDecoder)]
    arbs = [m for m in subs if isinstance(m, AXILiteArbiter)]
    if len(decs) != spec["n"] or len(arbs) != spec["m"] or subs != decs + arbs:
        raise KeyError("AXILiteCrossbar: %d decoders, %d arbiters" % (len(decs), len(arbs)))
    return arbs, decs


def proj(spec, st):
    """{register name of AxiLiteIcModel: [Signal, ...] | [0, ...]} for the DUT built by harness.families.axilic.make or
    make_rw.  The registers are reached through the objects of the elaborated design (arbiter.rr_write.grant,
    arbiter.wr_lock.counter, the decoder's lock submodules identified by the channel they count, slave_sel_reg by the
    statement that loads it); anything unexpected raises."""
    top = st.dut
    regs = set(st.regs)
    arbs, decs = _parts(spec, top.ic)
    r = {k: [] for k in ("rr_write", "rr_read", "wr_lock", "rd_lock", "sel_write", "sel_read", "lock_write", "lock_read",
                         "tbw_ca", "tbw_cw", "tbw_hold", "tbr_ca", "tbr_hold")}
    for a in arbs:
        for k, v in _arbiter_regs(a, spec["n"], regs).items():
            r[k].append(v)
    for d in decs:
        for k, v in _decoder_regs(d).items():
            r[k].append(v)
    if spec["dir"] == "rw":
        tbw, tbr = top.tb_regs_w, top.tb_regs_r
    else:
        tbw = top.tb_regs if spec["dir"] == "w" else [None] * spec["m"]
        tbr = top.tb_regs if spec["dir"] == "r" else [None] * spec["m"]
    if len(tbw) != spec["m"] or len(tbr) != spec["m"]:
        raise KeyError("test bench registers: %d/%d slaves" % (len(tbw), len(tbr)))
    for t in tbw:
        r["tbw_ca"].append(t["ca"] if t else 0)
        r["tbw_cw"].append(t["cw"] if t else 0)
        r["tbw_hold"].append(t["hold"] if t else 0)
    for t in tbr:
        r["tbr_ca"].append(t["ca"] if t else 0)
        r["tbr_hold"].append(t["hold"] if t else 0)
    # every register of the netlist must be accounted for (none of them is dead: all feed an output)
    named = {s for v in r.values() for s in v if not isinstance(s, int)}
    if named != regs:
        raise KeyError("projection covers %d of %d registers of the netlist" % (len(named & regs), len(regs)))
    return r


LANE = Lane("axilic", "axilic/AxiLiteIcModelConf", model_cfg, "harness.families.axilic_l2:proj",
            m_module="axilic/AxiLiteIcModelM")


# ------------------------------------------------------------------------------ both directions in one netlist
def make_rw(spec):
    """the interconnect of harness.families.axilic.make with BOTH directions driven by the same kind of test bench:
    inputs = write-direction inputs (per master av, tgt, wv, rr; per slave ar, wr, rv) followed by the read-direction
    inputs in the same format (wv / wr unused); outputs likewise (formats of AxiLiteIcContract)."""
    from migen import Module, Signal, Array, Constant, Mux
    from litex.soc.interconnect.axi import axi_lite
    from litex.soc.integration.soc import SoCRegion
    assert spec["dir"] == "rw" and not spec.get("timeout")
    n, m = spec["n"], spec["m"]
    AW = fam.AW
    regs = fam._regions(spec)
    idle = spec.get("idle_addr", 0)
    top = Module()
    masters = [axi_lite.AXILiteInterface(data_width=32, address_width=AW) for _ in range(n)]
    slaves = [axi_lite.AXILiteInterface(data_width=32, address_width=AW) for _ in range(m)]
    ins = {"w": [], "r": []}
    outs = {"w": [], "r": []}
    for i, mi in enumerate(masters):
        arr = Array([Constant(0, AW)] + [Constant(org + 4 * (i + 1), AW) for org, _ in regs])
        av, tgt, wv, rr = Signal(), Signal(max=m + 2), Signal(), Signal()
        ins["w"] += [av, tgt, wv, rr]
        top.comb += [mi.aw.valid.eq(av), mi.aw.addr.eq(Mux(av, arr[tgt], idle)), mi.w.valid.eq(wv), mi.w.data.eq(i + 1),
                     mi.w.strb.eq(0xf), mi.b.ready.eq(rr)]
        av, tgt, wv, rr = Signal(), Signal(max=m + 2), Signal(), Signal()
        ins["r"] += [av, tgt, wv, rr]
        top.comb += [mi.ar.valid.eq(av), mi.ar.addr.eq(Mux(av, arr[tgt], idle)), mi.r.ready.eq(rr)]
    top.tb_regs_w, top.tb_regs_r = [], []
    for j, sj in enumerate(slaves):
        # write direction
        ar_, wr_, rv = Signal(), Signal(), Signal()
        ins["w"] += [ar_, wr_, rv]
        ca, cw, hold = Signal(3), Signal(3), Signal()
        top.comb += [sj.aw.ready.eq(ar_), sj.w.ready.eq(wr_), sj.b.resp.eq(j + 1),
                     sj.b.valid.eq(rv & (((ca != 0) & (cw != 0)) | hold))]
        afire, wfire, rfire = sj.aw.valid & sj.aw.ready, sj.w.valid & sj.w.ready, sj.b.valid & sj.b.ready
        top.sync += [ca.eq(ca + afire - rfire), cw.eq(cw + wfire - rfire), hold.eq(sj.b.valid & ~sj.b.ready)]
        top.tb_regs_w.append({"ca": ca, "cw": cw, "hold": hold})
        # read direction
        ar_, wr_, rv = Signal(), Signal(), Signal()
        ins["r"] += [ar_, wr_, rv]
        ca, hold = Signal(3), Signal()
        top.comb += [sj.ar.ready.eq(ar_), sj.r.resp.eq(j + 1), sj.r.data.eq(j + 1), sj.r.valid.eq(rv & ((ca != 0) | hold))]
        afire, rfire = sj.ar.valid & sj.ar.ready, sj.r.valid & sj.r.ready
        top.sync += [ca.eq(ca + afire - rfire), hold.eq(sj.r.valid & ~sj.r.ready)]
        top.tb_regs_r.append({"ca": ca, "hold": hold})
    decoders = [(SoCRegion(origin=org, size=size).decoder(masters[0]), sj) for (org, size), sj in zip(regs, slaves)]
    kind = spec["kind"]
    if kind == "shared":
        ic = axi_lite.AXILiteInterconnectShared(masters, decoders, timeout_cycles=None)
    elif kind == "crossbar":
        ic = axi_lite.AXILiteCrossbar(masters, decoders, timeout_cycles=None)
    elif kind == "arbiter":
        assert m == 1
        ic = axi_lite.AXILiteArbiter(masters, slaves[0])
    elif kind == "decoder":
        assert n == 1
        ic = axi_lite.AXILiteDecoder(masters[0], decoders)
    elif kind == "p2p":
        ic = axi_lite.AXILiteInterconnectPointToPoint(masters[0], slaves[0])
    else:
        raise ValueError(kind)
    top.submodules.ic = ic
    for mi in masters:
        outs["w"] += [mi.aw.ready, mi.w.ready, mi.b.valid, mi.b.resp]
        outs["r"] += [mi.ar.ready, Constant(0), mi.r.valid, Mux(mi.r.resp == mi.r.data[:2], mi.r.resp, 7)]
    for sj in slaves:
        outs["w"] += [sj.aw.valid, sj.aw.addr, sj.w.valid, sj.w.data[:4], sj.b.ready]
        outs["r"] += [sj.ar.valid, sj.ar.addr, Constant(0), Constant(0), sj.r.ready]
    outs["w"].append(Constant(0))
    outs["r"].append(Constant(0))
    return top, ins["w"] + ins["r"], outs["w"] + outs["r"]


def make_any(spec):
    """factory of the lane: one-direction netlists of the family, or the netlist with both directions"""
    return make_rw(spec) if spec["dir"] == "rw" else fam.make(spec)


def split_event(spec, iv, o):
    """<<iv, o>> of the rw netlist -> ((ivw, ow), (ivr, or))"""
    ni = 4 * spec["n"] + 3 * spec["m"]
    no = 4 * spec["n"] + 5 * spec["m"] + 1
    return (list(iv[:ni]), list(o[:no])), (list(iv[ni:]), list(o[no:]))


# ------------------------------------------------------------------------------ M-mode sweeps
def mcfg(kind, n, m, kw=1, kr=1, mfw=None, sfw=None, mfr=None, sfr=None, actw=None, actr=None, chkx=0, earlyw=0, xslave=0):
    """one M-mode configuration: both directions in one product.  kw / kr: outstanding requests per master and per
    slave in the write / read direction (0: the direction stays idle); mfw/sfw/mfr/sfr: which masters / slaves have the
    environment's full freedom in that direction (AxiLiteIcContract: mfree / sfree); actw / actr: which masters issue
    requests in that direction at all"""
    spec = {"kind": kind, "n": n, "m": m, "dir": "rw", "earlyw": earlyw, "xslave": xslave}
    cw = fam.tla_cfg(dict(spec, dir="w", k=kw, mfree=list(mfw or [0] * n), sfree=list(sfw or [0] * m)))
    cr = fam.tla_cfg(dict(spec, dir="r", k=kr, mfree=list(mfr or [0] * n), sfree=list(sfr or [0] * m)))
    return {"cw": cw, "cr": cr, "m": model_cfg(spec), "chkx": int(chkx), "spec": spec,
            "actw": list(actw or [1] * n), "actr": list(actr or [1] * n)}


# ------------------------------------------------------------------------------ recorded runs of the rw netlist
class _DirEnv:
    """stimulus generator of one direction: draws, cycle by cycle, moves that MasterMoves / SlaveMoves of
    AxiLiteIcContract allow for ports with full freedom (mfree = sfree = 1, earlyw = xslave = 0), keeping the same
    book-keeping from the observed handshakes as the contract's monitor does.  It only PRODUCES stimuli: whether they are
    legal and what the netlist did with them is judged by TLC (AxiLiteIcModelRwTrace: EnvLegal and the clauses)."""
    def __init__(self, n, m, k, wr, bases, rnd, pa, pw, pr, psa, psr):
        self.n, self.m, self.k, self.wr, self.bases, self.rnd = n, m, k, wr, bases, rnd
        self.p = (pa, pw, pr, psa, psr)
        self.ah = [0] * n
        self.wh = [0] * n
        self.aq = [[] for _ in range(n)]
        self.nw = [0] * n
        self.qa = [[] for _ in range(m)]
        self.qw = [0] * m
        self.rh = [0] * m

    def draw(self):
        rnd = self.rnd
        pa, pw, pr, psa, psr = self.p
        iv = []
        for i in range(self.n):
            can_a = len(self.aq[i]) < self.k
            can_w = self.wr and self.nw[i] < self.k
            if self.ah[i]:
                t = self.ah[i]
            elif can_a and rnd.random() < pa:
                t = self.aq[i][0] if self.aq[i] else rnd.randint(1, self.m)
            else:
                t = 0
            if self.wh[i]:
                w = 1
            elif can_w and self.nw[i] + 1 <= len(self.aq[i]) + (1 if t else 0):
                w = int(rnd.random() < pw)
            else:
                w = 0
            iv += [1 if t else 0, t, w, int(rnd.random() < pr)]
        for j in range(self.m):
            a = int(len(self.qa[j]) < self.k and rnd.random() < psa)
            w = int(self.wr and self.qw[j] < self.k and rnd.random() < psa)
            r = 1 if self.rh[j] else int(rnd.random() < psr)
            iv += [a, w, r]
        return iv

    def observe(self, iv, o):
        n, m = self.n, self.m
        mv = [iv[4 * i:4 * i + 4] for i in range(n)]
        sv = [iv[4 * n + 3 * j:4 * n + 3 * j + 3] for j in range(m)]
        mo = [o[4 * i:4 * i + 4] for i in range(n)]
        so = [o[4 * n + 5 * j:4 * n + 5 * j + 5] for j in range(m)]
        m_afire = [mv[i][0] == 1 and mo[i][0] == 1 for i in range(n)]
        m_wfire = [mv[i][2] == 1 and mo[i][1] == 1 for i in range(n)]
        m_rfire = [mo[i][2] == 1 and mv[i][3] == 1 for i in range(n)]
        owed = [len(self.qa[j]) >= 1 and (not self.wr or self.qw[j] >= 1) for j in range(m)]
        s_rvalid = [sv[j][2] == 1 and (owed[j] or self.rh[j] == 1) for j in range(m)]
        s_afire = [so[j][0] == 1 and sv[j][0] == 1 for j in range(m)]
        s_wfire = [so[j][2] == 1 and sv[j][1] == 1 for j in range(m)]
        s_rfire = [s_rvalid[j] and so[j][4] == 1 for j in range(m)]
        for i in range(n):
            if m_rfire[i] and self.aq[i]:
                self.aq[i].pop(0)
            if m_afire[i]:
                self.aq[i].append(mv[i][1])
            self.nw[i] += int(m_wfire[i]) - int(m_rfire[i] and self.nw[i] > 0)
            self.ah[i] = mv[i][1] if mv[i][0] == 1 and not m_afire[i] else 0
            self.wh[i] = 1 if mv[i][2] == 1 and not m_wfire[i] else 0
        for j in range(m):
            ms = [i for i in range(n) if mv[i][0] == 1 and mv[i][1] == j + 1 and so[j][1] == self.bases[j] + 4 * (i + 1)]
            if s_rfire[j] and self.qa[j]:
                self.qa[j].pop(0)
            if s_afire[j] and ms:
                self.qa[j].append(ms[0])
            self.qw[j] += int(s_wfire[j]) - int(s_rfire[j] and self.qw[j] > 0)
            self.rh[j] = 1 if s_rvalid[j] and not s_rfire[j] else 0


def rw_run(spec, k, ncycles, rnd, profile):
    """cycle-by-cycle run of the real rw netlist on the reference evaluator (no state loading) under concurrent write
    and read traffic -> (reset projection, cases [[r, iv, o, r2], ...]) for the conformance judge; ev = [c[1], c[2]]"""
    from ..fhdl_step import Stepper
    from .. import l2
    dut, ins, outs = make_rw(spec)
    st = Stepper(dut, ins, outs, engine="ref")
    ix = l2.proj_index(st, LANE.proj_path, spec)
    st.load(st.reset_state, tuple(0 for _ in ins))
    reset = l2.project(ix, st.state())
    bases = [org for org, _ in fam._regions(spec)]
    ew = _DirEnv(spec["n"], spec["m"], k, True, bases, rnd, *profile)
    er = _DirEnv(spec["n"], spec["m"], k, False, bases, rnd, *profile)
    cases = []
    for _ in range(ncycles):
        ivw, ivr = ew.draw(), er.draw()
        iv = ivw + ivr
        pre = l2.project(ix, st.state())
        st.load(st.state(), tuple(iv))
        o = [int(x) for x in st.peek()]
        st.tick()
        (_, ow), (_, orr) = split_event(spec, iv, o)
        ew.observe(ivw, ow)
        er.observe(ivr, orr)
        cases.append([pre, iv, o, l2.project(ix, st.state())])
    return reset, cases


def rw_tcfg(spec, k, stallbound=64, earlyw=0, xslave=0):
    """contract configurations of the two directions for judging a run of the rw netlist (every port free)"""
    n, m = spec["n"], spec["m"]
    base = dict(spec, k=k, mfree=[1] * n, sfree=[1] * m, earlyw=earlyw, xslave=xslave)
    return {"cw": fam.tla_cfg(dict(base, dir="w")), "cr": fam.tla_cfg(dict(base, dir="r")), "stallbound": stallbound}


def mmode_configs(tier):
    """the M-mode sweep.  Both directions are in every product; the cost of a product is (transitions of the write
    side) x (transitions of the read side), so each configuration gives one direction the traffic under study and the
    other a small environment (or keeps it idle, k = 0).  Measured sizes in the comments (distinct states / transitions).
    Every configuration stays inside the environment flags earlyw = 0, xslave = 0 (listed findings of C08)."""
    L = []

    def add(*a, **kw):
        witness = kw.pop("witness", False)
        x = mcfg(*a, **kw)
        x["witness"] = witness
        L.append(x)
    # write of master 1 stalled by its slave while master 2 reads (and the read side stalls too): 261 / 19 k
    add("shared", 2, 2, kw=1, kr=1, actw=[1, 0], sfw=[1, 0], actr=[0, 1], sfr=[0, 1], chkx=1, witness=True)
    # 3 x 3, both directions: two masters write through the arbiter while the third reads: 669 / 9 k
    add("shared", 3, 3, kw=3, kr=1, actw=[1, 1, 0], actr=[0, 0, 1])
    # one direction at 3 x 3 with 3 outstanding (the other idle)
    add("shared", 3, 3, kw=3, kr=0)                                            # 475 / 4.2 k
    add("crossbar", 3, 3, kw=0, kr=3, actr=[1, 1, 0])                          # 305 / 2.0 k
    add("decoder", 1, 3, kw=3, kr=0, mfw=[1], sfw=[1, 0, 0])                   # 229 / 8.1 k
    if tier == "thorough":
        # 3 x 3, both directions, up to 3 writes of master 1 outstanding at a slave that may delay addresses, data and
        # responses for ever, while master 3 reads: 448 / 16 k
        add("shared", 3, 3, kw=3, kr=1, actw=[1, 0, 0], sfw=[1, 0, 0], actr=[0, 0, 1])
        add("arbiter", 3, 1, kw=0, kr=3, mfr=[1, 0, 0], sfr=[1])               # 364 / 9.4 k
        # both directions
        add("shared", 3, 3, kw=3, kr=1, actw=[1, 1, 0], actr=[0, 0, 1], sfr=[0, 0, 1])             # 1333 / 58 k
        add("shared", 3, 3, kw=1, kr=3, actw=[0, 0, 1], sfw=[0, 0, 1], actr=[1, 1, 0])
        add("crossbar", 3, 3, kw=3, kr=1, actw=[1, 0, 0], sfw=[1, 0, 0], actr=[0, 0, 1])           # 1789 / 65 k
        add("crossbar", 2, 2, kw=2, kr=1, actr=[0, 1], sfr=[0, 1], chkx=1)                         # 2249 / 74 k
        add("decoder", 1, 3, kw=3, kr=1, mfw=[1], sfr=[0, 0, 1], chkx=1)
        add("p2p", 1, 1, kw=3, kr=2, mfw=[1], sfw=[1], sfr=[1], chkx=1)
        # one direction
        add("shared", 3, 3, kw=3, kr=0, sfw=[1, 0, 0])                         # 2629 / 109 k
        add("shared", 3, 3, kw=0, kr=3, sfr=[0, 1, 0])
        add("crossbar", 3, 3, kw=3, kr=0)                                      # 2815 / 40 k
        add("crossbar", 3, 3, kw=0, kr=3)                                      # 2815 / 40 k
        add("crossbar", 3, 3, kw=2, kr=0, mfw=[1, 0, 0], actw=[1, 1, 0])       # 1437 / 20 k
        add("crossbar", 3, 3, kw=3, kr=0, sfw=[1, 0, 0], actw=[1, 1, 0])       # 1817 / 55 k
        add("arbiter", 3, 1, kw=3, kr=0, mfw=[0, 1, 0], sfw=[1])
    return L
