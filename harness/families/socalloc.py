"""C13 executors: perform TLC-enumerated call histories on the REAL LiteX allocators and record,
after every call, the outcome and the projected API-visible state.

Nothing here decides what is correct; the recorded nodes are judged by specs/socalloc/SocAllocTrace.tla.

bus  : litex.soc.integration.soc.SoCBusHandler / SoCRegion / SoCIORegion (+ bus.finalize())
loc  : SoCCSRHandler / SoCIRQHandler (SoCLocHandler.add/alloc)
plat : litex.build.generic_platform.GenericPlatform (ConstraintManager)

A node is one history prefix.  ``visit(fam, cfg, prefix)`` re-executes the whole prefix on fresh
objects (so that ``finalize`` can be applied to every prefix exactly as a design would do it, once,
at the end) and returns the record of the LAST call.
"""
import logging
import math
import signal
import sys
import threading

AS = 16                 # address space in units (SocAlloc.tla)
AUTO = -1
LAUTO = -100

_litex = None


class L:
    """lazily imported LiteX names (the CLI installs the 3.12 tracer shim first)"""
    pass


def litex():
    global _litex
    if _litex is None:
        from litex.soc.integration import soc as socmod
        from litex.soc.interconnect import wishbone, axi
        from litex.build import generic_platform as gp
        from litex.gen.sim.core import Evaluator
        from migen import Signal, Cat, Record
        from migen.fhdl import tracer
        L.soc, L.wishbone, L.axi, L.gp, L.Evaluator = socmod, wishbone, axi, gp, Evaluator
        L.Signal, L.Cat, L.Record, L.tracer = Signal, Cat, Record, tracer
        _litex = L
    return _litex


def quiet(on=True):
    """SoCError is raised after the message went to the loggers: silence them."""
    logging.disable(logging.CRITICAL if on else logging.NOTSET)


def _reset_tracer():
    # migen keeps every object ever named in global tables (linear search): housekeeping only,
    # names play no role in allocation
    L.tracer.classname_to_objs.clear()
    L.tracer.name_to_idx.clear()


class HarnessHang(BaseException):
    """a call into LiteX did not return within CALL_TIMEOUT seconds"""


CALL_TIMEOUT = 3.0


def _alarm(signum, frame):
    raise HarnessHang()


def _call(fn):
    """-> (outcome, value): 'ok' or the exception class name.  SoCError.__init__ sets
    sys.stderr = None; restore it.  A call that does not return (an allocator looping for ever)
    is interrupted and recorded with outcome 'HarnessHang'; the state it left behind is still
    projected and judged."""
    err = sys.stderr
    timed = threading.current_thread() is threading.main_thread()
    if timed:
        old = signal.signal(signal.SIGALRM, _alarm)
        signal.setitimer(signal.ITIMER_REAL, CALL_TIMEOUT)
    try:
        return "ok", fn()
    except HarnessHang:
        return "HarnessHang", None
    except Exception as ex:            # noqa: any exception is 'rejected with an error'
        return type(ex).__name__, None
    finally:
        if timed:
            signal.setitimer(signal.ITIMER_REAL, 0)
            signal.signal(signal.SIGALRM, old)
        sys.stderr = err


# ======================================================================================= bus
class _StubBus:
    """what SoCRegion.decoder(bus) reads from a bus: its widths"""
    def __init__(self, address_width, data_width):
        self.address_width = address_width
        self.data_width = data_width


_dec_cache = {}
REDUCED = ((8, 32), (10, 64))     # reduced-width buses on which ALL word addresses are evaluated


def _eval_view(region, bus, unit, probes):
    """evaluate the real decoder expression with the reference Evaluator.
    probes: word offsets inside a unit (negative = from the end of the unit)"""
    lx = litex()
    out, fn = _call(lambda: region.decoder(bus))
    K = len(probes)
    if out != "ok":
        return {"k": K, "err": True, "sel": [], "exc": out}
    wbytes = bus.data_width // 8
    a = lx.Signal(bus.address_width - int(math.log2(wbytes)))
    out, expr = _call(lambda: fn(a))
    if out != "ok":
        return {"k": K, "err": True, "sel": [], "exc": out}
    ev = lx.Evaluator({}, {})
    wpu = unit // wbytes
    sel = []
    for u in range(AS):
        for j, k in enumerate(probes):
            word = u * wpu + (k if k >= 0 else wpu + k)
            if isinstance(expr, (bool, int)):
                v = int(expr)
            else:
                ev.signal_values[a] = word
                v = ev.eval(expr)
            if v & 1:                 # the interconnect assigns it to a 1-bit select
                sel.append(u * K + j)
    return {"k": K, "err": False, "sel": sel, "exc": ""}


def decoder_facts(region, aw, dw, unit):
    """views of SoCRegion.decoder: (1) the real bus widths, first/last two words of each of the 16
    units (= every window boundary +-1 of the unit grid, 0 and the top of the space);
    (2..) a region with the same unit-level origin/size on reduced-width buses, ALL word addresses."""
    lx = litex()
    key = (aw, dw, region.origin, region.size, region.size_pow2, region.decode)
    f = _dec_cache.get(key)
    if f is not None:
        return key, f
    views = [_eval_view(region, _StubBus(aw, dw), unit, (0, 1, -2, -1))]
    if region.origin % unit == 0 and region.size % unit == 0:
        for raw, rdw in REDUCED:
            runit = 1 << (raw - 4)
            rr = lx.soc.SoCRegion(origin=region.origin // unit * runit, size=region.size // unit * runit,
                                  mode=region.mode, cached=region.cached, linker=region.linker, decode=region.decode)
            wpu = runit // (rdw // 8)
            views.append(_eval_view(rr, _StubBus(raw, rdw), runit, tuple(range(wpu))))
    _dec_cache[key] = views
    return key, views


_IC = {"InterconnectPointToPoint": "p2p", "AXILiteInterconnectPointToPoint": "p2p", "AXIInterconnectPointToPoint": "p2p",
       "InterconnectShared": "shared", "AXILiteInterconnectShared": "shared", "AXIInterconnectShared": "shared",
       "Crossbar": "crossbar", "AXILiteCrossbar": "crossbar", "AXICrossbar": "crossbar"}

_if_pool = {}


def _interface(std, aw, dw, i):
    """bus interfaces for masters/slaves; pooled (their identity plays no role in allocation and
    nothing is ever elaborated)"""
    lx = litex()
    key = (std, aw, dw, i)
    itf = _if_pool.get(key)
    if itf is None:
        if std == "wishbone":
            itf = lx.wishbone.Interface(data_width=dw, address_width=aw)
        elif std == "axi-lite":
            itf = lx.axi.AXILiteInterface(data_width=dw, address_width=aw)
        else:
            itf = lx.axi.AXIInterface(data_width=dw, address_width=aw)
        _if_pool[key] = itf
    return itf


class _Recorder:
    """stands in for an interconnect class while SoCBusHandler.finalize runs: notes the (decoder,
    slave interface) pairs the handler hands to the REAL class, which it then instantiates"""
    def __init__(self, cls, log):
        self.cls, self.log = cls, log

    def __call__(self, *args, **kwargs):
        if "slaves" in kwargs:
            self.log.append(list(kwargs["slaves"]))
        elif len(args) >= 2 and isinstance(args[1], (list, tuple)):
            self.log.append(list(args[1]))
        return self.cls(*args, **kwargs)


_IC_CLASSES = (("wishbone", "InterconnectShared"), ("wishbone", "Crossbar"),
               ("axi", "AXILiteInterconnectShared"), ("axi", "AXILiteCrossbar"),
               ("axi", "AXIInterconnectShared"), ("axi", "AXICrossbar"))


def _finalize_recorded(bus):
    """bus.finalize() with the interconnect classes wrapped.  -> (outcome, list of slaves lists)"""
    lx = litex()
    log, saved = [], []
    for mod, name in _IC_CLASSES:
        m = getattr(lx.soc, mod)             # the module objects soc.py itself looks the classes up in
        cls = getattr(m, name)
        saved.append((m, name, cls))
        setattr(m, name, _Recorder(cls, log))
    try:
        fin, _ = _call(bus.finalize)
    finally:
        for m, name, cls in saved:
            setattr(m, name, cls)
    return fin, log


FDEC_PROBES = (0, -1)     # first and last word of each unit


def _final_decoders(bus, slaves, aw, dw, unit):
    """the decoders the handler handed to the interconnect, evaluated with the reference Evaluator
    at the first and last word of each of the 16 units.  -> list of {n, err, sel, k}"""
    lx = litex()
    names = {id(itf): n for n, itf in bus.slaves.items()}
    wbytes = dw // 8
    a = lx.Signal(aw - int(math.log2(wbytes)))
    wpu = unit // wbytes
    K = len(FDEC_PROBES)
    out = []
    for ent in slaves:
        try:
            fn, itf = ent
        except Exception:
            out.append({"n": "?", "k": K, "err": True, "sel": []})
            continue
        o, expr = _call(lambda: fn(a))
        rec = {"n": names.get(id(itf), "?"), "k": K, "err": o != "ok", "sel": []}
        if o == "ok":
            ev = lx.Evaluator({}, {})
            for u in range(AS):
                for j, k in enumerate(FDEC_PROBES):
                    word = u * wpu + (k if k >= 0 else wpu + k)
                    if isinstance(expr, (bool, int)):
                        v = int(expr)
                    else:
                        ev.signal_values[a] = word
                        v = ev.eval(expr)
                    if v & 1:
                        rec["sel"].append(u * K + j)
        out.append(rec)
    return out


def bus_cfg_record(cfg):
    cid, std, aw, dw, nm, ioc, ic, rsv = cfg
    return {"id": cid, "std": std, "aw": aw, "dw": dw, "nm": nm, "ioc": bool(ioc), "ic": ic, "rsv": rsv}


def bus_call_record(c):
    op, nm, o, s, cc, lk, sl, dc = c
    return {"op": op, "nm": nm, "o": o, "s": s, "c": bool(cc), "lk": bool(lk), "sl": bool(sl), "dc": bool(dc)}


def _units(x, unit, up=False):
    q, r = divmod(x, unit)
    return (q + (1 if (up and r) else 0)), bool(r)


def bus_visit(cfg, prefix, want_dec=True):
    """execute `prefix` (tuple of resolved call tuples) on a fresh SoCBusHandler of configuration
    cfg, then finalize it.  -> node record of the last call (or of the configuration if empty)"""
    lx = litex()
    soc = lx.soc
    cid, std, aw, dw, nmasters, ioc, ic, rsv = cfg
    unit = 1 << (aw - 4)
    _reset_tracer()
    prov = {}            # name -> provenance of the creating call
    out = "ok"
    nrsv = min(rsv, len(prefix))
    if nrsv:
        # the first rsv calls are delivered through the constructor (reserved_regions)
        reserved = {}
        for pos, c in enumerate(prefix[:nrsv], 1):
            op, nm, o, s, cc, lk, sl, dc = c
            if sl or nm in reserved or op not in ("add", "io"):
                raise ValueError("call %r cannot be a reserved region" % (c,))
            if op == "io":
                reserved[nm] = soc.SoCIORegion(origin=o * unit, size=s * unit, cached=False)
                prov[nm] = {"au": False, "ioc": False, "k": pos}
            else:
                reserved[nm] = soc.SoCRegion(origin=None if o == AUTO else o * unit, size=s * unit, cached=bool(cc),
                                             linker=bool(lk), decode=bool(dc))
                prov[nm] = {"au": o == AUTO, "ioc": bool(ioc) and o != AUTO, "k": pos}
        out, bus = _call(lambda: soc.SoCBusHandler(standard=std, data_width=dw, address_width=aw, interconnect=ic,
                                                   reserved_regions=reserved))
        if out != "ok":
            if len(prefix) > nrsv:
                return {"broken_prefix": True, "pos": nrsv, "out": out}
            # no handler exists: nothing was granted
            return {"f": "bus", "d": len(prefix), "out": out, "regs": [], "ios": [], "ms": [], "sls": [],
                    "call": bus_call_record(prefix[-1]), "fin": "none", "ic": "none", "fds": [], "rsv": nrsv,
                    "_decs": {}}
    else:
        bus = soc.SoCBusHandler(standard=std, data_width=dw, address_width=aw, interconnect=ic)
    bus.io_regions_check = bool(ioc)
    for m in range(nmasters):
        bus.add_master("cpu%d" % m, _interface(std, aw, dw, ("m", m)))
    for pos, c in enumerate(prefix, 1):
        if pos <= nrsv:
            continue
        op, nm, o, s, cc, lk, sl, dc = c
        if op == "io":
            region = soc.SoCIORegion(origin=o * unit, size=s * unit, cached=False)
            out, _ = _call(lambda: bus.add_region(nm, region))
            p = {"au": False, "ioc": False, "k": pos}
        elif op == "add":
            region = soc.SoCRegion(origin=None if o == AUTO else o * unit, size=s * unit, cached=bool(cc),
                                   linker=bool(lk), decode=bool(dc))
            p = {"au": o == AUTO, "ioc": bool(bus.io_regions_check) and o != AUTO, "k": pos}
            if sl:
                out, _ = _call(lambda: bus.add_slave(nm, _interface(std, aw, dw, ("s", pos)), region))
            else:
                out, _ = _call(lambda: bus.add_region(nm, region))
        elif op == "att":
            out, _ = _call(lambda: bus.add_slave(name=nm, slave=_interface(std, aw, dw, ("s", pos))))
            p = None
        elif op == "mst":
            out, _ = _call(lambda: bus.add_master(nm, _interface(std, aw, dw, ("m", "h%d" % pos))))
            p = None
        else:
            raise ValueError("unknown bus op %r" % (op,))
        if p is not None and (out == "ok" or nm not in prov):
            prov[nm] = p
        if out != "ok":
            if pos != len(prefix):
                return {"broken_prefix": True, "pos": pos, "out": out}
            break
    # projection of the API-visible state
    regs, deckeys, decs = [], [], {}
    for name, r in bus.regions.items():
        p = prov.get(name, {"au": False, "ioc": False, "k": 0})
        if not isinstance(r.origin, int):
            # a region without an address was granted: recorded off the grid at an impossible place
            o, f1, e, f2 = -1000, True, -1000 + _units(r.size, unit, up=True)[0], True
        else:
            o, f1 = _units(r.origin, unit)
            e, f2 = _units(r.origin + r.size, unit, up=True)
        p2, f3 = _units(r.size_pow2, unit, up=True)
        rec = {"n": name, "o": o, "s": e - o, "p2": p2, "fr": f1 or f2, "c": bool(r.cached), "lk": bool(r.linker),
               "dc": bool(r.decode), "md": r.mode, "au": p["au"], "ioc": p["ioc"], "k": p["k"],
               "sl": name in bus.slaves}
        if want_dec and isinstance(r.origin, int):
            key, views = decoder_facts(r, aw, dw, unit)
            decs[key] = views
            rec["dec"] = key
        elif want_dec:
            key = (aw, dw, "no-origin", r.size, r.size_pow2, r.decode)
            decs[key] = [{"k": 1, "err": True, "sel": [], "exc": "no origin"}]
            rec["dec"] = key
        regs.append(rec)
    ios = []
    for name, r in bus.io_regions.items():
        p = prov.get(name, {"k": 0})
        o, f1 = _units(r.origin, unit)
        e, f2 = _units(r.origin + r.size, unit, up=True)
        ios.append({"n": name, "o": o, "s": e - o, "p2": _units(r.size_pow2, unit, up=True)[0], "fr": f1 or f2,
                    "k": p["k"]})
    node = {"f": "bus", "d": len(prefix), "out": out, "regs": regs, "ios": ios,
            "ms": list(bus.masters.keys()), "sls": list(bus.slaves.keys()),
            "call": bus_call_record(prefix[-1]) if prefix else bus_call_record(("cfg", "", 0, 0, 0, 0, 0, 0)),
            "fin": "none", "ic": "none", "fds": [], "rsv": nrsv, "_decs": decs}
    if out == "ok":
        fin, log = _finalize_recorded(bus)
        node["fin"] = fin
        if fin == "ok":
            icn = type(getattr(bus, "_interconnect", None)).__name__
            node["ic"] = "none" if getattr(bus, "_interconnect", None) is None else _IC.get(icn, icn)
            if log:
                node["fds"] = _final_decoders(bus, log[-1], aw, dw, unit)
    return node


# ======================================================================================= loc
def loc_cfg_record(cfg):
    cid, kind, nl, p1, p2, rsv = cfg
    return {"id": cid, "kind": kind, "nl": nl, "p1": p1, "p2": p2, "rsv": rsv}


def loc_call_record(c):
    op, nm, n, re_ = c
    return {"op": op, "nm": nm, "n": n, "re": bool(re_)}


def loc_visit(cfg, prefix):
    soc = litex().soc
    cid, kind, nl, p1, p2, rsv = cfg
    _reset_tracer()
    out = "ok"
    prov = {}           # name -> provenance of the call that created the entry
    nrsv = min(rsv, len(prefix))
    if kind == "csr":
        if nrsv:
            # the first rsv requests are delivered through the constructor (reserved_csrs)
            reserved = {}
            for pos, c in enumerate(prefix[:nrsv], 1):
                op, nm, n, re_ = c
                if re_ or nm in reserved:
                    raise ValueError("call %r cannot be a reserved location" % (c,))
                reserved[nm] = None if n == LAUTO else n
                prov[nm] = {"au": n == LAUTO, "k": pos}
            out, h = _call(lambda: soc.SoCCSRHandler(data_width=32, address_width=p1, alignment=32, paging=p2,
                                                     reserved_csrs=reserved))
            if out != "ok":
                if len(prefix) > nrsv:
                    return {"broken_prefix": True, "pos": nrsv, "out": out}
                return {"f": "loc", "d": len(prefix), "out": out, "fin": "n/a", "locs": [], "nlobj": -1, "rsv": nrsv,
                        "call": loc_call_record(prefix[-1])}
        else:
            h = soc.SoCCSRHandler(data_width=32, address_width=p1, alignment=32, paging=p2)
    else:
        if rsv:
            raise ValueError("reserved locations are only modelled for the CSR handler")
        h = soc.SoCIRQHandler(n_irqs=p1)
        if kind == "irq":
            h.enable()
    for pos, c in enumerate(prefix, 1):
        if pos <= nrsv:
            continue
        op, nm, n, re_ = c
        had = nm in h.locs
        out, _ = _call(lambda: h.add(nm, n=None if n == LAUTO else n, use_loc_if_exists=bool(re_)))
        if out == "ok" and not (had and re_):
            prov[nm] = {"au": n == LAUTO, "k": pos}
        if out != "ok":
            if pos != len(prefix):
                return {"broken_prefix": True, "pos": pos, "out": out}
            break
    locs = []
    for name, v in h.locs.items():
        p = prov.get(name, {"au": False, "k": 0})
        locs.append({"n": name, "au": p["au"], "k": p["k"],
                     "v": v if isinstance(v, int) and not isinstance(v, bool) and abs(v) < 2**30 else -2**30})
    return {"f": "loc", "d": len(prefix), "out": out, "fin": "n/a", "locs": locs, "nlobj": h.n_locs, "rsv": nrsv,
            "call": loc_call_record(prefix[-1]) if prefix else loc_call_record(("cfg", "", 0, 0))}


# ======================================================================================= plat
def plat_cfg_record(cfg):
    cid, io = cfg
    return {"id": cid, "io": [{"n": r[0], "u": r[1], "subs": [{"sub": s[0], "pins": list(s[1])} for s in r[2]]}
                              for r in io]}


def plat_call_record(c):
    op, nm, sub, u, lo = c
    return {"op": op, "nm": nm, "sub": sub, "u": u, "lo": bool(lo)}


def _plat_io(cfg):
    gp = litex().gp
    io = []
    for name, number, subs in cfg[1]:
        els = []
        for sub, pins in subs:
            if sub == "":
                els.append(gp.Pins(" ".join(pins)))
            else:
                els.append(gp.Subsignal(sub, gp.Pins(" ".join(pins))))
        io.append((name, number) + tuple(els))
    return io


def plat_visit(cfg, prefix):
    lx = litex()
    gp = lx.gp
    _reset_tracer()
    plat = gp.GenericPlatform("dev", _plat_io(cfg), name="c13")
    cm = plat.constraint_manager
    objs = []           # identity table of granted objects

    def oid(o):
        for i, x in enumerate(objs):
            if x is o:
                return i
        objs.append(o)
        return len(objs) - 1

    def describe(r):
        if r is None:
            return {"t": "none", "ids": [], "sub": ""}
        for _, o in cm.matched:
            if o is r:
                return {"t": "obj", "ids": [oid(o)], "sub": ""}
        for _, o in cm.matched:
            if isinstance(o, lx.Record):
                for f in o.layout:
                    if getattr(o, f[0], None) is r:
                        return {"t": "sub", "ids": [oid(o)], "sub": f[0]}
        if isinstance(r, lx.Cat):
            ids = []
            for e in r.l:
                d = describe(e)
                if d["t"] != "obj":
                    return {"t": "unknown", "ids": [], "sub": ""}
                ids += d["ids"]
            return {"t": "cat", "ids": ids, "sub": ""}
        return {"t": "unknown", "ids": [], "sub": ""}

    out, ret = "ok", None
    for pos, c in enumerate(prefix, 1):
        op, nm, sub, u, lo = c
        num = None if u == -1 else u
        if op == "request":
            out, ret = _call(lambda: plat.request(nm, num, loose=bool(lo)))
        elif op == "request_all":
            out, ret = _call(lambda: plat.request_all(nm))
        elif op == "request_remaining":
            out, ret = _call(lambda: plat.request_remaining(nm))
        elif op == "lookup_request":
            out, ret = _call(lambda: plat.lookup_request(nm + (":" + sub if sub else ""), num, loose=bool(lo)))
        else:
            raise ValueError("unknown platform op %r" % (op,))
        if out == "ok" and ret is None:
            out = "none"
        for _, o in cm.matched[:40]:      # ids in order of granting
            oid(o)
    retd = describe(ret) if out == "ok" else {"t": "none", "ids": [], "sub": ""}
    cap = 40            # a runaway allocator is cut short; 40 entries are more than the universe has
    av = [{"n": r[0], "u": r[1]} for r in cm.available[:cap]]
    mt = [{"n": r[0], "u": r[1], "id": oid(o)} for r, o in cm.matched[:cap]]
    pins = []
    if len(cm.matched) > cap:
        del cm.matched[cap:]
    o2, sc = _call(cm.get_sig_constraints)
    if o2 == "ok":
        for sig, pp, others, (rn, ru, rs) in sc:
            for p in pp:
                pins.append({"pin": p, "n": rn, "u": ru, "sub": rs or ""})
    return {"f": "plat", "d": len(prefix), "out": out, "fin": "n/a", "ret": retd, "av": av, "mt": mt, "pins": pins,
            "sigc": o2, "call": plat_call_record(prefix[-1]) if prefix else plat_call_record(("cfg", "", "", -1, 0))}


# ======================================================================================= generic
VISIT = {"bus": bus_visit, "loc": loc_visit, "plat": plat_visit}
CFGREC = {"bus": bus_cfg_record, "loc": loc_cfg_record, "plat": plat_cfg_record}
TERMINAL_ON_ERROR = {"bus": True, "loc": True, "plat": False}


def visit(job):
    fam, cfg, prefix = job
    quiet(True)
    return VISIT[fam](cfg, prefix)


def visit_many(jobs):
    return [visit(j) for j in jobs]
