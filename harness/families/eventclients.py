"""DUT factories for the CLIENTS of the event manager (C15): litex.soc.cores.uart.UART (with a harness PHY = two
stream endpoints), litex.soc.cores.timer.Timer and litex.soc.cores.gpio.GPIOIn(with_irq=True), each behind a real
CSRBank on an 8-bit CSR bus.  Contract: specs/event/ClientContract.tla.

inputs  = <<op, reg, data, x1, x2, x3>>     op: 0 idle, 1 write, 2 read; reg = index of the byte-wide register
          uart : x1, x2 = rx PHY offers (valid, char); x3 = tx PHY ready
          timer: x1..x3 = 0
          gpio : x1 = pad levels (bit mask), x2, x3 = 0
outputs = <<irq, pending, status, enable, clear, dat_r>> \\o 8 client values
          uart : txfull, rxempty, txempty, rxfull, rxtx (what a read of rxtx returns), rx PHY ready,
                 tx PHY valid, tx PHY char
          timer: en, load, reload (register values), value (latched register), 0...
          gpio : in (synchronised input register), mode, edge, 0...
"""
from migen import Module, Signal, Cat, Constant

from litex.soc.interconnect import csr_bus


def _roles(bank, rename):
    """byte-wide registers of the bank in address order -> role names used by the contract ("" = not used)"""
    out = []
    for c in bank.simple_csrs:
        out.append(rename.get(c.name, ""))
    return out


def build(spec):
    cls = spec["cls"]
    top = Module()
    x1, x2, x3 = Signal(8, name="x1"), Signal(8, name="x2"), Signal(8, name="x3")
    if cls == "uart":
        from litex.soc.cores.uart import UART
        core = UART(phy=None, tx_fifo_depth=spec.get("depth", 2), rx_fifo_depth=spec.get("depth", 2))
        top.submodules.core = core
        top.comb += [core.sink.valid.eq(x1[0]), core.sink.data.eq(x2), core.source.ready.eq(x3[0])]
        srcs = [core.ev.tx, core.ev.rx]       # software's view (UART_EV_TX = 1, UART_EV_RX = 2): tx is bit 0, rx is bit 1
        cl = [core._txfull.status, core._rxempty.status, core._txempty.status, core._rxfull.status,
              core._rxtx.w, core.sink.ready, core.source.valid, core.source.data]
        rename = {"rxtx": "rxtx", "txfull": "txfull", "rxempty": "rxempty", "txempty": "txempty", "rxfull": "rxfull"}
    elif cls == "timer":
        from litex.soc.cores.timer import Timer
        core = Timer()                      # width = 32: four byte-wide registers each for load, reload, value
        top.submodules.core = core
        srcs = [core.ev.zero]
        cl = [core._en.storage, core._load.storage, core._reload.storage, core._value.status] + [Constant(0)] * 4
        rename = {"load0": "load", "reload0": "reload", "en0": "en", "update_value0": "update_value", "value0": "value",
                  "load1": "zero", "load2": "zero", "load3": "zero", "reload1": "zero", "reload2": "zero",
                  "reload3": "zero", "value1": "zero", "value2": "zero", "value3": "zero"}
    elif cls == "gpio":
        from litex.soc.cores.gpio import GPIOIn
        pads = Signal(spec["pins"], name="pads")
        core = GPIOIn(pads, with_irq=True)
        top.submodules.core = core
        top.comb += pads.eq(x1)
        srcs = [getattr(core.ev, "i%d" % n) for n in range(spec["pins"])]       # pin n is bit n
        cl = [core._in.status, core._mode.storage, core._edge.storage] + [Constant(0)] * 5
        rename = {"in": "in", "mode0": "mode", "edge0": "edge"}
    else:
        raise ValueError(cls)
    rename.update({"ev_status": "ev_status", "ev_pending": "ev_pending", "ev_enable0": "ev_enable"})
    bank = csr_bus.CSRBank(core.get_csrs(), address=0, bus=csr_bus.Interface(data_width=8, address_width=14))
    top.submodules.bank = bank
    op, reg, data = Signal(2, name="op"), Signal(5, name="reg"), Signal(8, name="data")
    top.comb += [bank.bus.adr.eq(reg), bank.bus.we.eq(op == 1), bank.bus.re.eq(op == 2), bank.bus.dat_w.eq(data)]
    ev = core.ev
    outs = [ev.irq, ev.pending.status, ev.status.status, ev.enable.storage, Cat(*[s.clear for s in srcs]),
            bank.bus.dat_r] + cl
    return top, [op, reg, data, x1, x2, x3], outs, _roles(bank, rename)


def make(spec):
    top, ins, outs, _ = build(spec)
    return top, ins, outs


def roles(spec):
    from .. import py312_tracer
    py312_tracer.install()
    return build(spec)[3]


# ------------------------------------------------------------------------------------------------ configurations
def _ops(R, writes, reads):
    """CSR operations <<op, reg, data>> the software environment chooses from"""
    ops = [[0, 0, 0]]
    for role, vals in writes:
        ops += [[1, R[role], v] for v in vals]
    ops += [[2, R[role], 0] for role in reads]
    return ops


def _cfg(spec, writes, reads, **kw):
    rl = roles(spec)
    R = {r: i for i, r in enumerate(rl) if r and r != "zero"}
    cfg = {"kind": spec["cls"], "ns": {"uart": 2, "timer": 1}.get(spec["cls"], spec.get("pins", 1)),
           "regs": rl, "ops": _ops(R, writes, reads),
           # fields of the other kinds (TLC wants every record field it may touch)
           "depth": spec.get("depth", 2), "rxchars": [], "txrdy": [1], "lat": 3, "pins": spec.get("pins", 1),
           "b2b": 0, "strict": 0}
    cfg.update(kw)
    return (spec, cfg)


UART_READS = ["rxtx", "txfull", "rxempty", "ev_status", "ev_pending", "ev_enable", "txempty", "rxfull"]
TIMER_READS = ["load", "reload", "en", "value", "ev_status", "ev_pending", "ev_enable"]
GPIO_READS = ["in", "mode", "edge", "ev_status", "ev_pending", "ev_enable"]


def configs(tier):
    """list of (python spec, TLA+ cfg).  The UART directions are explored separately (the two FIFOs multiply);
    both directions together, wider GPIOs and long countdowns run in T-mode (tmode_configs)."""
    L = []
    q = tier == "quick"
    # UART receive side: PHY characters, clear of rx = FIFO read strobe, rx pending on empty -> non-empty
    L.append(_cfg({"cls": "uart", "dir": "rx"},
                  [("ev_pending", (1, 2, 3)), ("ev_enable", (0, 2))],
                  ["rxtx", "rxempty", "ev_pending"] if q else UART_READS,
                  rxchars=[1] if q else [1, 2], txrdy=[1]))
    # UART transmit side: writes to rxtx, tx pending on full -> non-full
    L.append(_cfg({"cls": "uart", "dir": "tx"},
                  [("rxtx", (1,) if q else (1, 2)), ("ev_pending", (1, 2, 3)), ("ev_enable", (0, 1))],
                  ["txfull", "ev_status", "ev_pending"] if q else UART_READS,
                  rxchars=[], txrdy=[0, 1]))
    # Timer: one-shot and periodic with small loads
    L.append(_cfg({"cls": "timer"},
                  [("load", (2,) if q else (0, 1, 2)), ("reload", (0, 1) if q else (0, 1, 2)), ("en", (0, 1)),
                   ("update_value", (1,)), ("ev_pending", (1,)), ("ev_enable", (0, 1))],
                  ["en", "value", "ev_status", "ev_pending", "ev_enable"] if q else TIMER_READS))
    # GPIOIn with irq, one pin, everything free (mode/edge rewritten at any time; transient cycle left free)
    L.append(_cfg({"cls": "gpio", "pins": 1},
                  [("mode", (0, 1)), ("edge", (0, 1)), ("ev_pending", (1,)), ("ev_enable", (0, 1))], GPIO_READS))
    if not q:
        # two pins with different selections (pin 0: falling edge, pin 1: any change), configuration written once
        L.append(_cfg({"cls": "gpio", "pins": 2},
                      [("mode", (2,)), ("edge", (1,)), ("ev_pending", (1, 2, 3))], []))
    return L


def demo_configs():
    """environment classes in which a recorded defect of the unchanged tree shows (notes/C15b_findings.json); each is a
    one-pin GPIOIn with a reduced software alphabet, run on its own so that the other DUTs are not re-explored"""
    W = [("mode", (0, 1)), ("edge", (0, 1)), ("ev_pending", (1,))]
    return [
        # the pads may toggle in consecutive cycles (change mode misses the second of two back-to-back changes)
        _cfg({"cls": "gpio", "pins": 1, "env": "b2b", "nofollowup": True}, W, [], b2b=1),
        # the new mode/edge selection applies in the very cycle it changes: no event without a pin edge
        _cfg({"cls": "gpio", "pins": 1, "env": "strict", "nofollowup": True}, W, [], strict=1),
    ]


def tmode_configs(tier):
    """larger parameters for trace validation: both UART directions together (depth 4, four characters), a 4-pin
    GPIOIn with every selection, long countdowns"""
    L = []
    L.append(_cfg({"cls": "uart", "depth": 4},
                  [("rxtx", (0x41, 0x0a, 0xff, 0x00)), ("ev_pending", (1, 2, 3)), ("ev_enable", (0, 1, 2, 3))],
                  UART_READS, rxchars=[0x61, 0x0d, 0xfe, 0x00], txrdy=[0, 1]))
    L.append(_cfg({"cls": "gpio", "pins": 4},
                  [("mode", (0, 5, 10, 15, 3)), ("edge", (0, 6, 9, 15, 12)), ("ev_pending", (1, 2, 4, 8, 15, 5)),
                   ("ev_enable", (0, 15, 6))], GPIO_READS))
    L.append(_cfg({"cls": "timer"},
                  [("load", (0, 1, 7, 40)), ("reload", (0, 1, 5, 23)), ("en", (0, 1)), ("update_value", (1,)),
                   ("ev_pending", (1,)), ("ev_enable", (0, 1))], TIMER_READS))
    return L
