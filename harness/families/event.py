"""DUT factory for the event-manager family (C15): real EventManager(s) + CSRBank(s) on a CSR bus."""
from migen import Module, Signal, Cat, If, Constant
from migen.genlib.misc import *  # noqa

from litex.soc.interconnect import csr_bus
from litex.soc.interconnect.csr_eventmanager import (EventManager, EventSourcePulse, EventSourceProcess,
                                                     EventSourceLevel, SharedIRQ)


def make(spec):
    kinds, mgr = spec["kinds"], spec["mgr"]
    nm = max(mgr)
    top = Module()
    trig = Signal(max(1, len(kinds)))
    op = Signal(2)
    msel = Signal(2)
    reg = Signal(2)
    data = Signal(max([3] + [mgr.count(m) for m in set(mgr)]))     # wide enough for every pending / enable bit
    master = csr_bus.Interface(data_width=8, address_width=14)
    top.comb += [
        master.adr.eq((msel - 1) * 512 + reg),
        master.we.eq(op == 1),
        master.re.eq(op == 2),
        master.dat_w.eq(data),
    ]
    evs, banks = [], []
    per_mgr = []
    for m in range(1, nm + 1):
        ev = EventManager()
        srcs = []
        for i, k in enumerate(kinds):
            if mgr[i] != m:
                continue
            if k == "pulse":
                s = EventSourcePulse(name="s%d" % i)
            elif k in ("rising", "falling"):
                s = EventSourceProcess(name="s%d" % i, edge=k)
            else:
                s = EventSourceLevel(name="s%d" % i)
            setattr(ev, "s%d" % i, s)
            top.comb += s.trigger.eq(trig[i])
            srcs.append(s)
        ev.finalize()
        top.submodules += ev
        bank = csr_bus.CSRBank(ev.get_csrs(), address=m - 1,
                               bus=csr_bus.Interface(data_width=8, address_width=14))
        top.submodules += bank
        evs.append(ev)
        banks.append(bank)
        per_mgr.append(srcs)
    top.submodules += csr_bus.Interconnect(master, [b.bus for b in banks])
    shared = SharedIRQ(*evs)
    top.submodules += shared
    outs = [shared.irq, master.dat_r]
    for m in range(2):
        if m < nm:
            ev = evs[m]
            outs += [ev.irq, ev.pending.status, ev.status.status, ev.enable.storage,
                     Cat(*[s.clear for s in per_mgr[m]])]
        else:
            outs += [Constant(0)] * 5
    return top, [trig, op, msel, reg, data], outs


def group_outputs(o):
    """flat stepper outputs -> <<sirq, dat_r, m1, m2>> as the TLA+ contract wants them"""
    return [o[0], o[1], list(o[2:7]), list(o[7:12])]


def configs(tier):
    L = []
    K = ["pulse", "rising", "falling", "level"]

    def add(kinds, mgr):
        L.append(({"kinds": kinds, "mgr": mgr}, {"kinds": kinds, "mgr": mgr, "nm": max(mgr)}))
    for k in K:
        add([k], [1])
    add(["pulse", "falling"], [1, 1])
    add(["rising", "level"], [1, 1])
    add(["pulse", "rising"], [1, 2])
    add(["falling", "level"], [2, 1])
    if tier == "thorough":
        # every pair of kinds in one manager and across two managers.  Managers with three and more sources are not
        # explored exhaustively on the netlist (a 3-source manager has more than 10^6 edges: 2^3 trigger patterns x
        # 23 bus operations in > 10^4 states; the four 3-source DUTs that used to be here asked for 12 * 10^6 edges
        # and the tier died of it): they run in T-mode (harness/checks/eventfam.py run_manager_tmode) and, as L2
        # model, in M-mode (harness/families/event_l2.py)
        add(["pulse", "pulse"], [1, 1])
        add(["level", "falling"], [2, 1])
        add(["rising", "falling"], [1, 1])
        add(["falling", "falling"], [1, 1])
        add(["pulse", "level"], [1, 1])
        add(["rising", "rising"], [1, 2])
        add(["level", "level"], [1, 1])
        add(["falling", "pulse"], [2, 1])
        add(["rising", "pulse"], [1, 1])
        add(["falling", "level"], [1, 1])
    return L
