"""L2 lane of the CSR-bank family (C12): model configurations, register projections, construction conformance,
M-mode sweeps (specs/csrbank/CsrBankModel.tla, CsrBankModelM.tla, CsrBankModelConf.tla)."""
import json
import os
import shutil
import tempfile

from . import csrbank as fam
from .. import tlc as tlcmod
from ..l2 import Lane
from ..report import MachineryError


# ------------------------------------------------------------------------------ model configurations
def decl(cfg):
    """the declaration part of a contract configuration (harness.families.csrbank.tla_cfg) = the model's parameters"""
    return {"cls": "bank", "w": cfg["w"], "little": cfg["little"], "pb": cfg["pb"], "bankadr": list(cfg["bankadr"]),
            "regs": cfg["regs"]}


def model_cfg(spec, cfg=None):
    """python spec of harness.families.csrbank (+ its contract configuration) -> model configuration, or None"""
    if spec.get("kind") == "sram":
        c = cfg if cfg is not None else fam.sram_cfg(spec)
        return {"cls": "sram", "w": c["w"], "pb": c["pb"], "sadr": c["sadr"], "mw": c["mw"], "depth": c["depth"],
                "ro": c["ro"], "init": list(c["init"]), "pgbits": c["pgbits"], "pgadr": c["pgadr"]}
    c = cfg if cfg is not None else fam.tla_cfg(spec)
    if not c["built"]:
        return None
    if any(fam.r_size(r) > 30 for b in spec["banks"] for r in b["regs"]):
        return None                                            # TLC integers
    m = decl(c)
    m["map"] = c["map"]            # what the real code built (clause LayoutAgrees); not used by the model itself
    return m


# ------------------------------------------------------------------------------ projections
def _leaf(s):
    return s.backtrace[-1] if s.backtrace else (s.name_override, 0)


def _by_class(st, cls):
    """{tracer index of an object of class `cls`: [registers created inside it]} - the tracer numbers the objects
    of a class in creation order, so the sorted indices are the objects in creation order"""
    out = {}
    for s in st.regs:
        for name, idx in (s.backtrace or [])[:-1]:
            if name == cls:
                out.setdefault(idx, [])
                if s not in out[idx]:
                    out[idx].append(s)
    return [out[k] for k in sorted(out)]


def _one(sigs, pred, what):
    hits = [s for s in sigs if pred(_leaf(s)[0])]
    if len(hits) != 1:
        raise KeyError("register %s: %d candidates" % (what, len(hits)))
    return hits[0]


def _leaves(st, name):
    return [s for _, s in sorted((_leaf(s)[1], s) for s in st.regs if _leaf(s)[0] == name)]


def _kinds(spec):
    return [r for b in spec["banks"] for r in b["regs"]]


def _has(spec):
    """per register (creation order): which flip-flops the code creates for it"""
    w = spec["w"]
    out = []
    for r in _kinds(spec):
        k = r["kind"]
        out.append({"sto": k in fam.STORAGE_KINDS, "re": k != "csr",
                    "back": "atomic" in k and fam.r_size(r) > w, "r2": k == "status_rw"})
    return out


def proj(spec, st):
    """{register name: Signal | [Signals] | Memory | constant} of the DUTs built by harness.families.csrbank.make /
    make_sram; registers are found by the names the Migen tracer recorded (class of the owning object in creation
    order + variable name).  For a bank the per-register lists hold only the registers that exist (see reshape)."""
    if spec.get("kind") == "sram":
        return _proj_sram(spec, st)
    has = _has(spec)
    stor = _by_class(st, "csrstorage")
    stat = _by_class(st, "csrstatus")
    if len(stor) != sum(h["sto"] for h in has) or len(stat) != sum(1 for r in _kinds(spec) if r["kind"] in ("status", "status_rw")):
        raise KeyError("CSRStorage / CSRStatus objects: found %d / %d" % (len(stor), len(stat)))
    datr = _leaves(st, "bank_bus_dat_r")
    if len(datr) != len(spec["banks"]):
        raise KeyError("bank dat_r registers: found %d" % len(datr))
    r = {"datr": datr, "sto": [], "re": [], "back": [], "r2": []}
    si = ti = 0
    for h, reg in zip(has, _kinds(spec)):
        if h["sto"]:
            sigs = stor[si]
            si += 1
            r["sto"].append(_one(sigs, lambda n: n == "storage", "storage"))
            r["re"].append(_one(sigs, lambda n: n == "re", "re"))
            if h["back"]:
                r["back"].append(_one(sigs, lambda n: n.endswith("_backstore"), "backstore"))
            elif any(_leaf(s)[0].endswith("_backstore") for s in sigs):
                raise KeyError("unexpected back-store register")
        elif h["re"]:
            sigs = stat[ti]
            ti += 1
            r["re"].append(_one(sigs, lambda n: n == "re", "re"))
            if h["r2"]:
                r["r2"].append(_one(sigs, lambda n: n == "r", "r"))
    return r


def _proj_sram(spec, st):
    c = fam.sram_cfg(spec)
    mems = sorted(st.ev.replaced_memories, key=lambda m: m.duid)
    if len(mems) != 1:
        raise KeyError("memories: %d" % len(mems))
    n = (c["mw"] + c["w"] - 1) // c["w"]

    def one(name):
        hits = _leaves(st, name)
        if len(hits) != 1:
            raise KeyError("register %r: %d candidates" % (name, len(hits)))
        return hits[0]
    # the registered read address of the write-first port is created by MemoryToArray with Signal.like(): the tracer
    # records no variable name for it, only the transformer that created it
    r = {"mem": [] if c["ro"] else mems[0], "adr_reg": one("memorytoarray"), "sel_r": one("sel_r"),
         "word_index": one("word_index") if n > 1 else 0,
         "wregs": _leaves(st, "wreg")}
    if len(r["wregs"]) != (0 if c["ro"] else n - 1):
        raise KeyError("staging registers: %d" % len(r["wregs"]))
    if c["pgbits"]:
        (sigs,) = _by_class(st, "csrstorage")
        r["page"] = _one(sigs, lambda x: x == "storage", "page storage")
        r["page_re"] = _one(sigs, lambda x: x == "re", "page re")
        r["pdatr"] = one("bank_bus_dat_r")
    else:
        r["page"] = r["page_re"] = r["pdatr"] = 0
    return r


def reshape(spec, flat):
    """projected registers -> the model's register record (per-register lists with 0 where a register kind has no
    such flip-flops)"""
    if spec.get("kind") == "sram":
        return flat
    out = {"datr": flat["datr"]}
    has = _has(spec)
    for k in ("sto", "re", "back", "r2"):
        it = iter(flat[k])
        out[k] = [next(it) if h[k] else 0 for h in has]
    return out


def reshape_duts(duts):
    for d in duts:
        d["reset"] = reshape(d["spec"], d["reset"])
        for c in d["cases"]:
            c[0] = reshape(d["spec"], c[0])
            c[3] = reshape(d["spec"], c[3])
    return duts


LANE = Lane("csrbank", "csrbank/CsrBankModelConf", model_cfg, "harness.families.csrbank_l2:proj",
            clauses=("OutputsAgree", "NextStateAgrees", "ResetAgrees", "LayoutAgrees"), m_module="csrbank/CsrBankModelM")


def conform(lane, duts, limit=60000, timeout=900, notes=None):
    """l2.conformance in chunks of at most `limit` cases (every TLC worker loads the JSON constant: 4 workers, bounded
    size).  The lane must never turn a check into a machinery failure: if TLC cannot evaluate a chunk (killed, time-out,
    out of memory) it is tried once more and then only noted as not evaluated - that is neither a drift nor a verdict.
    -> (cases judged, drifts)"""
    from .. import l2
    duts = [d for d in duts if d["cases"]]
    n, drifts, chunk, size = 0, [], [], 0

    def flush():
        nonlocal n, drifts
        if not chunk:
            return
        err = None
        for attempt in (1, 2):
            try:
                k, dr = l2.conformance(lane, list(chunk), timeout=timeout, workers=4, heap="8g")
                n += k
                drifts += dr
                return
            except MachineryError as ex:
                err = str(ex).split("\n")[0][:200]
        if notes is not None:
            notes.append("L2 conformance (%s): %d case(s) of %d DUT(s) could not be evaluated (%s); no drift is claimed for them" % (
                lane.name, sum(len(d["cases"]) for d in chunk), len(chunk), err))
    for d in duts:
        if chunk and size + len(d["cases"]) > limit:
            flush()
            chunk, size = [], 0
        chunk.append(d)
        size += len(d["cases"])
    flush()
    return n, drifts


# ------------------------------------------------------------------------------ construction conformance
def construction_conformance(cfgs, timeout=900):
    """cfgs: contract configurations of register lists run through the REAL constructor (tla_cfg: built / error / map).
    TLC evaluates the model of _sort_gathered_items / do_finalize / GenericBank on each declaration and compares.
    -> (number judged, drifts)"""
    lay = [{"m": decl(c), "built": c["built"], "error": c["error"], "map": c["map"]} for c in cfgs]
    if not lay:
        return 0, []
    scratch = tempfile.mkdtemp(prefix="verif-l2c-", dir=os.environ.get("VERIF_SCRATCH", "/var/tmp"))
    drifts = []
    try:
        live = list(range(len(lay)))
        while live and len(drifts) < 4:
            path = os.path.join(scratch, "cases.json")
            with open(path, "w") as f:
                json.dump({"duts": [], "layouts": [lay[i] for i in live]}, f, separators=(",", ":"))
            res = tlcmod.run(LANE.conf_module, "INIT InitL\nNEXT Next\nCHECK_DEADLOCK FALSE\nINVARIANT ConstructionAgrees\n",
                             env={"CASES": path}, timeout=timeout, scratch=scratch, workers=4)
            if res.errors:
                raise MachineryError("TLC failed in L2 construction conformance: %s\n%s" % (" | ".join(res.errors[:4]), res.out[-1500:]))
            if not res.violated:
                if res.distinct != len(live):
                    raise MachineryError("L2 construction conformance: %d cases judged, %d expected" % (res.distinct, len(live)))
                break
            i = (res.trace[-1]["vars"] if res.trace else {}).get("i")
            if not isinstance(i, int):
                raise MachineryError("L2 construction conformance: violation without a parsable state")
            real = live[i - 1]
            drifts.append({"spec": {"regs": [[r["kind"], r["size"], r["n"]] for r in lay[real]["m"]["regs"]],
                                    "little": lay[real]["m"]["little"]},
                           "m": lay[real]["m"], "clause": "ConstructionAgrees",
                           "case": [{}, [], [lay[real]["built"], lay[real]["error"]], {"map": lay[real]["map"]}]})
            live = [x for x in live if x != real]
    finally:
        shutil.rmtree(scratch, ignore_errors=True)
    return len(lay), drifts


# ------------------------------------------------------------------------------ M-mode sweeps
def known_little_atomic(spec):
    """the configuration class of the listed finding C12-atomic-write-little-ordering-commits-on-first-address"""
    return spec["ordering"] == "little" and bool(spec["atomic_multiword"])


def _mc(spec):
    """[c |-> contract configuration (declaration; map / built come from the model), m |-> model configuration]"""
    cfg = fam.tla_cfg(spec)
    if not cfg["built"]:
        raise MachineryError("M-mode configuration refused by the real constructor: %r" % (spec,))
    return {"c": dict(cfg, map=[], map2=[], built=0, error=""), "m": decl(cfg), "spec": spec}


def mmode_configs(tier):
    """register sets beyond G-mode (there: at most 2 registers of at most 3 words per bank, at most 4 per DUT): banks of
    five and six registers of up to four bus words, both orderings, atomic writes of 2-4 words, device writes, fields
    with a pulse bit, fixed locations with reserved fillers, two banks behind one master.  The product of the register
    contents is what TLC enumerates, so write data alphabets have one value and only two or three registers of a bank
    hold multi-word writable content; the others are wide read-only / raw registers."""
    R, F, S = fam.R, fam.F, fam.S
    th = tier == "thorough"
    L = []
    def QA(o):
        # 3-word storage, 2-word atomic storage, writable status, raw CSR, 4-word driven status
        return S(2, o, [(0, [R("storage", 6, reset=0x25), R("storage_atomic", 4, reset=9), R("status_rw", 2, dvs=[2]),
                             R("csr", 2, dvs=[2]), R("status", 8, dvs=[0x9c])])], dats=[3], paging=64, npages=1)

    def QB(o):
        # atomic + device write, fields with a pulse bit at a fixed location 0, a 4-word status with fields, a
        # register at fixed location 6 (two reserved fillers), a raw CSR
        return S(2, o, [(0, [R("storage_atomic_dev", 4, reset=6, dvs=[9]),
                             R("storage", 5, fields=[F(2, reset=1), F(1, pulse=1), F(1, offset=4, reset=1)], n=0),
                             R("status", 7, fields=[F(3), F(2, offset=5)], dvs=[0, 0x1d]),
                             R("storage", 2, reset=1, n=6), R("csr", 1)])], dats=[2], paging=64, npages=1)
    L += [QA("big"), QB("little")]          # the quick tier takes one ordering of each
    if th:
        L += [QA("little"), QB("big")]
        for o in ("big", "little"):
            # TA: 4-word atomic storage (last word one bit), writable status, raw CSR, 4-word status, 1-word storage
            L.append(S(2, o, [(0, [R("storage_atomic", 7, reset=0x55), R("status_rw", 2, dvs=[1]), R("csr", 2, dvs=[2]),
                                   R("status", 8, dvs=[0x9c]), R("storage", 2, reset=1)])], dats=[3], paging=64, npages=1))
            # TD: two banks of three registers behind one master (pages 1 and 3 of 4); big ordering only (1.25 * 10^6
            # transitions under little ordering, where AtomicCommit is excluded anyway)
            if o == "big":
                L.append(S(2, o, [(1, [R("storage_atomic", 4, reset=0xc), R("status", 3, dvs=[5]), R("storage", 3)]),
                                  (3, [R("storage_dev", 4, dvs=[9]), R("status_rw", 2), R("csr", 1, dvs=[1])])],
                           dats=[1], paging=32, npages=4))
            # TE: six registers
            L.append(S(2, o, [(0, [R("storage", 6), R("storage_atomic", 4, reset=5), R("storage_dev", 2, dvs=[1]),
                                   R("status_rw", 2), R("status", 8, dvs=[0x99]), R("csr", 2, dvs=[1])])],
                       dats=[2], paging=64, npages=1))
    return [_mc(s) for s in L]
