"""DUT factories and configuration lists for the packet family (C16): the real Packetizer, Depacketizer,
PacketFIFO, Arbiter and Dispatcher of litex/soc/interconnect/packet.py behind flat input/output vectors
(see specs/packet/PacketFrame.tla, PacketFifo.tla, PacketRoute.tla for the vector layouts)."""
from migen import Module, Signal, Constant, Cat

from litex.soc.interconnect import stream
from litex.soc.interconnect import packet


# ------------------------------------------------------------------------------------------ header helpers
def header_of(spec):
    fields = {name: packet.HeaderField(byte, off, width) for name, byte, off, width in spec["fields"]}
    return packet.Header(fields, spec["hl"], swap_field_bytes=bool(spec["swap"]))


def sorted_fields(spec):
    """fields in the order of Header.get_layout() (sorted by name)"""
    return sorted(spec["fields"], key=lambda f: f[0])


def geometry(dw, hl):
    bpc = dw // 8
    hw, lo = (hl * 8) // dw, hl % bpc
    if hw == 0:
        return "short"
    return "aligned" if lo == 0 else "unaligned"


def field_map(spec):
    """-> per header field (in layout order) the slice (param name, low bit, width) of the packet-side endpoint that
    carries it.  Header.get_field maps a header field named <p>_lsb / <p>_msb of width w to bits [0, w) / [w, 2w) of
    the param <p> (spec["split"]: one 2w-bit param carried by two w-bit header fields, as LiteSATA does with its
    48-bit lba); every other field is a param of its own."""
    out = []
    for name, byte, off, width in sorted_fields(spec):
        if spec.get("split") and name.endswith("_lsb"):
            out.append((name[:-4], 0, width))
        elif spec.get("split") and name.endswith("_msb"):
            out.append((name[:-4], width, width))
        else:
            out.append((name, 0, width))
    return out


def param_layout(spec, hdr):
    if not spec.get("split"):
        return hdr.get_layout()
    lay = {}
    for pname, lo, width in field_map(spec):
        lay[pname] = max(lay.get(pname, 0), lo + width)
    return sorted(lay.items())


def frame_endpoints(spec):
    """-> (top module, sink, source) of the element under test"""
    hdr = header_of(spec)
    dw = spec["dw"]
    pd = stream.EndpointDescription([("data", dw)], param_layout(spec, hdr))
    rd = stream.EndpointDescription([("data", dw)])
    top = Module()
    cls = spec["cls"]
    if cls == "Packetizer":
        core = packet.Packetizer(pd, rd, hdr)
        top.submodules.core = core
        return top, core.sink, core.source
    if cls == "Depacketizer":
        core = packet.Depacketizer(rd, pd, hdr)
        top.submodules.core = core
        return top, core.sink, core.source
    if cls == "RoundTrip":      # the repository test's arrangement
        p = packet.Packetizer(pd, rd, hdr)
        d = packet.Depacketizer(rd, pd, hdr)
        top.submodules.p = p
        top.submodules.d = d
        top.comb += p.source.connect(d.sink)
        return top, p.sink, d.source
    raise ValueError(cls)


# ------------------------------------------------------------------------------------------ factories
def _make_frame(spec):
    """inputs : valid, data[15:0], data[31:16], last, f1, f2, ready
       outputs: sink_ready, valid, data[15:0], data[31:16], last, f1, f2"""
    top, sink, source = frame_endpoints(spec)
    dw = spec["dw"]
    assert dw <= 32
    fmap = field_map(spec)
    assert len(fmap) <= 2
    valid, dlo, dhi, last, ready = Signal(), Signal(16), Signal(16), Signal(), Signal()
    fin = [Signal(24), Signal(24)]
    top.comb += [sink.valid.eq(valid), sink.data.eq(Cat(dlo, dhi)), sink.last.eq(last), source.ready.eq(ready)]
    fout = [Constant(0), Constant(0)]
    params = {}
    for i, (pname, lo, width) in enumerate(fmap):
        params.setdefault(pname, []).append((lo, width, i))
    for pname, parts in params.items():
        parts.sort()
        assert [lo for lo, _, _ in parts] == [sum(w for _, w, _ in parts[:j]) for j in range(len(parts))]
        if hasattr(sink, pname):
            assert len(getattr(sink, pname)) == sum(w for _, w, _ in parts)
            top.comb += getattr(sink, pname).eq(Cat(*[fin[i][:w] for _, w, i in parts]))
        if hasattr(source, pname):
            for lo, w, i in parts:
                fout[i] = getattr(source, pname)[lo:lo + w]
    ins = [valid, dlo, dhi, last, fin[0], fin[1], ready]
    outs = [sink.ready, source.valid, source.data[:min(16, dw)], source.data[16:32] if dw > 16 else Constant(0),
            source.last, fout[0], fout[1]]
    return top, ins, outs


def _make_fifo(spec):
    """inputs : valid, data, last, param, ready     outputs: sink_ready, valid, data, last, param"""
    layout = stream.EndpointDescription([("data", spec.get("dw", 8))], [("p", spec["pw"])] if spec.get("pw") else [])
    core = packet.PacketFIFO(layout, spec["depth"], param_depth=spec.get("pdepth"), buffered=bool(spec.get("buffered")))
    top = Module()
    top.submodules.core = core
    sink, source = core.sink, core.source
    pin = Signal(max(1, spec.get("pw", 0)))
    if spec.get("pw"):
        top.comb += sink.p.eq(pin)
    ins = [sink.valid, sink.data, sink.last, pin, source.ready]
    outs = [sink.ready, source.valid, source.data, source.last, source.p if spec.get("pw") else Constant(0)]
    return top, ins, outs


def _make_route(spec):
    """inputs : (valid, data, last, param) per master, sel, ready per slave
       outputs: ready per master, (valid, data, last, param) per slave"""
    n, m = spec["n"], spec["m"]
    layout = stream.EndpointDescription([("data", spec.get("dw", 8))], [("p", spec.get("pw", 2))])
    masters = [stream.Endpoint(layout) for _ in range(n)]
    slaves = [stream.Endpoint(layout) for _ in range(m)]
    top = Module()
    sel = Signal(8)
    if spec["cls"] == "Arbiter":
        assert m == 1
        core = packet.Arbiter(list(masters), slaves[0])
    elif spec["cls"] == "Dispatcher":
        assert n == 1
        core = packet.Dispatcher(masters[0], list(slaves), one_hot=bool(spec.get("one_hot")))
        top.comb += core.sel.eq(sel)
    else:
        raise ValueError(spec["cls"])
    top.submodules.core = core
    ins, outs = [], []
    for mi in masters:
        ins += [mi.valid, mi.data, mi.last, mi.p]
    ins.append(sel)
    ins += [sj.ready for sj in slaves]
    outs += [mi.ready for mi in masters]
    for sj in slaves:
        outs += [sj.valid, sj.data, sj.last, sj.p]
    return top, ins, outs


def make(spec):
    fam = spec["fam"]
    if fam == "frame":
        return _make_frame(spec)
    if fam == "fifo":
        return _make_fifo(spec)
    if fam == "route":
        return _make_route(spec)
    raise ValueError(fam)


# ------------------------------------------------------------------------------------------ TLA+ cfg records
_PAT = 0x2d4b87a65c


def frame_cfg(spec, flat=1):
    dw, hl = spec["dw"], spec["hl"]
    bpc = dw // 8
    flds = sorted_fields(spec)
    kind = {"Packetizer": "pk", "Depacketizer": "dp", "RoundTrip": "rt"}[spec["cls"]]
    cfg = {"kind": kind, "dw": dw, "hl": hl, "swap": int(bool(spec["swap"])),
           "fields": [{"byte": b, "offset": o, "width": w} for _, b, o, w in flds],
           "minlen": spec.get("minlen", 1), "maxlen": spec.get("maxlen", 3),
           "bubbles": int(spec.get("bubbles", 1)), "junk": int(spec.get("junk", 0)),
           "cap": 2, "npar": spec.get("npar", 2), "flat": flat, "pad": 0x7e,
           "tagmod": (spec.get("maxlen", 3) + 1) * bpc}
    if flat:
        # stimulus alphabets of the exhaustive mode: two complementary values per field / header byte
        fv0 = [(_PAT >> (3 * i)) & ((1 << w) - 1) for i, (_, b, o, w) in enumerate(flds)]
        fv1 = [~v & ((1 << w) - 1) for v, (_, b, o, w) in zip(fv0, flds)]
        cfg["fvals"] = [fv0, fv1][:spec.get("nvar", 2)]
        hv0 = [(_PAT >> (8 * (i % 5) + i // 5)) & 0xff for i in range(hl)]
        hv1 = [~x & 0xff for x in hv0]
        cfg["hvals"] = [hv0, hv1][:spec.get("nvar", 2)]
    return cfg


def fifo_cfg(spec, flat=1):
    return {"minlen": spec.get("minlen", 1), "maxlen": spec["maxlen"], "pmax": spec.get("pmax", 1),
            "bubbles": int(spec.get("bubbles", 1)), "rdy1": int(spec.get("rdy1", 0)), "credit": int(spec.get("credit", 0)),
            "cap": spec["depth"] + (2 if spec.get("buffered") else 0) + spec.get("slack", 0),
            "npar": spec.get("npar", 2), "flat": flat, "junk": int(spec.get("junk", 0)),
            "jdata": (1 << min(8, spec.get("dw", 8))) - 1}


def route_cfg(spec, flat=1):
    n, m = spec["n"], spec["m"]
    if spec["cls"] == "Arbiter" or (m == 1 and not spec.get("one_hot")):
        sels, bad = [0], []
    elif spec.get("one_hot"):
        sels = [1 << j for j in range(m)]
        bad = [0, 3][:spec.get("nbad", 0)]
    else:
        sels = list(range(m))
        bad = [m] if (spec.get("nbad", 0) and m < (1 << max(1, (m - 1).bit_length()))) else []
    return {"n": n, "m": m, "sels": sels, "badsels": bad, "minlen": spec.get("minlen", 1),
            "maxlen": spec.get("maxlen", 2), "bubbles": int(spec.get("bubbles", 1)), "cap": 0, "flat": flat,
            "npar": spec.get("npar", 2), "junk": int(spec.get("junk", 0)),
            "jdata": (1 << min(8, spec.get("dw", 8))) - 1, "jparam": (1 << spec.get("pw", 2)) - 1}


def tla_cfg(spec, flat=1):
    return {"frame": frame_cfg, "fifo": fifo_cfg, "route": route_cfg}[spec["fam"]](spec, flat)


def describe(spec):
    fam = spec["fam"]
    env = ",".join("%s=%s" % (k, spec[k]) for k in ("minlen", "maxlen", "bubbles", "junk", "rdy1") if k in spec)
    if fam == "frame":
        return "%s(dw=%d, header %dB %s%s, fields %s%s; %s)" % (
            spec["cls"], spec["dw"], spec["hl"], spec["geom"], ", swap" if spec["swap"] else "",
            "/".join("%s@%d.%d:%d" % tuple(f) for f in sorted_fields(spec)),
            " (halves of one param)" if spec.get("split") else "", env)
    if fam == "fifo":
        return "PacketFIFO(depth=%d%s%s%s; %s)" % (spec["depth"], ", param_depth=%d" % spec["pdepth"] if spec.get("pdepth") else "",
                                                ", buffered" if spec.get("buffered") else "",
                                                ", no params" if not spec.get("pw") else "", env)
    return "%s(%dx%d%s; %s)" % (spec["cls"], spec["n"], spec["m"], ", one_hot" if spec.get("one_hot") else "", env)


# ------------------------------------------------------------------------------------------ speculation hints
# The hints mirror the environment of the TLA+ contracts (hold rule, position tags, packet lengths) so that the
# speculative closure of GraphLoop follows only inputs the specification's Env can apply.  They are accelerators
# only: a hint that prunes too much costs extra NEED rounds, one that prunes too little costs unused edges; the
# verdict is TLC's alone.
def _last_ok(cfg, nbeats, l):
    if l == 1:
        return cfg["minlen"] <= nbeats <= cfg["maxlen"]
    return nbeats < cfg["maxlen"]


def _halves(bs):
    x = 0
    for i, b in enumerate(bs):
        x |= b << (8 * i)
    return (x & 0xffff, x >> 16)


class FrameHint:
    def init(self, cfg):
        return (None, 0, 0, None)

    # ctx = (held offer, parity, beats accepted of the packet, its fields / header variant)
    @staticmethod
    def _paywords(cfg, par, k):
        bpc = cfg["dw"] // 8
        return _halves([1 + par * cfg["tagmod"] + k * bpc + j for j in range(bpc)])

    @staticmethod
    def _rawwords(cfg, par, v, k, l):
        bpc, hl = cfg["dw"] // 8, cfg["hl"]
        n = ((k + 1) * bpc - hl) // bpc
        end = hl + n * bpc
        bs = []
        for j in range(bpc):
            g = k * bpc + j
            if g < hl:
                bs.append(cfg["hvals"][v][g])
            elif l == 1 and g >= end:
                bs.append(cfg["pad"])
            else:
                bs.append(1 + par * cfg["tagmod"] + g - hl)
        return _halves(bs)

    def _match(self, cfg, ctx, iv):
        """-> value of the packet (fields / variant) if iv is a legal new offer in ctx, else None"""
        held, par, k, pv = ctx
        bpc = cfg["dw"] // 8
        l = iv[3]
        if cfg["kind"] == "dp":
            n = ((k + 1) * bpc - cfg["hl"]) // bpc
            if not _last_ok(cfg, n, l) or iv[4] != 0 or iv[5] != 0:
                return None
            for v in (range(len(cfg["hvals"])) if k == 0 else [pv]):
                if self._rawwords(cfg, par, v, k, l) == (iv[1], iv[2]):
                    return v
            return None
        if not _last_ok(cfg, k + 1, l) or self._paywords(cfg, par, k) != (iv[1], iv[2]):
            return None
        nf = len(cfg["fields"])
        f = (iv[4], iv[5])
        if k > 0:
            return f if f == pv else None
        for vals in cfg["fvals"]:
            if tuple(list(vals) + [0] * (2 - nf)) == f:
                return f
        return None

    def allowed(self, cfg, ctx, iv):
        held, par, k, pv = ctx
        if held is not None:
            return tuple(iv[:6]) == held
        if iv[0] == 0:
            if cfg["bubbles"] == 2 and k > 0:
                prev = (self._paywords(cfg, par, k - 1) if cfg["kind"] != "dp" else self._rawwords(cfg, par, pv, k - 1, 0))
                return tuple(iv[1:6]) == prev + (0,) + (tuple(pv) if cfg["kind"] != "dp" else (0, 0))
            if not (cfg["bubbles"] or k == 0):
                return False
            if tuple(iv[1:6]) == (0, 0, 0, 0, 0):
                return True
            bpc = cfg["dw"] // 8
            return bool(cfg["junk"]) and tuple(iv[1:6]) == _halves([cfg["pad"]] * bpc) + (1, 0, 0)
        return self._match(cfg, ctx, iv) is not None

    def next(self, cfg, ctx, iv, o):
        held, par, k, pv = ctx
        if iv[0] == 0:
            return (None, par, k, pv)
        if o[0] == 0:
            return (tuple(iv[:6]), par, k, pv)
        if iv[3] == 1:
            return (None, (par + 1) % cfg["npar"], 0, None)
        v = pv if k > 0 else self._match(cfg, (None, par, k, pv), iv)
        return (None, par, k + 1, v)


class FifoHint:
    """ctx = (held offer, parity, beats accepted of the packet, its param, undelivered accepted beats)"""
    def init(self, cfg):
        return (None, 0, 0, 0, 0)

    def allowed(self, cfg, ctx, iv):
        held, par, k, p, occ = ctx
        if cfg["rdy1"] and iv[4] != 1:
            return False
        if held is not None:
            return tuple(iv[:4]) == held
        starved = cfg["credit"] > 0 and occ >= cfg["credit"]
        if iv[0] == 0:
            junk = bool(cfg.get("junk")) and tuple(iv[1:4]) == (cfg["jdata"], 1, cfg["pmax"])
            return (tuple(iv[1:4]) == (0, 0, 0) or junk) and bool(cfg["bubbles"] or k == 0 or starved)
        return (not starved and iv[1] == 1 + par * cfg["maxlen"] + k and _last_ok(cfg, k + 1, iv[2])
                and (iv[3] <= cfg["pmax"] if k == 0 else iv[3] == p))

    def next(self, cfg, ctx, iv, o):
        held, par, k, p, occ = ctx
        if o[1] == 1 and iv[4] == 1 and occ > 0:
            occ -= 1
        if iv[0] == 0:
            return (None, par, k, p, occ)
        if o[0] == 0:
            return (tuple(iv[:4]), par, k, p, occ)
        occ = min(occ + 1, cfg["cap"] + 1)
        if iv[2] == 1:
            return (None, (par + 1) % cfg["npar"], 0, 0, occ)
        return (None, par, k + 1, iv[3], occ)


class RouteHint:
    def init(self, cfg):
        return (tuple((None, 0, 0) for _ in range(cfg["n"])), None)

    def allowed(self, cfg, ctx, iv):
        ms, selh = ctx
        n = cfg["n"]
        for i, (held, par, k) in enumerate(ms):
            t = tuple(iv[4 * i:4 * i + 4])
            if held is not None:
                if t != held:
                    return False
            elif t[0] == 0:
                junk = bool(cfg.get("junk")) and t == (0, cfg["jdata"], 1, cfg["jparam"])
                if not (t == (0, 0, 0, 0) or junk) or not (cfg["bubbles"] or k == 0):
                    return False
            else:
                if t[1] != 1 + (i * 2 + par) * cfg["maxlen"] + k or t[3] != par + 1 or not _last_ok(cfg, k + 1, t[2]):
                    return False
        sel = iv[4 * n]
        if selh is not None:
            return sel == selh
        return sel in cfg["sels"] or sel in cfg["badsels"]

    def next(self, cfg, ctx, iv, o):
        ms, selh = ctx
        out = []
        hold_sel = False
        for i, (held, par, k) in enumerate(ms):
            t = tuple(iv[4 * i:4 * i + 4])
            if t[0] == 0:
                out.append((None, par, k))
            elif o[i] == 0:
                out.append((t, par, k))
                if k == 0 and len(cfg["sels"]) + len(cfg["badsels"]) > 1:
                    hold_sel = True
            elif t[2] == 1:
                out.append((None, (par + 1) % cfg["npar"], 0))
            else:
                out.append((None, par, k + 1))
        return (tuple(out), iv[4 * cfg["n"]] if hold_sel else None)


# ------------------------------------------------------------------------------------------ configuration lists
def _frame(cls, dw, hl, fields, swap=1, **env):
    spec = {"fam": "frame", "cls": cls, "dw": dw, "hl": hl, "fields": [list(f) for f in fields], "swap": swap,
            "geom": geometry(dw, hl), "oddwide": int(any(f[3] > 8 and f[3] % 8 for f in fields))}
    spec.update(env)
    return spec


# header definitions of the exhaustive mode: (hl, fields)
H1 = (1, [("a", 0, 0, 8)])
H1B = (1, [("a", 0, 1, 3), ("b", 0, 5, 2)])                 # bit fields inside one byte, uncovered bits
H2 = (2, [("a", 0, 0, 16)])
H2B = (2, [("a", 0, 0, 4), ("b", 0, 4, 12)])                # 12-bit field crossing a byte border at bit offset 4
H3 = (3, [("a", 0, 0, 8), ("b", 1, 0, 16)])
H3B = (3, [("a", 0, 0, 24)])
H3C = (3, [("a", 0, 3, 10), ("b", 2, 0, 7)])                # odd widths and offsets
H4 = (4, [("a", 0, 0, 8), ("b", 1, 0, 24)])
H5 = (5, [("a", 0, 0, 16), ("b", 2, 0, 24)])
H6 = (6, [("a", 0, 0, 24), ("b", 3, 0, 24)])
H7 = (7, [("a", 0, 0, 24), ("b", 4, 0, 24)])
# one 32-bit param carried by two 16-bit header fields (Header.get_field: <p>_lsb / <p>_msb), upper half first on the wire
HS = (4, [("x_lsb", 2, 0, 16), ("x_msb", 0, 0, 16)])
HS5 = (5, [("x_lsb", 3, 0, 16), ("x_msb", 0, 0, 16)])        # ... with a gap, unaligned on 16 bit


def frame_configs(tier):
    """-> list of specs.  The environment options are part of the spec so that every recorded finding is pinned
    to the environment class that exposes it and the complementary classes are proved clean."""
    L = []
    full = dict(minlen=1, maxlen=3, bubbles=1, junk=1)
    # --- aligned geometries: the complete environment (one-beat packets, pauses inside packets, junk while idle)
    aligned = [(8, H1, 1), (8, H1B, 0), (8, H2, 1), (8, H2B, 1), (8, H3, 1), (16, H2, 0), (16, H4, 1)]
    if tier == "thorough":
        aligned += [(8, H3B, 1), (8, H3C, 1), (8, H3C, 0), (8, H2B, 0), (16, H2B, 1), (16, H6, 1), (32, H4, 1)]
    for dw, (hl, f), swap in aligned:
        for cls in ("Packetizer", "Depacketizer", "RoundTrip"):
            if cls == "RoundTrip" and tier == "quick" and (dw, hl) not in ((8, 1), (8, 3), (16, 4)):
                continue
            L.append(_frame(cls, dw, hl, f, swap, **full))
    # --- a param split over two header fields (the _lsb / _msb branch of Header.get_field)
    split = [(16, HS, 1)]
    if tier == "thorough":
        split += [(8, HS, 0), (32, HS, 1)]
    for dw, (hl, f), swap in split:
        for cls in ("Packetizer", "Depacketizer", "RoundTrip"):
            if cls == "RoundTrip" and tier == "quick":
                continue
            L.append(_frame(cls, dw, hl, f, swap, split=1, **full))
    if tier == "thorough":
        L.append(_frame("Depacketizer", 16, HS5[0], HS5[1], 1, split=1, **full))
        L.append(_frame("Packetizer", 16, HS5[0], HS5[1], 1, split=1, minlen=2, maxlen=3, bubbles=0, junk=1))
    # --- unaligned geometries (header_words >= 1, leftover > 0)
    unal = [(16, H3, 1), (16, H5, 1)]
    if tier == "thorough":
        unal += [(16, H3C, 0), (32, H5, 1), (32, H6, 1), (32, H7, 1), (16, H7, 1)]
    for dw, (hl, f), swap in unal:
        # Depacketizer: complete environment
        L.append(_frame("Depacketizer", dw, hl, f, swap, **full))
        # Packetizer / round trip: (a) packets of >= 2 beats without a pause inside a packet; (a') pauses during
        # which the producer keeps the last payload on the bus (what the generator of the repository test does);
        # (b) pauses inside packets with a don't-care payload; (c) one-beat packets
        for cls in ("Packetizer", "RoundTrip"):
            if cls == "RoundTrip" and tier == "quick" and hl != 3:
                continue
            L.append(_frame(cls, dw, hl, f, swap, minlen=2, maxlen=3, bubbles=0, junk=1))
            L.append(_frame(cls, dw, hl, f, swap, minlen=2, maxlen=3, bubbles=2, junk=1))
            if tier == "quick" and (cls == "RoundTrip" or hl != 3):
                continue
            L.append(_frame(cls, dw, hl, f, swap, minlen=2, maxlen=3, bubbles=1, junk=0))
            L.append(_frame(cls, dw, hl, f, swap, minlen=1, maxlen=2, bubbles=0, junk=0))
            # (d) the complete environment (one-beat packets, pauses inside packets with junk - also a junk `last` - on
            #     the bus): clean since the Packetizer loads its residue register on accepted beats only
            if tier == "thorough" or cls == "Packetizer":
                L.append(_frame(cls, dw, hl, f, swap, **full))
    # --- headers shorter than one data word (header_words = 0)
    short = [(16, H1, 1)]
    if tier == "thorough":
        short += [(32, H3, 1), (32, H2, 0)]
    for dw, (hl, f), swap in short:
        for cls in ("Packetizer", "Depacketizer"):
            L.append(_frame(cls, dw, hl, f, swap, minlen=1, maxlen=2, bubbles=0, junk=0))
    # after a recorded finding the remaining clauses are explored further (thorough tier) for the smallest geometry
    # of every class only
    for spec in L:
        if (spec["dw"], spec["hl"]) in ((16, 3), (16, 1), (8, 2)):
            spec["followup"] = True
    return L


def fifo_configs(tier):
    L = []

    def add(**kw):
        spec = {"fam": "fifo", "cls": "PacketFIFO", "dw": 8, "pw": 1}
        spec.update(kw)
        L.append(spec)
    # (a) environments in which no `last` beat is offered to a full payload FIFO: an always-ready consumer with
    #     packets shorter than the depth, or a credit-based producer (any consumer stalls)
    add(depth=2, maxlen=1, rdy1=1, env="rdy1")
    add(depth=2, maxlen=1, rdy1=1, buffered=True, env="rdy1")
    if tier == "thorough":
        add(depth=3, maxlen=2, rdy1=1, env="rdy1")
    add(depth=2, maxlen=2, credit=2, env="credit")
    add(depth=3, maxlen=2, credit=3, env="credit")
    add(depth=2, maxlen=2, credit=2, buffered=True, env="credit")
    # (b) the complete environment: packets up to the payload depth, producer and consumer stall freely
    add(depth=2, maxlen=2, env="full")
    add(depth=2, maxlen=2, buffered=True, env="full")
    # a param FIFO that can be full while the payload FIFO still has room (param_depth < payload_depth - 1)
    add(depth=3, maxlen=2, pdepth=1, env="full")
    # junk on the bus while the producer offers nothing (data, a set `last`, params), between and inside packets;
    # a layout without params (PacketFIFO then queues a dummy param per packet)
    add(depth=2, maxlen=2, junk=1, env="full")
    add(depth=2, maxlen=2, junk=1, pw=0, pmax=0, env="full")
    if tier == "thorough":
        add(depth=3, maxlen=3, credit=3, env="credit")
        add(depth=3, maxlen=2, credit=3, pdepth=1, env="credit")
        add(depth=3, maxlen=2, credit=3, buffered=True, env="credit")
        add(depth=4, maxlen=3, rdy1=1, npar=1, env="rdy1")
        add(depth=3, maxlen=3, env="full")
        add(depth=4, maxlen=2, pdepth=1, env="full")
        add(depth=4, maxlen=4, npar=1, env="full")
        add(depth=3, maxlen=2, pdepth=1, junk=1, env="full")
        add(depth=2, maxlen=2, junk=1, buffered=True, env="full")
        add(depth=3, maxlen=3, credit=3, junk=1, pw=0, pmax=0, env="credit")
    # after a recorded finding the remaining clauses are explored further (thorough tier) for the smallest DUT only
    for spec in L:
        if spec.get("env") == "full" and spec["depth"] == 2 and not spec.get("buffered"):
            spec["followup"] = True
    return L


def route_configs(tier):
    L = []

    def add(cls, n, m, **kw):
        spec = {"fam": "route", "cls": cls, "n": n, "m": m, "dw": 8, "pw": 2}
        spec.update(kw)
        L.append(spec)
    add("Arbiter", 1, 1, maxlen=2)
    add("Arbiter", 2, 1, maxlen=3)
    add("Arbiter", 3, 1, maxlen=2, npar=1, bubbles=0 if tier == "quick" else 1)
    add("Dispatcher", 1, 1, maxlen=2)
    add("Dispatcher", 1, 2, maxlen=3)
    add("Dispatcher", 1, 2, maxlen=2, one_hot=True, nbad=2)
    add("Dispatcher", 1, 3, maxlen=2, nbad=1, npar=1)
    # masters that drive junk (data, a set `last`, param) while they offer nothing, between and inside packets
    add("Arbiter", 2, 1, maxlen=2, junk=1)
    add("Dispatcher", 1, 2, maxlen=2, junk=1)
    if tier == "thorough":
        add("Dispatcher", 1, 2, maxlen=2, one_hot=True, nbad=2, junk=1)
        add("Arbiter", 3, 1, maxlen=2)
        add("Arbiter", 4, 1, maxlen=1, npar=1)
        add("Dispatcher", 1, 3, maxlen=3, one_hot=True, nbad=2)
        add("Dispatcher", 1, 4, maxlen=2, npar=1)
        add("Dispatcher", 1, 1, maxlen=2, one_hot=True, nbad=1)
    return L
