"""DUT factories and recorders for the 8b/10b family (C17).

Everything here only *drives* the real netlists of litex/soc/cores/code_8b10b.py and writes
down what they did; what is correct is decided by specs/code8b10b/*.tla.
"""
import random

from migen import Module, Signal, Cat

from litex.soc.cores import code_8b10b as c8

# symbols the harness feeds (the specification has its own definition of the defined
# control symbols and rejects any other k=1 stimulus as an illegal environment move)
KSYMS = [(y << 5) | 28 for y in range(8)] + [(7 << 5) | x for x in (23, 27, 29, 30)]
ALPHABET = [(d, 0) for d in range(256)] + [(d, 1) for d in KSYMS]


# ------------------------------------------------------------------------------- tables
def record_tables():
    """the implementation's function tables, read exhaustively from the real SingleEncoder
    and Decoder netlists (both bit orders).
      enc[k][d][rd] = [code10, disp_out]   for all 256 d, k in {0,1}, disp_in in {0,1}
      dec[w]        = [d, k, invalid]      for all 1024 ten-bit words"""
    from ..fhdl_step import Stepper
    tabs = []
    nsteps = 0
    for lsb in (0, 1):
        e = c8.SingleEncoder(bool(lsb))
        st = Stepper(e, [e.d, e.k, e.disp_in, e.ce], [e.output, e.disp_out])
        enc = []
        for k in (0, 1):
            row = []
            for d in range(256):
                cell = []
                for rd in (0, 1):
                    # cycle 1: symbol enters the registered 5b/6b + 3b/4b stage
                    _, s1 = st.step(st.reset_state, (d, k, rd, 1))
                    # cycle 2: the combinational disparity stage shows code word and disparity
                    o, _ = st.step(s1, (0, 0, rd, 1))
                    cell.append([int(o[0]), int(o[1])])
                    nsteps += 2
                row.append(cell)
            enc.append(row)
        dd = c8.Decoder(bool(lsb))
        sd = Stepper(dd, [dd.input, dd.ce], [dd.d, dd.k, dd.invalid])
        dec = []
        for w in range(1024):
            _, s1 = sd.step(sd.reset_state, (w, 1))     # registered decoder: latency 1
            o, _ = sd.step(s1, (0, 0))
            dec.append([int(o[0]), int(o[1]), int(o[2])])
            nsteps += 2
        tabs.append({"lsb": lsb, "enc": enc, "dec": dec})
    return {"tabs": tabs}, nsteps


# ------------------------------------------------------------------------------- word-level traces
def make_words(spec):
    """-> (dut, inputs, outputs) of the plain Encoder / Decoder (clock-enable interface)"""
    if spec["kind"] == "enc":
        e = c8.Encoder(spec["n"], bool(spec["lsb"]))
        ins = [e.ce]
        for i in range(spec["n"]):
            ins += [e.d[i], e.k[i]]
        outs = list(e.output) + list(e.disparity)
        return e, ins, outs
    d = c8.Decoder(bool(spec["lsb"]))
    return d, [d.ce, d.input], [d.d, d.k, d.invalid]


def words_trace(spec, ncycles, rnd, pce=0.8, engine="compiled", schedule=None):
    """plain cycle-by-cycle run of the real Encoder / Decoder from reset (no state loading).
       events   enc: [ce, [[d,k]..], [code..], [disp..]]     dec: [ce, w, d, k, invalid]
       The stimulus is random over the defined alphabet (or the given schedule of input vectors);
       for the encoder the run is extended (up to 6x) until every (lane, symbol, input disparity)
       has been exercised.  -> (events, schedule)"""
    from ..fhdl_step import Stepper
    dut, ins, outs = make_words(spec)
    st = Stepper(dut, ins, outs, engine=engine)
    n = spec.get("n", 1)
    ev, sched = [], []
    st.load(st.reset_state, tuple(0 for _ in ins))
    cyc, limit = 0, ncycles
    missing = None          # per lane: symbols still lacking one of the two input disparities
    ext = 0
    while cyc < limit:
        if schedule is not None:
            if cyc >= len(schedule):
                break
            iv = tuple(schedule[cyc])
        elif spec["kind"] == "enc":
            iv = [1 if rnd.random() < pce else 0]
            for i in range(n):
                if missing is not None and missing[i] and rnd.random() < 0.6:
                    iv += list(rnd.choice(missing[i]))
                else:
                    iv += list(rnd.choice(ALPHABET) if rnd.random() < 0.85 else (rnd.choice(KSYMS), 1))
            iv = tuple(iv)
        else:
            iv = (1 if rnd.random() < pce else 0, rnd.randrange(1024))
        st.load(st.state(), iv)         # registers keep their value: only the inputs are applied
        o = st.peek()
        st.tick()
        sched.append(list(iv))
        if spec["kind"] == "enc":
            xs = [[iv[1 + 2 * i], iv[2 + 2 * i]] for i in range(n)]
            ev.append([iv[0], xs, [int(x) for x in o[:n]], [int(x) for x in o[n:]]])
        else:
            ev.append([iv[0], iv[1], int(o[0]), int(o[1]), int(o[2])])
        cyc += 1
        if cyc == limit and schedule is None and spec["kind"] == "enc" and ext < 60:
            # stimulus steering only: which symbols to offer more often (read off the DUT's own
            # disparity outputs); what the DUT must answer is judged by the specification alone
            cov = enc_coverage(ev, n)
            if len(cov) < n * len(ALPHABET) * 2:
                missing = [sorted({(d, k) for (d, k) in ALPHABET for r in (0, 1) if (i, d, k, r) not in cov})
                           for i in range(n)]
                limit += 200
                ext += 1
    return ev, sched


def enc_coverage(ev, n):
    """which (lane, d, k, input disparity) combinations a recorded Encoder trace exercised; the
    input disparity of lane i is the DUT's own disparity output of lane i-1 (of the last lane of
    the previous vector for lane 0).  Evidence only, never a verdict."""
    cover = set()
    idx = [i for i, e in enumerate(ev) if e[0]]       # enabled cycles
    prev = None
    for j in range(2, len(idx)):
        xs = ev[idx[j - 2]][1]          # vector presented two enabled edges earlier ...
        disps = ev[idx[j]][3]           # ... is what the outputs show now
        if prev is not None:
            rd = prev
            for i in range(n):
                cover.add((i, xs[i][0], xs[i][1], rd))
                rd = disps[i]
        prev = disps[n - 1]
    return cover


# ------------------------------------------------------------------------------- decoder sweep (audit)
def decoder_sweep_prevs(tables, lsb, tier):
    """representative predecessors for the decoder sweep: code words the real encoder produced for a comma
    (K.28.5), K.x.7 words (the A7 sub-block 0111 / 1000 with k detected from the 6b part), K.28.7, data words
    that use the alternate D.x.A7 sub-block (the six 6b exclusions of the k detection), a plain data word and
    two words of impossible weight.  Stimulus only."""
    tab = [t for t in tables["tabs"] if t["lsb"] == lsb][0]

    def cw(d, k, rd):
        return tab["enc"][k][d][rd][0]
    P = [cw(0xBC, 1, 0), cw(0xF7, 1, 1), cw(0xF1, 0, 0), 0x3ff]
    if tier != "quick":
        P += [cw(0xBC, 1, 1), cw(0xFC, 1, 0), cw(0xFC, 1, 1), cw(0xFE, 1, 0), cw(0xEB, 0, 1), cw(0xF4, 0, 0),
              cw(0x00, 0, 0), 0x000]
    out = []
    for w in P:
        if w not in out:
            out.append(w)
    return out


def decoder_sweep_schedule(prevs):
    """[ce, w] per cycle: for every predecessor p and EVERY ten-bit word w:  p and w sampled at consecutive
    enabled edges (the decoder's registers are in the state p left, not in the reset state), then no stall /
    one stalled cycle showing the complement of w / two stalled cycles (complement, p) - rotating, so that
    with >= 3 predecessors every w is also held through stalls of length 1 and 2 while the input shows a word
    of another weight class."""
    sched = []
    for pi, p in enumerate(prevs):
        for w in range(1024):
            sched.append([1, p])
            sched.append([1, w])
            v = (w + pi) % 3
            if v >= 1:
                sched.append([0, w ^ 0x3ff])
            if v == 2:
                sched.append([0, p if p != w else w ^ 0x155])
    sched.append([1, 0])
    sched.append([0, 0])
    return sched


def decoder_sweep_coverage(ev):
    """vacuity witness, measured on the recorded events [ce, w, d, k, invalid] (no verdict):
       pairs  (p, w) sampled at two consecutive enabled cycles
       held   w sampled, then a stalled cycle whose input is a different word"""
    pairs, held = set(), {}
    for a, b in zip(ev, ev[1:]):
        if a[0] == 1 and b[0] == 1:
            pairs.add((a[1], b[1]))
    i = 0
    while i < len(ev):
        if ev[i][0] == 1:
            j = i + 1
            while j < len(ev) and ev[j][0] == 0 and ev[j][1] != ev[i][1]:
                j += 1
            if j - i - 1 >= 1:
                held[ev[i][1]] = max(held.get(ev[i][1], 0), j - i - 1)
        i += 1
    return pairs, held


# ------------------------------------------------------------------------------- stream wrappers
def make(spec):
    """G-mode / T-mode factory of the stream wrappers.
       inputs  = valid, first, last, ready, then per lane  d_i, k_i  (encoder)  or  w_i  (decoder)
       outputs = sink_ready, valid, first, last, then per lane  code_i  (encoder)  or  d_i, k_i (decoder)"""
    n = spec["n"]
    top = Module()
    if spec["cls"] == "StreamEncoder":
        core = c8.StreamEncoder(n)
        top.submodules.core = core
        ds = [Signal(8, name="d%d" % i) for i in range(n)]
        ks = [Signal(1, name="k%d" % i) for i in range(n)]
        top.comb += [core.sink.d.eq(Cat(*ds)), core.sink.k.eq(Cat(*ks))]
        lanes_in = []
        for i in range(n):
            lanes_in += [ds[i], ks[i]]
        lanes_out = [core.source.data[10 * i:10 * (i + 1)] for i in range(n)]
    elif spec["cls"] == "StreamDecoder":
        core = c8.StreamDecoder(n)
        top.submodules.core = core
        ws = [Signal(10, name="w%d" % i) for i in range(n)]
        top.comb += core.sink.data.eq(Cat(*ws))
        lanes_in = ws
        lanes_out = []
        for i in range(n):
            lanes_out += [core.source.d[8 * i:8 * (i + 1)], core.source.k[i]]
    else:
        raise ValueError(spec["cls"])
    ins = [core.sink.valid, core.sink.first, core.sink.last, core.source.ready] + lanes_in
    outs = [core.sink.ready, core.source.valid, core.source.first, core.source.last] + lanes_out
    return top, ins, outs


class Hint:
    """speculation hint for GraphLoop: a producer repeats an unaccepted offer"""
    def init(self, cfg):
        return None

    def allowed(self, cfg, ctx, iv):
        return ctx is None or (iv[0] == 1 and (iv[1], iv[2]) + tuple(iv[4:]) == ctx)

    def next(self, cfg, ctx, iv, o):
        if iv[0] == 1 and o[0] == 0:
            return (iv[1], iv[2]) + tuple(iv[4:])
        return None


def _scfg(kind, n, alpha, fl, idle, cap):
    return {"kind": kind, "n": n, "lsb": 1, "alpha": [list(a) for a in alpha], "fl": fl, "idle": idle,
            "cap": cap, "full": 0}


def stream_configs(tier, tables):
    """(python spec, TLA+ cfg) pairs for the exhaustive product.  Alphabets are small but contain a
    neutral symbol (D.0.0), disparity-flipping data symbols (D.3.0, alternate-D.x.7 user D.11.7), a
    symbol whose code is the same under both disparities (D.3.1) and a comma (K.28.5).  The decoder
    alphabet is made of code words the real encoder produced (both disparities) plus an illegal word."""
    lsb1 = [t for t in tables["tabs"] if t["lsb"] == 1][0]
    esyms = [(0, 0), (3, 0), (0xBC, 1), (0xEB, 0), (0x23, 0)]
    codes = []
    for d, k in [(0, 0), (0xBC, 1), (0xEB, 0), (0xFC, 1)]:
        for rd in (0, 1):
            w = lsb1["enc"][k][d][rd][0]
            if w not in codes:
                codes.append(w)
    L = []
    # --- encoder, idle cycles carry the all-zero payload
    L.append(({"cls": "StreamEncoder", "n": 1, "idle": "zero"}, _scfg("enc", 1, esyms[:4], 0, "zero", 4)))
    L.append(({"cls": "StreamEncoder", "n": 1, "idle": "zero"}, _scfg("enc", 1, esyms[1:3], 1, "zero", 4)))
    L.append(({"cls": "StreamEncoder", "n": 2, "idle": "zero"}, _scfg("enc", 2, esyms[:3], 0, "zero", 4)))
    # --- encoder, idle cycles carry any payload (legal for a stream producer: the payload is a
    #     don't-care while valid = 0; e.g. an upstream Buffer keeps showing the last token)
    L.append(({"cls": "StreamEncoder", "n": 1, "idle": "any"}, _scfg("enc", 1, esyms[:4], 0, "any", 4)))
    # --- decoder
    L.append(({"cls": "StreamDecoder", "n": 1, "idle": "any"},
              _scfg("dec", 1, [(w,) for w in codes[:4] + [0x3ff]], 1, "any", 4)))
    L.append(({"cls": "StreamDecoder", "n": 2, "idle": "zero"},
              _scfg("dec", 2, [(w,) for w in codes[:3]], 0, "zero", 4)))
    if tier == "thorough":
        L.append(({"cls": "StreamEncoder", "n": 1, "idle": "zero"}, _scfg("enc", 1, esyms, 1, "zero", 4)))
        L.append(({"cls": "StreamEncoder", "n": 2, "idle": "zero"}, _scfg("enc", 2, esyms[:4], 0, "zero", 4)))
        L.append(({"cls": "StreamEncoder", "n": 3, "idle": "zero"}, _scfg("enc", 3, esyms[1:3], 0, "zero", 4)))
        L.append(({"cls": "StreamEncoder", "n": 2, "idle": "any"}, _scfg("enc", 2, esyms[:3], 0, "any", 4)))
        L.append(({"cls": "StreamDecoder", "n": 1, "idle": "any"},
                  _scfg("dec", 1, [(w,) for w in codes + [0x3ff, 0x0f0]], 1, "any", 4)))
        L.append(({"cls": "StreamDecoder", "n": 2, "idle": "any"},
                  _scfg("dec", 2, [(w,) for w in codes[:4]], 1, "any", 4)))
    # the same DUT must not appear twice in one batch with the same python spec: tag them
    for i, (s, c) in enumerate(L):
        s["tag"] = i
    return L


def stream_witnesses(ev, kind):
    """vacuity witnesses of a recorded wrapper trace [iv, o] (no verdict): back-pressured cycles (output valid,
    consumer not ready), the longest such stall, idle cycles between tokens, idle cycles that carry a non-zero
    payload, offers that had to wait for sink.ready"""
    w = {"backpressure_cycles": 0, "longest_stall": 0, "idle_cycles": 0, "idle_cycles_with_payload": 0,
         "offers_waiting": 0}
    run = 0
    seen = False
    for iv, o in ev:
        if o[1] == 1 and iv[3] == 0:
            w["backpressure_cycles"] += 1
            run += 1
            w["longest_stall"] = max(w["longest_stall"], run)
        else:
            run = 0
        if iv[0] == 1:
            seen = True
            if o[0] == 0:
                w["offers_waiting"] += 1
        elif seen:
            w["idle_cycles"] += 1
            if any(iv[4:]):
                w["idle_cycles_with_payload"] += 1
    return w


def stream_trace(spec, cfg, ncycles, rnd, pvalid, pready, runs=None):
    """ordinary Migen simulation (run_simulation with a generator) of a real wrapper at the full
    alphabet with random valid/ready; logs [iv, o] per cycle in the layout of make().
    runs = r: bursty schedule - the consumer's ready and the producer's gaps keep their previous decision
    with probability 1 - 1/r (long stalls and long idle gaps instead of independent coin flips)."""
    from litex.gen.sim.core import run_simulation
    dut, ins, outs = make(spec)
    n = spec["n"]
    ev = []

    def payload():
        if cfg["kind"] == "enc":
            out = []
            for _ in range(n):
                d, k = rnd.choice(ALPHABET) if rnd.random() < 0.8 else (rnd.choice(KSYMS), 1)
                out += [d, k]
            return out
        return [rnd.randrange(1024) for _ in range(n)]

    sticky = {"rdy": 1, "gap": 0}

    def ready_now():
        if runs is None or rnd.random() < 1.0 / runs:
            sticky["rdy"] = 1 if rnd.random() < pready else 0
        return sticky["rdy"]

    def offer_now():
        if runs is None or rnd.random() < 1.0 / runs:
            sticky["gap"] = 0 if rnd.random() < pvalid else 1
        return not sticky["gap"]

    def gen():
        cur = None
        for cyc in range(ncycles):
            vals = []
            for s in ins:
                vals.append((yield s))
            o = []
            for e in outs:
                o.append((yield e))
            if cyc > 0:
                ev.append([[int(x) for x in vals], [int(x) for x in o]])
            if cur is not None and vals[0] == 1 and o[0] == 1:
                cur = None
            if cur is None and offer_now():
                cur = [rnd.randint(0, 1) if cfg["fl"] else 0, rnd.randint(0, 1) if cfg["fl"] else 0] + payload()
            if cur is None:
                idle = payload() if cfg["idle"] == "any" else [0] * (len(ins) - 4)
                nv = [0, 0, 0, ready_now()] + idle
            else:
                nv = [1, cur[0], cur[1], ready_now()] + cur[2:]
            for s, x in zip(ins, nv):
                yield s.eq(x)
            yield
    run_simulation(dut, gen())
    return ev
