"""DUT factory for C09: bus bridges, AXI-Lite width converters and the AXI-Lite SRAM, seen by a master
as a flat memory and by their slave side as a protocol-legal master.

Every DUT is   master driver (Env inputs) -> real bridge / converter -> stall shim (Env gates) -> the
repository's own memory of the slave-side protocol,  so memory contents are part of the explored
state and everything between the two harness ends is repository code.

spec keys: mp (master protocol: axil, wb, axi, ahb), kind, lanes (master byte lanes), words (master
words), init, k, dirs, strbs/datas (write alphabet), gfree (gate groups), bad (1: upper half of the
memory is a faulting region), base, idle_addr, ...
Environment freedoms / parameter classes added by the C09 audit (all optional, default off):
  wbidle=1      Wishbone master: cyc without stb and stb without cyc (with request payload) between requests
  badrange=[lo, hi)  faulting region = these bytes only, aligned to the narrow (slave) word: a master word of a
                down-converter can be partly faulting (needs bad=1)
  wbaddr="byte" the bridge's Wishbone side is byte addressed (axil2wb, axi2wb, ahb2wb)
  xfers=[[addr, write, size], ...]  AHB: explicit transfer list (64-bit buses)
  nosel=1       AHB master: NONSEQ address phases with HSEL low
  kind="chain_s2m_wb"  SoCBusHandler.add_adapter(direction="s2m"): Wishbone slave on an AXI-Lite bus
  ahead=1       (with wbuf / abuf) the slave-side monitor counts what the partner accepted ahead, for witnesses
  wit=[...]     witnesses (printed by TLC, specs/bridges/BridgeWit.tla) the exploration of this DUT must show
"""
from migen import Module, Signal, Cat, Constant, Memory, Mux, If, Replicate

from litex.soc.interconnect import wishbone, csr_bus, ahb, stream
from litex.soc.interconnect.axi import axi_lite, axi_full, axi_lite_to_wishbone, axi_full_to_axi_lite, \
    axi_full_to_wishbone, axi_lite_to_csr
from litex.soc.interconnect.axi.axi_common import RESP_SLVERR

ADDRW = 8          # address width of the reduced AXI / AXI-Lite buses (bytes)
NM = {"axil": 9, "wb": 5, "axi": 14, "ahb": 5}


# ------------------------------------------------------------------------------------ images
def image(spec):
    n = spec["words"] * spec["lanes"]
    pat = spec.get("init", "idx")
    if pat == "zero":
        return [0] * n
    if pat == "alt":
        return [(b % 2) ^ ((b // 2) % 2) for b in range(n)]
    if pat == "idx":
        return [(0xd2b9 >> (b % 16)) & 1 for b in range(n)]
    raise ValueError(pat)


def _words(img, lanes):
    out = []
    for w in range(len(img) // lanes):
        v = 0
        for l in range(lanes):
            v |= (img[w * lanes + l] & 0xff) << (8 * l)
        out.append(v)
    return out


def _pack2(sig, lanes):
    """2 bits of every byte lane (enough to compare a payload for stability)"""
    return Cat(*[sig[8 * l:8 * l + 2] for l in range(lanes)])


def _bytes(sig, lanes):
    return [sig[8 * l:8 * l + 8] for l in range(lanes)]


def _spread(bits, lanes):
    """one Env bit per lane -> byte lanes carrying 0 / 1"""
    return Cat(*[Cat(bits[l], Constant(0, 7)) for l in range(lanes)])


# ------------------------------------------------------------------------------------ backing memories
def _wb_sram(top, lanes, img, adr_width, read_only=False):
    bus = wishbone.Interface(data_width=8 * lanes, adr_width=adr_width, addressing="word")
    top.submodules += wishbone.SRAM(len(img), init=_words(img, lanes), bus=bus, read_only=read_only)
    return bus


def _axil_sram(top, lanes, img, read_only=False, addrw=ADDRW):
    bus = axi_lite.AXILiteInterface(data_width=8 * lanes, address_width=addrw)
    top.submodules += axi_lite.AXILiteSRAM(len(img), init=_words(img, lanes), bus=bus, read_only=read_only)
    return bus


def _axi_mem(top, lanes, img, addrw=ADDRW):
    """there is no AXI4 memory in the repository: AXI2AXILite in front of the AXI-Lite SRAM"""
    bus = axi_full.AXIInterface(data_width=8 * lanes, address_width=addrw, id_width=1)
    lite = _axil_sram(top, lanes, img, addrw=addrw)
    top.submodules += axi_full_to_axi_lite.AXI2AXILite(bus, lite)
    return bus


def _soc_adapter(top, standard, data_width, interface, direction):
    import logging
    from litex.soc.integration.soc import SoCBusHandler
    logging.getLogger("SoCBusHandler").setLevel(logging.ERROR)
    bus = SoCBusHandler(standard=standard, data_width=data_width, address_width=32)
    top.submodules.bus = bus
    return bus.add_adapter("dut", interface, direction)


# ------------------------------------------------------------------------------------ stall shims
def _gate_req(top, up, dn, g):
    """request channel bridge -> memory, stalled while g = 0 (an offer the memory has seen stays)"""
    held, ge = Signal(), Signal()
    top.comb += [ge.eq(g | held), up.connect(dn, omit={"valid", "ready"}),
                 dn.valid.eq(up.valid & ge), up.ready.eq(dn.ready & ge)]
    top.sync += held.eq(dn.valid & ~dn.ready)


def _gate_resp(top, dn, up, g):
    """response channel memory -> bridge, delayed while g = 0 (an offer the bridge has seen stays)"""
    held, ge = Signal(), Signal()
    top.comb += [ge.eq(g | held), dn.connect(up, omit={"valid", "ready"}),
                 up.valid.eq(dn.valid & ge), dn.ready.eq(up.ready & ge)]
    top.sync += held.eq(up.valid & ~up.ready)


def _axi_shim(top, up, dn, gates, badbyte=None, wbuf=False, abuf=False, badend=None):
    """AXI-Lite / AXI stall shim between the bridge's master port `up` and the memory `dn`.
    wbuf / abuf: a stream.Buffer in front of the gate on W / on AW and AR, i.e. a partner that accepts
    data before its address / addresses ahead of the memory"""
    ga, gw, gb, gr, gR = gates

    def buffered(ch, on):
        if not on:
            return ch
        buf = stream.Buffer(ch.description)
        top.submodules += buf
        top.comb += ch.connect(buf.sink)
        return buf.source
    _gate_req(top, buffered(up.aw, abuf), dn.aw, ga)
    _gate_req(top, buffered(up.w, wbuf), dn.w, gw)
    _gate_req(top, buffered(up.ar, abuf), dn.ar, gr)
    _gate_resp(top, dn.b, up.b, gb)
    _gate_resp(top, dn.r, up.r, gR)
    if badbyte is not None:
        # faulting region: the (single outstanding, in order) memory's answers to it become SLVERR
        bad_w, bad_r = Signal(), Signal()
        def isbad(a):
            return (a >= badbyte) if badend is None else ((a >= badbyte) & (a < badend))
        top.sync += [If(dn.aw.valid & dn.aw.ready, bad_w.eq(isbad(dn.aw.addr))),
                     If(dn.ar.valid & dn.ar.ready, bad_r.eq(isbad(dn.ar.addr)))]
        top.comb += [If(bad_w, up.b.resp.eq(RESP_SLVERR)), If(bad_r, up.r.resp.eq(RESP_SLVERR))]


def _wb_shim(top, up, dn, go, badword=None, shift=0):
    """Wishbone stall shim: the SRAM sees the cycle only while go = 1 and acknowledges one cycle later.
    shift: `up` is byte addressed (wishbone.SRAM is word addressed only): the shim drops the lane bits"""
    wadr = up.adr[shift:] if shift else up.adr
    top.comb += [dn.cyc.eq(up.cyc & go), dn.stb.eq(up.stb & go), dn.we.eq(up.we), dn.adr.eq(wadr),
                 dn.sel.eq(up.sel), dn.dat_w.eq(up.dat_w), up.ack.eq(dn.ack), up.dat_r.eq(dn.dat_r)]
    if badword is not None:
        top.comb += up.err.eq(dn.ack & (wadr >= badword))


def _axi_souts(up, lanes, full):
    def m(v, x):
        return Mux(v, x, 0)
    o = [up.aw.valid, m(up.aw.valid, up.aw.addr), up.aw.ready,
         up.w.valid, m(up.w.valid, up.w.strb), m(up.w.valid, _pack2(up.w.data, lanes)), up.w.ready,
         up.b.valid, up.b.ready,
         up.ar.valid, m(up.ar.valid, up.ar.addr), up.ar.ready,
         up.r.valid, up.r.ready]
    if full:
        o += [m(up.aw.valid, up.aw.len), m(up.aw.valid, up.aw.size), m(up.aw.valid, up.aw.burst),
              m(up.w.valid, up.w.last),
              m(up.ar.valid, up.ar.len), m(up.ar.valid, up.ar.size), m(up.ar.valid, up.ar.burst)]
    return o


def _wb_souts(up, lanes):
    act = up.cyc & up.stb
    return [up.cyc, up.stb, Mux(act, up.we, 0), Mux(act, up.adr, 0), Mux(act, up.sel, 0),
            Mux(act & up.we, _pack2(up.dat_w, lanes), 0), up.ack]


# ------------------------------------------------------------------------------------ master drivers
def _axil_master(top, spec, m):
    L = spec["lanes"]
    base = spec.get("base", 0)
    idle = spec.get("idle_addr", 0)
    awv, awa, wv, wstrb, wdata, bready = Signal(), Signal(max=max(2, spec["words"])), Signal(), Signal(L), Signal(L), Signal()
    arv, ara, rready = Signal(), Signal(max=max(2, spec["words"])), Signal()
    top.comb += [
        m.aw.valid.eq(awv), m.aw.addr.eq(Mux(awv, base + awa * L, idle)),
        m.w.valid.eq(wv), m.w.strb.eq(wstrb), m.w.data.eq(_spread(wdata, L)),
        m.b.ready.eq(bready),
        m.ar.valid.eq(arv), m.ar.addr.eq(Mux(arv, base + ara * L, idle)),
        m.r.ready.eq(rready),
    ]
    ins = [awv, awa, wv, wstrb, wdata, bready, arv, ara, rready]
    outs = [m.aw.ready, m.w.ready, m.b.valid, Mux(m.b.valid, m.b.resp, 0), m.ar.ready, m.r.valid,
            Mux(m.r.valid, m.r.resp, 0)] + [Mux(m.r.valid, x, 0) for x in _bytes(m.r.data, L)]
    return ins, outs


def _wb_master(top, spec, m, byte_addressing=False):
    L = spec["lanes"]
    base = spec.get("base", 0)
    # req: 0 idle, 1 request (cyc & stb), 2 cyc only, 3 stb only (2, 3: Env flag wbidle)
    req, adr, we, sel, data = Signal(2), Signal(max=max(2, spec["words"])), Signal(), Signal(L), Signal(L)
    top.comb += [m.cyc.eq((req == 1) | (req == 2)), m.stb.eq((req == 1) | (req == 3)), m.we.eq(we), m.sel.eq(sel),
                 m.dat_w.eq(_spread(data, L)),
                 m.adr.eq((base + adr * L) if byte_addressing else (base // L + adr))]
    outs = [m.ack, m.err] + _bytes(m.dat_r, L)
    return [req, adr, we, sel, data], outs


def _axi_master(top, spec, m):
    L = spec["lanes"]
    base = spec.get("base", 0)
    nw = max(2, spec["words"])
    awv, wa, wlen, wburst = Signal(), Signal(max=nw), Signal(2), Signal(2)
    wv, wstrb, wdata, wlast, bready = Signal(), Signal(L), Signal(L), Signal(), Signal()
    arv, ra, rlen, rburst, rready = Signal(), Signal(max=nw), Signal(2), Signal(2), Signal()
    size = (L - 1).bit_length()
    top.comb += [
        m.aw.valid.eq(awv), m.w.valid.eq(wv), m.b.ready.eq(bready), m.ar.valid.eq(arv), m.r.ready.eq(rready),
        If(awv, m.aw.addr.eq(base + wa * L), m.aw.len.eq(wlen), m.aw.burst.eq(wburst), m.aw.size.eq(size),
           m.aw.id.eq((wa + wlen)[0])),
        m.w.strb.eq(wstrb), m.w.data.eq(_spread(wdata, L)), m.w.last.eq(wlast),
        If(arv, m.ar.addr.eq(base + ra * L), m.ar.len.eq(rlen), m.ar.burst.eq(rburst), m.ar.size.eq(size),
           m.ar.id.eq((ra + rlen)[0])),
    ]
    ins = [awv, wa, wlen, wburst, wv, wstrb, wdata, wlast, bready, arv, ra, rlen, rburst, rready]
    outs = [m.aw.ready, m.w.ready, m.b.valid, Mux(m.b.valid, m.b.resp, 0), Mux(m.b.valid, m.b.id, 0),
            m.ar.ready, m.r.valid, Mux(m.r.valid, m.r.resp, 0), Mux(m.r.valid, m.r.id, 0),
            Mux(m.r.valid, m.r.last, 0)] + [Mux(m.r.valid, x, 0) for x in _bytes(m.r.data, L)]
    return ins, outs


def _ahb_master(top, spec, m):
    L = spec["lanes"]
    base = spec.get("base", 0)
    # trans: 0 IDLE, 1 NONSEQ to this slave, 2 NONSEQ with HSEL low (Env flag nosel)
    trans, addr, write, size, wdata = Signal(2), Signal(max=max(2, spec["words"] * L)), Signal(), Signal(2), Signal(L)
    top.comb += [m.sel.eq(trans != 2),
                 m.trans.eq(Mux(trans != 0, ahb.AHBTransferType.NONSEQUENTIAL, ahb.AHBTransferType.IDLE)),
                 m.addr.eq(Mux(trans != 0, base + addr, 0)), m.write.eq(write), m.size.eq(size),
                 m.wdata.eq(_spread(wdata, L))]
    return [trans, addr, write, size, wdata], [m.readyout, m.resp] + _bytes(m.rdata, L)


# ------------------------------------------------------------------------------------ the DUTs
def slave_lanes(spec):
    L = spec["lanes"]
    k = spec["kind"]
    if k == "down":
        return L // spec["ratio"]
    if k == "up":
        return L * spec["ratio"]
    if k in ("chain_wb_axil", "chain_axil_wb", "chain_s2m_wb"):
        return spec["slanes"]
    return spec.get("slanes", L)


def slave_proto(spec):
    return {"sram": "none", "axil2wb": "wb", "down": "axil", "up": "axil", "conv": "axil", "axil2csr": "csr",
            "axil2axi": "axi", "wb2axil": "axil", "wb2axi": "axi", "axi2axil": "axil", "axi2wb": "wb",
            "ahb2wb": "wb", "chain_wb_axil": "axil", "chain_axil_wb": "wb", "chain_s2m_wb": "wb"}[spec["kind"]]


def make(spec):
    mp, kind = spec["mp"], spec["kind"]
    L, words = spec["lanes"], spec["words"]
    SL = slave_lanes(spec)
    img = image(spec)
    nbytes = len(img)
    badbyte = nbytes // 2 if spec.get("bad") else None
    badend = None
    if spec.get("badrange"):
        # faulting region at the granularity of the slave (narrow) word: only where the backing memory is the
        # narrow one, i.e. behind a down-converter
        assert spec.get("bad") and kind in ("down", "conv") and SL < L
        badbyte, badend = spec["badrange"]
        assert badbyte % SL == 0 and badend % SL == 0 and 0 <= badbyte < badend <= nbytes
    wbbyte = spec.get("wbaddr", "word") == "byte"
    top = Module()
    gates = [Signal(name="g%d" % i) for i in range(5)]
    souts = []
    if mp == "axil":
        m = axi_lite.AXILiteInterface(data_width=8 * L, address_width=ADDRW)
        if kind == "sram":
            mem = _axil_sram(top, L, img, read_only=bool(spec.get("read_only")))
            top.comb += m.connect(mem)
        elif kind == "axil2wb":
            shift = (L - 1).bit_length()
            wb = wishbone.Interface(data_width=8 * L, adr_width=ADDRW - shift, addressing="byte" if wbbyte else "word")
            assert len(wb.adr) == (ADDRW if wbbyte else ADDRW - shift)
            mem = _wb_sram(top, L, img, ADDRW - shift)
            top.submodules += axi_lite_to_wishbone.AXILite2Wishbone(m, wb, base_address=spec.get("base", 0))
            _wb_shim(top, wb, mem, gates[0], None if badbyte is None else badbyte // SL, shift if wbbyte else 0)
            souts = _wb_souts(wb, SL)
        elif kind in ("down", "up", "conv"):
            s = axi_lite.AXILiteInterface(data_width=8 * SL, address_width=ADDRW)
            mem = _axil_sram(top, SL, img)
            cls = {"down": axi_lite.AXILiteDownConverter, "up": axi_lite.AXILiteUpConverter,
                   "conv": axi_lite.AXILiteConverter}[kind]
            top.submodules += cls(m, s)
            _axi_shim(top, s, mem, gates, badbyte, wbuf=bool(spec.get("wbuf")), abuf=bool(spec.get("abuf")), badend=badend)
            souts = _axi_souts(s, SL, False)
        elif kind == "axil2csr":
            csr = csr_bus.Interface(data_width=8 * L, address_width=ADDRW)
            memory = Memory(8 * L, words, init=_words(img, L), name="m")
            top.submodules += csr_bus.SRAM(memory, 0, bus=csr, paging=0x800)
            top.submodules += axi_lite_to_csr.AXILite2CSR(m, csr)
            souts = [Mux(csr.we | csr.re, csr.adr, 0), csr.we, csr.re, Mux(csr.we, _pack2(csr.dat_w, L), 0)]
        elif kind == "axil2axi":
            s = axi_full.AXIInterface(data_width=8 * L, address_width=ADDRW, id_width=1)
            mem = _axi_mem(top, L, img)
            top.submodules += axi_full_to_axi_lite.AXILite2AXI(m, s)
            _axi_shim(top, s, mem, gates, None, wbuf=bool(spec.get("wbuf")), abuf=bool(spec.get("abuf")))
            souts = _axi_souts(s, SL, True)
        elif kind == "chain_axil_wb":
            # what SoCBusHandler.add_adapter really builds for an AXI-Lite master of 8*L bits on a
            # Wishbone bus of 8*SL bits: AXILiteConverter + AXILite2Wishbone
            m = axi_lite.AXILiteInterface(data_width=8 * L, address_width=32)
            wb = _soc_adapter(top, "wishbone", 8 * SL, m, "m2s")
            assert isinstance(wb, wishbone.Interface) and wb.data_width == 8 * SL
            mem = _wb_sram(top, SL, img, 30)
            _wb_shim(top, wb, mem, gates[0], None)
            souts = _wb_souts(wb, SL)
        elif kind == "chain_s2m_wb":
            # what SoCBusHandler.add_adapter(direction="s2m") builds for a word addressed Wishbone slave of 8*SL
            # bits on an AXI-Lite bus of 8*L bits (the usual way a Wishbone peripheral joins an AXI-Lite SoC):
            # AXILite2Wishbone with a BYTE addressed Wishbone side, the byte->word address adaptation of the
            # s2m branch and, if SL != L, wishbone.Converter
            wb = wishbone.Interface(data_width=8 * SL, address_width=32, addressing="word")
            m = _soc_adapter(top, "axi-lite", 8 * L, wb, "s2m")
            assert isinstance(m, axi_lite.AXILiteInterface) and m.data_width == 8 * L
            mem = _wb_sram(top, SL, img, 30)
            _wb_shim(top, wb, mem, gates[0], None)
            souts = _wb_souts(wb, SL)
        else:
            raise ValueError(kind)
        ins, outs = _axil_master(top, spec, m)
    elif mp == "wb":
        shift = (L - 1).bit_length()
        m = wishbone.Interface(data_width=8 * L, adr_width=ADDRW - shift, addressing="word")
        if kind == "wb2axil":
            s = axi_lite.AXILiteInterface(data_width=8 * L, address_width=ADDRW)
            mem = _axil_sram(top, L, img)
            top.submodules += axi_lite_to_wishbone.Wishbone2AXILite(m, s, base_address=spec.get("base", 0))
            _axi_shim(top, s, mem, gates, badbyte, wbuf=bool(spec.get("wbuf")), abuf=bool(spec.get("abuf")))
            souts = _axi_souts(s, SL, False)
        elif kind == "wb2axi":
            s = axi_full.AXIInterface(data_width=8 * L, address_width=ADDRW, id_width=1)
            mem = _axi_mem(top, L, img)
            top.submodules += axi_full_to_wishbone.Wishbone2AXI(m, s, base_address=spec.get("base", 0))
            _axi_shim(top, s, mem, gates, None, wbuf=bool(spec.get("wbuf")), abuf=bool(spec.get("abuf")))
            souts = _axi_souts(s, SL, True)
        elif kind == "chain_wb_axil":
            # Wishbone master of 8*L bits on an AXI-Lite bus of 8*SL bits: wishbone.Converter, word->byte
            # address adaptation and Wishbone2AXILite, as built by SoCBusHandler.add_adapter
            m = wishbone.Interface(data_width=8 * L, address_width=32, addressing="word")
            s = _soc_adapter(top, "axi-lite", 8 * SL, m, "m2s")
            assert isinstance(s, axi_lite.AXILiteInterface) and s.data_width == 8 * SL
            mem = _axil_sram(top, SL, img, addrw=32)
            _axi_shim(top, s, mem, gates, None, wbuf=bool(spec.get("wbuf")), abuf=bool(spec.get("abuf")))
            souts = _axi_souts(s, SL, False)
        else:
            raise ValueError(kind)
        ins, outs = _wb_master(top, spec, m)
    elif mp == "axi":
        m = axi_full.AXIInterface(data_width=8 * L, address_width=ADDRW, id_width=1)
        if kind == "axi2axil":
            s = axi_lite.AXILiteInterface(data_width=8 * L, address_width=ADDRW)
            mem = _axil_sram(top, L, img)
            top.submodules += axi_full_to_axi_lite.AXI2AXILite(m, s)
            _axi_shim(top, s, mem, gates, badbyte, wbuf=bool(spec.get("wbuf")), abuf=bool(spec.get("abuf")))
            souts = _axi_souts(s, SL, False)
        elif kind == "axi2wb":
            shift = (L - 1).bit_length()
            wb = wishbone.Interface(data_width=8 * L, adr_width=ADDRW - shift, addressing="byte" if wbbyte else "word")
            mem = _wb_sram(top, L, img, ADDRW - shift)
            top.submodules += axi_full_to_wishbone.AXI2Wishbone(m, wb, base_address=spec.get("base", 0))
            _wb_shim(top, wb, mem, gates[0], None if badbyte is None else badbyte // SL, shift if wbbyte else 0)
            souts = _wb_souts(wb, SL)
        else:
            raise ValueError(kind)
        ins, outs = _axi_master(top, spec, m)
    elif mp == "ahb":
        shift = (L - 1).bit_length()
        m = ahb.AHBInterface(data_width=8 * L, address_width=ADDRW)
        wb = wishbone.Interface(data_width=8 * L, adr_width=ADDRW - shift, addressing="byte" if wbbyte else "word")
        mem = _wb_sram(top, L, img, ADDRW - shift)
        top.submodules += ahb.AHB2Wishbone(m, wb)
        _wb_shim(top, wb, mem, gates[0], None if badbyte is None else badbyte // SL, shift if wbbyte else 0)
        souts = _wb_souts(wb, SL)
        ins, outs = _ahb_master(top, spec, m)
    else:
        raise ValueError(mp)
    return top, ins + gates, outs + souts


# ------------------------------------------------------------------------------------ TLA+ configuration
def walpha(spec):
    L = spec["lanes"]
    strbs = spec.get("strbs", list(range(2 ** L)))
    datas = spec.get("datas", list(range(2 ** L)))
    out = []
    for s in strbs:
        for d in datas:
            p = [s, d & s]
            if p not in out:
                out.append(p)
    return out


def tla_cfg(spec):
    L = spec["lanes"]
    mp = spec["mp"]
    img = image(spec)
    mo = {"axil": 7 + L, "wb": 2 + L, "axi": 10 + L, "ahb": 2 + L}[mp]
    extra = {}
    if spec.get("wbidle"):
        assert mp == "wb"
        extra["wbidle"] = 1
    if spec.get("badrange"):
        extra["badhi"] = spec["badrange"][1]
    if spec.get("ahead"):
        assert spec.get("wbuf") or spec.get("abuf")
        extra["ahead"] = 1
    if spec.get("nosel"):
        assert mp == "ahb"
        extra["nosel"] = 1
    if spec.get("xfers"):
        assert mp == "ahb"
        extra["xfers"] = [list(x) for x in spec["xfers"]]
    return dict(extra, **_tla_cfg(spec, L, mp, img, mo))


def _tla_cfg(spec, L, mp, img, mo):
    return {"mp": mp, "sp": slave_proto(spec), "lanes": L, "words": spec["words"], "init": img,
            "k": spec.get("k", 1), "serial": int(spec.get("serial", 0)), "awfirst": int(spec.get("awfirst", 0)), "dirs": spec.get("dirs", "rw"), "walpha": walpha(spec), "wwords": list(spec.get("wwords", range(spec["words"]))),
            "rwords": list(spec.get("rwords", range(spec["words"]))), "rsels": list(spec.get("rsels", [2 ** L - 1])),
            "sizes": list(spec.get("sizes", [0, 1, 2])),
            "addrs": list(spec.get("addrs", range(spec["words"] * L))), "datas": list(spec.get("datas", [5, 10])),
            "plans": [list(p) for p in spec.get("plans", [[0, 0, 1]])],
            "readonly": int(bool(spec.get("read_only"))),
            "badlo": ((spec["badrange"][0] + 1) if spec.get("badrange") else (len(img) // 2 + 1)) if spec.get("bad") else 0,
            "gfree": list(spec.get("gfree", [0, 0, 0, 0, 0])), "mo": mo, "slanes": slave_lanes(spec)}


# ------------------------------------------------------------------------------------ speculation hint
class Hint:
    """speculation hint: a Python mirror of the Env's choice of inputs (which offers are held, which
    readys are free, ...).  It is an accelerator only - it decides which edges are computed ahead of
    TLC's requests; verdicts never depend on it (a wrong hint costs rounds or unused edges)."""
    def init(self, cfg):
        mp = cfg["mp"]
        if mp == "axil":
            return (0, None, 0, 0, 0, 0)
        if mp == "axi":
            return (None, 0, 0, None, None, 0, 0)
        if mp == "ahb":
            return (None, None)
        return None

    # ---------------------------------------------------------------- AXI-Lite master
    def _axil_allowed(self, cfg, ctx, iv):
        aw, w, nwa, nwd, arh, nacc = ctx
        awv, awa, wv, ws, wdt, br, arv, ara, rr = iv[:9]
        k, dirs = cfg["k"], cfg["dirs"]
        if aw:
            if not awv or awa != aw - 1:
                return False
        elif awv and (dirs == "r" or nwa >= k):
            return False
        if w is not None:
            if not wv or (ws, wdt) != w:
                return False
        elif wv and (dirs == "r" or nwd >= k):
            return False
        if arh:
            if not arv or ara != arh - 1:
                return False
        elif arv and (dirs == "w" or nacc >= k):
            return False
        if not ((nwa or awv) and (nwd or wv)) and not br:
            return False
        if not (nacc or arh or arv) and not rr:
            return False
        if cfg["serial"] and (awv or wv or nwa or nwd) and (arv or nacc or arh):
            return False
        if cfg.get("awfirst") and wv and nwd + 1 > nwa + (1 if awv else 0):
            return False
        return True

    def _axil_next(self, cfg, ctx, iv, o):
        aw, w, nwa, nwd, arh, nacc = ctx
        awv, awa, wv, ws, wdt, br, arv, ara, rr = iv[:9]
        awfire, wfire, arfire = awv and o[0], wv and o[1], arv and o[4]
        nwa += 1 if awfire else 0
        nwd += 1 if wfire else 0
        if o[2] and br and nwa and nwd:
            nwa -= 1
            nwd -= 1
        nacc += 1 if arfire else 0
        if o[5] and rr and nacc:
            nacc -= 1
        return (awa + 1 if awv and not awfire else 0, (ws, wdt) if wv and not wfire else None, nwa, nwd,
                ara + 1 if arv and not arfire else 0, nacc)

    # ---------------------------------------------------------------- AXI master
    def _axi_allowed(self, cfg, ctx, iv):
        wreq, awst, nwd, wh, rreq, arst, nrexp = ctx
        awv, pa, pl, pb, wv, ws, wdt, wl, br, arv, ra, rl, rb, rr = iv[:14]
        dirs = cfg["dirs"]
        if wreq is not None:
            if (pa, pl, pb) != wreq or (awst == 1 and not awv) or (awst == 2 and awv):
                return False
            if wh is not None:
                if not wv or (ws, wdt) != wh:
                    return False
            elif wv and nwd > pl:
                return False
            if wv and wl != int(nwd == pl):
                return False
        elif awv or wv:
            if dirs == "r" or [pa, pl, pb] not in cfg["plans"] or (wv and wl != int(pl == 0)):
                return False
        elif pa or pl or pb:
            return False
        if rreq is not None:
            if arv != int(arst == 1) or (arv and (ra, rl, rb) != rreq) or (not arv and (ra or rl or rb)):
                return False
        elif arv:
            if dirs == "w" or [ra, rl, rb] not in cfg["plans"]:
                return False
        wnow = wreq is not None or awv or wv
        rnow = rreq is not None or arv
        if (not wnow and not br) or (not rnow and not rr):
            return False
        if cfg["serial"] and wnow and rnow:
            return False
        return True

    def _axi_next(self, cfg, ctx, iv, o):
        wreq, awst, nwd, wh, rreq, arst, nrexp = ctx
        awv, pa, pl, pb, wv, ws, wdt, wl, br, arv, ra, rl, rb, rr = iv[:14]
        if wreq is None and (awv or wv):
            wreq = (pa, pl, pb)
        awfire, wfire, arfire = awv and o[0], wv and o[1], arv and o[5]
        awst = 2 if awfire else 1 if awv else awst
        nwd += 1 if wfire else 0
        wh = (ws, wdt) if wv and not wfire else None
        if wreq is not None and o[2] and br and awst == 2 and nwd == wreq[1] + 1:
            wreq, awst, nwd, wh = None, 0, 0, None
        if rreq is None and arv:
            rreq, nrexp = (ra, rl, rb), rl + 1
        arst = 2 if arfire else 1 if arv else arst
        if rreq is not None and o[6] and rr and arst == 2 and nrexp > 0:
            nrexp -= 1
            if nrexp == 0:
                rreq, arst = None, 0
        return (wreq, awst, nwd, wh, rreq, arst, nrexp)

    # ---------------------------------------------------------------- AHB master
    def _ahb_allowed(self, cfg, ctx, iv):
        ap, dp = ctx
        if ap is not None and tuple(iv[:4]) != ap:
            return False
        if dp is None or dp[0] == "r":
            return iv[4] == 0
        if dp[1] is not None:
            return iv[4] == dp[1]
        return iv[4] in cfg["datas"]

    def _ahb_next(self, cfg, ctx, iv, o):
        ap, dp = ctx
        if not o[0]:
            return (tuple(iv[:4]) if iv[0] == 1 else None, ("w", iv[4]) if dp and dp[0] == "w" else dp)
        return (None, (("w", None) if iv[2] else ("r",)) if iv[0] == 1 else None)

    # ---------------------------------------------------------------- dispatch
    def allowed(self, cfg, ctx, iv):
        mp = cfg["mp"]
        if mp == "axil":
            return self._axil_allowed(cfg, ctx, iv)
        if mp == "axi":
            return self._axi_allowed(cfg, ctx, iv)
        if mp == "ahb":
            return self._ahb_allowed(cfg, ctx, iv)
        return ctx is None or tuple(iv[:5]) == ctx

    def next(self, cfg, ctx, iv, o):
        mp = cfg["mp"]
        if mp == "axil":
            return self._axil_next(cfg, ctx, iv, o)
        if mp == "axi":
            return self._axi_next(cfg, ctx, iv, o)
        if mp == "ahb":
            return self._ahb_next(cfg, ctx, iv, o)
        if iv[0] == 1 and not (o[0] or o[1]):
            return tuple(iv[:5])
        return None


# ------------------------------------------------------------------------------------ configurations
def configs(tier):
    """(spec, cfg) list.
    live=1 : explored with the liveness property too (kept small: constant memory, few addresses);
    case   : names the input class of the configuration (part of a known finding's signature);
    alone=1: own TLC batch (expected to hit a listed finding, or big); cost: batching weight."""
    out = []
    T = tier == "thorough"

    def add(**spec):
        cfg = tla_cfg(spec)
        cfg["wi"] = len(out)          # witness index (specs/bridges/BridgeWit.tla)
        out.append((spec, cfg))
    G1 = [1, 1, 1, 1, 1]          # one gate for all channels
    GW = [1, 2, 3, 0, 0]          # independent AW / W / B gates (write direction)
    GR = [0, 0, 0, 1, 2]          # independent AR / R gates (read direction)
    G3 = [1, 1, 2, 2, 2]          # requests / responses
    G4 = [1, 2, 3, 4, 4]
    WB = [1, 0, 0, 0, 0]          # Wishbone shim: the go gate
    LV = dict(datas=[0], init="zero", live=1)                 # liveness runs: constant memory ...
    A0 = dict(wwords=[0], rwords=[0])                          # ... and one address
    # ---------------------------------------------------------------- AXI-Lite SRAM
    add(mp="axil", kind="sram", lanes=1, words=2)
    add(mp="axil", kind="sram", lanes=1, words=2, **LV, **A0)
    add(mp="axil", kind="sram", lanes=1, words=2, k=2, strbs=[1], cost=2)
    add(mp="axil", kind="sram", lanes=2, words=2, read_only=1, init="alt", strbs=[3, 1], datas=[3], live=1)
    if T:
        add(mp="axil", kind="sram", lanes=2, words=2, init="alt", datas=[1, 2], alone=1)
        add(mp="axil", kind="sram", lanes=1, words=2, k=2, **LV, cost=3)
        add(mp="axil", kind="conv", lanes=1, words=2, gfree=G1)
    # ---------------------------------------------------------------- AXI-Lite -> Wishbone
    add(mp="axil", kind="axil2wb", lanes=1, words=2, gfree=WB, cost=2)
    add(mp="axil", kind="axil2wb", lanes=1, words=2, gfree=WB, **LV, **A0)
    add(mp="axil", kind="axil2wb", lanes=1, words=2, gfree=WB, base=1, serial=1)
    add(mp="axil", kind="axil2wb", lanes=2, words=2, gfree=WB, base=0x40, serial=1, init="alt", strbs=[3, 2, 0], datas=[1, 2])
    add(mp="axil", kind="axil2wb", lanes=1, words=2, gfree=WB, bad=1, **LV, case="wishbone-err", alone=1)
    if T:
        add(mp="axil", kind="axil2wb", lanes=1, words=2, gfree=WB, k=2, idle_addr=1, strbs=[1], cost=3)
        add(mp="axil", kind="axil2wb", lanes=1, words=2, gfree=WB, **LV, cost=2)
        add(mp="axil", kind="axil2wb", lanes=4, words=2, gfree=WB, serial=1, strbs=[15, 2, 0], datas=[5, 10], wwords=[1])
    # ---------------------------------------------------------------- AXI-Lite down converter
    add(mp="axil", kind="down", ratio=2, lanes=2, words=2, gfree=G1, datas=[1, 2], serial=1, cost=3)
    add(mp="axil", kind="down", ratio=2, lanes=2, words=2, gfree=GW, dirs="w", **LV)      # incl. skipped sub-words (fix 928e147)
    add(mp="axil", kind="down", ratio=2, lanes=2, words=2, gfree=GR, dirs="r", live=1)
    add(mp="axil", kind="down", ratio=2, lanes=2, words=2, gfree=G1, strbs=[3, 1, 2], bad=1, serial=1, **LV)
    add(mp="axil", kind="down", ratio=2, lanes=4, words=2, gfree=G1, strbs=[15, 3, 12, 0], datas=[5, 10], wwords=[1], serial=1)  # 16-bit slave
    # faulting region of one narrow word in each master word (word 0: upper half, word 1: lower half): only ONE of the
    # sub-word accesses of a converted access is answered with an error (sticky error / error of the last sub-word)
    PART = ["write error, partly faulting word", "read error, partly faulting word"]
    add(mp="axil", kind="down", ratio=2, lanes=2, words=2, gfree=G1, strbs=[3, 1, 2], bad=1, badrange=[1, 3], serial=1, **LV,
        wit=PART)
    if T:
        add(mp="axil", kind="down", ratio=4, lanes=4, words=2, gfree=G1, strbs=[15, 2, 4, 9], bad=1, badrange=[2, 5], serial=1,
            **LV, wit=PART, cost=3)
        add(mp="axil", kind="down", ratio=2, lanes=4, words=2, gfree=G1, strbs=[15, 3, 12], bad=1, badrange=[2, 6], serial=1,
            **LV, wit=PART, cost=2)
        add(mp="axil", kind="down", ratio=2, lanes=2, words=2, gfree=G1, **LV, cost=3)
        add(mp="axil", kind="down", ratio=4, lanes=4, words=2, gfree=G1, strbs=[15, 1, 3, 8, 6, 0], datas=[5, 10], wwords=[1], serial=1,
            cost=4)
        add(mp="axil", kind="down", ratio=4, lanes=4, words=2, gfree=GW, dirs="w", strbs=[15, 1, 8, 6, 0], wwords=[1], **LV, cost=2)
        add(mp="axil", kind="down", ratio=4, lanes=4, words=2, gfree=GR, dirs="r", live=1)
        add(mp="axil", kind="down", ratio=8, lanes=8, words=2, gfree=GR, dirs="r", live=1)
        add(mp="axil", kind="down", ratio=8, lanes=8, words=2, gfree=G1, strbs=[255, 0x81, 0x10, 0], datas=[0x55, 0xaa], wwords=[1],
            serial=1, alone=1)
        add(mp="axil", kind="down", ratio=2, lanes=2, words=2, gfree=GW, dirs="w", **LV, wbuf=1, abuf=1, cost=3)
    # ---------------------------------------------------------------- AXI-Lite up converter
    add(mp="axil", kind="up", ratio=2, lanes=1, words=4, gfree=G1, serial=1, awfirst=1, case="address-first", cost=3)
    add(mp="axil", kind="up", ratio=2, lanes=1, words=4, gfree=G1, dirs="w", awfirst=1, wwords=[0, 1], **LV, case="address-first")
    add(mp="axil", kind="up", ratio=2, lanes=1, words=4, gfree=G1, dirs="r", rwords=[0, 1], live=1, case="address-first")
    add(mp="axil", kind="up", ratio=2, lanes=1, words=4, gfree=G1, wwords=[0, 1], rwords=[0], **LV, case="data-before-address", alone=1)
    add(mp="axil", kind="up", ratio=2, lanes=1, words=4, strbs=[1], datas=[1], init="zero", k=2, awfirst=1, wwords=[0], rwords=[0, 1],
        case="two-outstanding", alone=1)
    if T:
        add(mp="axil", kind="up", ratio=2, lanes=1, words=4, gfree=G1, awfirst=1, wwords=[0, 1], rwords=[0, 1], **LV,
            case="address-first", cost=3)
        add(mp="axil", kind="up", ratio=4, lanes=1, words=8, gfree=G1, serial=1, awfirst=1, wwords=[1, 6], case="address-first", cost=4)
        add(mp="axil", kind="up", ratio=2, lanes=2, words=4, gfree=G1, serial=1, awfirst=1, wwords=[1, 2], strbs=[3, 2, 0], datas=[1, 2],
            init="alt", case="address-first", cost=4)
    # ---------------------------------------------------------------- AXI-Lite -> CSR
    add(mp="axil", kind="axil2csr", lanes=1, words=2)
    add(mp="axil", kind="axil2csr", lanes=1, words=2, **LV, **A0)
    if T:
        add(mp="axil", kind="axil2csr", lanes=4, words=2, strbs=[15, 0], datas=[5, 10], serial=1)
        add(mp="axil", kind="axil2csr", lanes=1, words=2, k=2, strbs=[1], cost=2)
    # ---------------------------------------------------------------- AXI-Lite -> AXI
    add(mp="axil", kind="axil2axi", lanes=1, words=2, gfree=G1, serial=1)
    add(mp="axil", kind="axil2axi", lanes=1, words=2, gfree=G3, **LV, **A0)
    if T:
        add(mp="axil", kind="axil2axi", lanes=1, words=2, gfree=[1, 2, 3, 3, 3], **LV, cost=3)
    # ---------------------------------------------------------------- Wishbone -> AXI-Lite / AXI
    add(mp="wb", kind="wb2axil", lanes=1, words=2, gfree=G4, live=1)
    add(mp="wb", kind="wb2axil", lanes=2, words=2, gfree=G1, init="alt", datas=[1, 2])
    add(mp="wb", kind="wb2axil", lanes=1, words=2, gfree=GW, wbuf=1, live=1)      # partner accepts W before AW
    add(mp="wb", kind="wb2axil", lanes=1, words=2, gfree=G1, bad=1, **LV)
    add(mp="wb", kind="wb2axil", lanes=4, words=2, dirs="r", base=4, live=1)
    add(mp="wb", kind="wb2axil", lanes=4, words=2, dirs="r", base=0x40, live=1)
    add(mp="wb", kind="wb2axil", lanes=8, words=2, dirs="r", base=8, live=1, case="base-address-64bit", alone=1)
    add(mp="wb", kind="wb2axi", lanes=1, words=2, gfree=G4, live=1)
    # a master that keeps cyc between its requests (stb low) / a slave position behind wishbone.Decoder (stb and the
    # payload of requests to other slaves visible while cyc is low)
    WBI = ["cyc without stb", "stb without cyc"]
    add(mp="wb", kind="wb2axil", lanes=1, words=2, gfree=G1, wbidle=1, wit=WBI, cost=2)
    if T:
        add(mp="wb", kind="wb2axil", lanes=1, words=2, gfree=G3, wbidle=1, wit=WBI, live=1, cost=2)
        add(mp="wb", kind="wb2axi", lanes=1, words=2, gfree=G1, wbidle=1, wit=WBI, cost=2)
        add(mp="wb", kind="wb2axil", lanes=2, words=2, gfree=G1, init="alt", datas=[1, 2], strbs=[3, 1], wbidle=1, wit=WBI, cost=3)
        add(mp="wb", kind="wb2axil", lanes=1, words=2, gfree=[1, 2, 3, 4, 5], live=1)
        add(mp="wb", kind="wb2axil", lanes=1, words=2, gfree=G4, wbuf=1, abuf=1, live=1)
        add(mp="wb", kind="wb2axi", lanes=1, words=2, gfree=GW, wbuf=1, live=1)
        add(mp="wb", kind="wb2axil", lanes=4, words=2, gfree=G1, strbs=[15, 2, 0], datas=[5, 10], wwords=[1], base=4)
        add(mp="wb", kind="wb2axi", lanes=2, words=2, gfree=G1, init="alt", datas=[1, 2])
        add(mp="wb", kind="wb2axi", lanes=1, words=2, gfree=[1, 2, 3, 4, 5], live=1)
    # ---------------------------------------------------------------- adapter chains of SoCBusHandler.add_adapter
    add(mp="wb", kind="chain_wb_axil", lanes=4, slanes=8, words=4, wwords=[0, 3], strbs=[15, 2], datas=[5, 10], gfree=G1, live=1, cost=2)
    # direction "s2m" (a Wishbone slave joins an AXI-Lite bus): byte addressed Wishbone side of AXILite2Wishbone + the
    # byte->word address adaptation of the s2m branch
    add(mp="axil", kind="chain_s2m_wb", lanes=4, slanes=4, words=2, wwords=[1], strbs=[15, 2, 0], datas=[5, 10], gfree=WB, serial=1,
        cost=2)
    if T:
        add(mp="axil", kind="chain_s2m_wb", lanes=8, slanes=4, words=2, wwords=[1], strbs=[255, 15, 0x20], datas=[0x55, 0xaa],
            gfree=WB, serial=1, live=1, alone=1)
        add(mp="axil", kind="axil2wb", lanes=2, words=2, gfree=WB, wbaddr="byte", base=0x40, serial=1, init="alt",
            strbs=[3, 2, 0], datas=[1, 2])
        add(mp="axil", kind="chain_axil_wb", lanes=8, slanes=4, words=2, wwords=[1], strbs=[255, 15, 1, 0xf0], datas=[0x55, 0xaa],
            gfree=WB, serial=1, live=1, alone=1)
    # ---------------------------------------------------------------- AXI -> AXI-Lite / Wishbone
    P2 = [[0, 0, 1], [0, 1, 1]]
    P5 = [[0, 0, 1], [1, 0, 1], [0, 1, 1], [1, 1, 2], [0, 1, 0]]
    P7 = [[0, 0, 1], [3, 0, 1], [1, 1, 1], [1, 2, 1], [2, 1, 0], [1, 1, 2], [2, 3, 2]]
    add(mp="axi", kind="axi2axil", lanes=1, words=2, serial=1, plans=P5, gfree=G1, cost=3)
    add(mp="axi", kind="axi2axil", lanes=1, words=2, plans=P2, gfree=G3, strbs=[1], **LV, cost=3)
    add(mp="axi", kind="axi2axil", lanes=1, words=2, strbs=[1], serial=1, plans=[[0, 0, 1], [1, 0, 1], [0, 1, 1]], gfree=G1, bad=1,
        **LV, case="axi-lite-error", alone=1)
    add(mp="axi", kind="axi2wb", lanes=1, words=2, serial=1, plans=P5, gfree=WB, cost=3)
    # partner that accepts the read addresses of a burst ahead of its answers / write data ahead of the addresses
    ARA = ["second AR accepted before first R"]
    WAH = ["W accepted before its AW"]
    # (both hit listed findings of AXI2AXILite; quick judges the invariants only, thorough also Served)
    add(mp="axi", kind="axi2axil", lanes=1, words=2, dirs="r", plans=P2, gfree=GR, abuf=1, ahead=1, live=int(T), wit=ARA,
        case="read-addresses-ahead", alone=1)
    add(mp="axi", kind="axi2axil", lanes=1, words=2, dirs="w", plans=P2, gfree=GW if T else [1, 2, 0, 0, 0], strbs=[1], wbuf=1,
        ahead=1, live=int(T), wit=WAH, case="write-data-ahead", alone=1)
    if T:
        add(mp="axi", kind="axi2axil", lanes=1, words=4, serial=1, plans=P7, gfree=G1, alone=1)
        add(mp="axi", kind="axi2wb", lanes=1, words=4, serial=1, plans=P7, gfree=WB, alone=1)
        add(mp="axi", kind="axi2wb", lanes=1, words=2, plans=P2, gfree=WB, strbs=[1], **LV, cost=3)
        add(mp="axi", kind="axi2axil", lanes=1, words=2, plans=P2, gfree=[1, 2, 3, 3, 3], **LV, alone=1)
        add(mp="axi", kind="axi2axil", lanes=1, words=2, plans=P2, gfree=GW, dirs="w", strbs=[1], wbuf=1, abuf=1, **LV, cost=3)
        add(mp="axi", kind="axi2axil", lanes=2, words=2, serial=1, init="alt", strbs=[3, 2, 0], datas=[1, 2],
            plans=[[0, 0, 1], [0, 1, 1], [1, 1, 2]], gfree=G1, alone=1)
    # ---------------------------------------------------------------- AHB -> Wishbone
    add(mp="ahb", kind="ahb2wb", lanes=4, words=2, datas=[5, 10], sizes=[0], addrs=[0, 1, 3, 4], gfree=WB, live=1, cost=2)
    add(mp="ahb", kind="ahb2wb", lanes=4, words=2, datas=[5, 10], sizes=[1, 2], addrs=[0, 2, 4, 6], gfree=WB, cost=3)
    add(mp="ahb", kind="ahb2wb", lanes=4, words=2, datas=[5], sizes=[2], addrs=[0, 4], init="zero", gfree=WB, bad=1, live=1,
        case="wishbone-err", alone=1)
    # address phases with HSEL low (transfers to another slave of the AHB segment)
    add(mp="ahb", kind="ahb2wb", lanes=4, words=2, datas=[5], sizes=[2], addrs=[0, 4], init="zero", gfree=WB, nosel=1,
        wit=["NONSEQ without sel"])
    # 64-bit AHB (its own size-to-select table) with a byte addressed Wishbone side
    W64 = ["64-bit write", "64-bit read", "narrow write to upper half"]
    add(mp="ahb", kind="ahb2wb", lanes=8, words=2, init="zero", datas=[255], gfree=WB, wbaddr="byte", wit=W64, cost=3,
        xfers=[[5, 1, 0], [6, 1, 1], [4, 1, 2], [1, 1, 0], [0, 0, 3], [8, 1, 3], [8, 0, 3]])
    if T:
        RD = [[0, 0, 3], [8, 0, 3]]
        add(mp="ahb", kind="ahb2wb", lanes=8, words=2, init="zero", datas=[255], gfree=WB, wit=W64[1:], cost=3,
            xfers=[[a, 1, 0] for a in (0, 1, 2, 3)] + [[12, 1, 0]] + RD)
        add(mp="ahb", kind="ahb2wb", lanes=8, words=2, init="zero", datas=[255], gfree=WB, wit=W64[1:], cost=3,
            xfers=[[a, 1, 0] for a in (4, 5, 6, 7)] + [[11, 1, 0]] + RD)
        add(mp="ahb", kind="ahb2wb", lanes=8, words=2, init="zero", datas=[255], gfree=WB, wit=W64[1:], cost=3,
            xfers=[[a, 1, 1] for a in (0, 2, 4, 6)] + [[10, 1, 1]] + RD)
        add(mp="ahb", kind="ahb2wb", lanes=8, words=2, init="idx", datas=[0x5a, 0xa5], gfree=WB, wit=W64, live=1, cost=3,
            xfers=[[0, 1, 2], [4, 1, 2], [0, 1, 3], [0, 0, 2], [4, 0, 2], [4, 0, 1], [7, 0, 0]] + RD[:1])
        add(mp="ahb", kind="ahb2wb", lanes=4, words=2, datas=[5, 10], sizes=[0, 2], addrs=[0, 3, 4], gfree=WB, wbaddr="byte", cost=2)
    return out
