"""DUT factory for C09: bus bridges, AXI-Lite width converters and the AXI-Lite SRAM, seen by a master
as a flat memory and by their slave side as a protocol-legal master.

Every DUT is   master driver (Env inputs) -> real bridge / converter -> stall shim (Env gates) -> the
repository's own memory of the slave-side protocol,  so memory contents are part of the explored
state and everything between the two harness ends is repository code.

spec keys: mp (master protocol: axil, wb, axi, ahb), kind, lanes (master byte lanes), words (master
words), init, k, dirs, strbs/datas (write alphabet), gfree (gate groups), bad (1: upper half of the
memory is a faulting region), base, idle_addr, ...
"""
from migen import Module, Signal, Cat, Constant, Memory, Mux, If, Replicate

from litex.soc.interconnect import wishbone, csr_bus, ahb
from litex.soc.interconnect.axi import axi_lite, axi_full, axi_lite_to_wishbone, axi_full_to_axi_lite, \
    axi_full_to_wishbone, axi_lite_to_csr
from litex.soc.interconnect.axi.axi_common import RESP_SLVERR

ADDRW = 8          # address width of the reduced AXI / AXI-Lite buses (bytes)
NM = {"axil": 9, "wb": 5, "axi": 14, "ahb": 5}


# ------------------------------------------------------------------------------------ images
def image(spec):
    n = spec["words"] * spec["lanes"]
    pat = spec.get("init", "idx")
    if pat == "zero":
        return [0] * n
    if pat == "alt":
        return [(b % 2) ^ ((b // 2) % 2) for b in range(n)]
    if pat == "idx":
        return [(0xd2b9 >> (b % 16)) & 1 for b in range(n)]
    raise ValueError(pat)


def _words(img, lanes):
    out = []
    for w in range(len(img) // lanes):
        v = 0
        for l in range(lanes):
            v |= (img[w * lanes + l] & 0xff) << (8 * l)
        out.append(v)
    return out


def _pack2(sig, lanes):
    """2 bits of every byte lane (enough to compare a payload for stability)"""
    return Cat(*[sig[8 * l:8 * l + 2] for l in range(lanes)])


def _bytes(sig, lanes):
    return [sig[8 * l:8 * l + 8] for l in range(lanes)]


def _spread(bits, lanes):
    """one Env bit per lane -> byte lanes carrying 0 / 1"""
    return Cat(*[Cat(bits[l], Constant(0, 7)) for l in range(lanes)])


# ------------------------------------------------------------------------------------ backing memories
def _wb_sram(top, lanes, img, adr_width, read_only=False):
    bus = wishbone.Interface(data_width=8 * lanes, adr_width=adr_width, addressing="word")
    top.submodules += wishbone.SRAM(len(img), init=_words(img, lanes), bus=bus, read_only=read_only)
    return bus


def _axil_sram(top, lanes, img, read_only=False, addrw=ADDRW):
    bus = axi_lite.AXILiteInterface(data_width=8 * lanes, address_width=addrw)
    top.submodules += axi_lite.AXILiteSRAM(len(img), init=_words(img, lanes), bus=bus, read_only=read_only)
    return bus


def _axi_mem(top, lanes, img, addrw=ADDRW):
    """there is no AXI4 memory in the repository: AXI2AXILite in front of the AXI-Lite SRAM"""
    bus = axi_full.AXIInterface(data_width=8 * lanes, address_width=addrw, id_width=1)
    lite = _axil_sram(top, lanes, img, addrw=addrw)
    top.submodules += axi_full_to_axi_lite.AXI2AXILite(bus, lite)
    return bus


# ------------------------------------------------------------------------------------ stall shims
def _gate_req(top, up, dn, g):
    """request channel bridge -> memory, stalled while g = 0 (an offer the memory has seen stays)"""
    held, ge = Signal(), Signal()
    top.comb += [ge.eq(g | held), up.connect(dn, omit={"valid", "ready"}),
                 dn.valid.eq(up.valid & ge), up.ready.eq(dn.ready & ge)]
    top.sync += held.eq(dn.valid & ~dn.ready)


def _gate_resp(top, dn, up, g):
    """response channel memory -> bridge, delayed while g = 0 (an offer the bridge has seen stays)"""
    held, ge = Signal(), Signal()
    top.comb += [ge.eq(g | held), dn.connect(up, omit={"valid", "ready"}),
                 up.valid.eq(dn.valid & ge), dn.ready.eq(up.ready & ge)]
    top.sync += held.eq(up.valid & ~up.ready)


def _axi_shim(top, up, dn, gates, badbyte=None):
    """AXI-Lite / AXI stall shim between the bridge's master port `up` and the memory `dn`"""
    ga, gw, gb, gr, gR = gates
    _gate_req(top, up.aw, dn.aw, ga)
    _gate_req(top, up.w, dn.w, gw)
    _gate_req(top, up.ar, dn.ar, gr)
    _gate_resp(top, dn.b, up.b, gb)
    _gate_resp(top, dn.r, up.r, gR)
    if badbyte is not None:
        # faulting region: the (single outstanding, in order) memory's answers to it become SLVERR
        bad_w, bad_r = Signal(), Signal()
        top.sync += [If(dn.aw.valid & dn.aw.ready, bad_w.eq(dn.aw.addr >= badbyte)),
                     If(dn.ar.valid & dn.ar.ready, bad_r.eq(dn.ar.addr >= badbyte))]
        top.comb += [If(bad_w, up.b.resp.eq(RESP_SLVERR)), If(bad_r, up.r.resp.eq(RESP_SLVERR))]


def _wb_shim(top, up, dn, go, badword=None):
    """Wishbone stall shim: the SRAM sees the cycle only while go = 1 and acknowledges one cycle later"""
    top.comb += [dn.cyc.eq(up.cyc & go), dn.stb.eq(up.stb & go), dn.we.eq(up.we), dn.adr.eq(up.adr),
                 dn.sel.eq(up.sel), dn.dat_w.eq(up.dat_w), up.ack.eq(dn.ack), up.dat_r.eq(dn.dat_r)]
    if badword is not None:
        top.comb += up.err.eq(dn.ack & (up.adr >= badword))


def _axi_souts(up, lanes, full):
    def m(v, x):
        return Mux(v, x, 0)
    o = [up.aw.valid, m(up.aw.valid, up.aw.addr), up.aw.ready,
         up.w.valid, m(up.w.valid, up.w.strb), m(up.w.valid, _pack2(up.w.data, lanes)), up.w.ready,
         up.b.valid, up.b.ready,
         up.ar.valid, m(up.ar.valid, up.ar.addr), up.ar.ready,
         up.r.valid, up.r.ready]
    if full:
        o += [m(up.aw.valid, up.aw.len), m(up.aw.valid, up.aw.size), m(up.aw.valid, up.aw.burst),
              m(up.w.valid, up.w.last),
              m(up.ar.valid, up.ar.len), m(up.ar.valid, up.ar.size), m(up.ar.valid, up.ar.burst)]
    return o


def _wb_souts(up, lanes):
    act = up.cyc & up.stb
    return [up.cyc, up.stb, Mux(act, up.we, 0), Mux(act, up.adr, 0), Mux(act, up.sel, 0),
            Mux(act & up.we, _pack2(up.dat_w, lanes), 0), up.ack]


# ------------------------------------------------------------------------------------ master drivers
def _axil_master(top, spec, m):
    L = spec["lanes"]
    base = spec.get("base", 0)
    idle = spec.get("idle_addr", 0)
    awv, awa, wv, wstrb, wdata, bready = Signal(), Signal(max=max(2, spec["words"])), Signal(), Signal(L), Signal(L), Signal()
    arv, ara, rready = Signal(), Signal(max=max(2, spec["words"])), Signal()
    top.comb += [
        m.aw.valid.eq(awv), m.aw.addr.eq(Mux(awv, base + awa * L, idle)),
        m.w.valid.eq(wv), m.w.strb.eq(wstrb), m.w.data.eq(_spread(wdata, L)),
        m.b.ready.eq(bready),
        m.ar.valid.eq(arv), m.ar.addr.eq(Mux(arv, base + ara * L, idle)),
        m.r.ready.eq(rready),
    ]
    ins = [awv, awa, wv, wstrb, wdata, bready, arv, ara, rready]
    outs = [m.aw.ready, m.w.ready, m.b.valid, Mux(m.b.valid, m.b.resp, 0), m.ar.ready, m.r.valid,
            Mux(m.r.valid, m.r.resp, 0)] + [Mux(m.r.valid, x, 0) for x in _bytes(m.r.data, L)]
    return ins, outs


def _wb_master(top, spec, m, byte_addressing=False):
    L = spec["lanes"]
    base = spec.get("base", 0)
    req, adr, we, sel, data = Signal(), Signal(max=max(2, spec["words"])), Signal(), Signal(L), Signal(L)
    top.comb += [m.cyc.eq(req), m.stb.eq(req), m.we.eq(we), m.sel.eq(sel), m.dat_w.eq(_spread(data, L)),
                 m.adr.eq((base + adr * L) if byte_addressing else (base // L + adr))]
    outs = [m.ack, m.err] + _bytes(m.dat_r, L)
    return [req, adr, we, sel, data], outs


def _axi_master(top, spec, m):
    L = spec["lanes"]
    base = spec.get("base", 0)
    nw = max(2, spec["words"])
    awv, wa, wlen, wburst = Signal(), Signal(max=nw), Signal(2), Signal(2)
    wv, wstrb, wdata, wlast, bready = Signal(), Signal(L), Signal(L), Signal(), Signal()
    arv, ra, rlen, rburst, rready = Signal(), Signal(max=nw), Signal(2), Signal(2), Signal()
    size = (L - 1).bit_length()
    top.comb += [
        m.aw.valid.eq(awv), m.w.valid.eq(wv), m.b.ready.eq(bready), m.ar.valid.eq(arv), m.r.ready.eq(rready),
        If(awv, m.aw.addr.eq(base + wa * L), m.aw.len.eq(wlen), m.aw.burst.eq(wburst), m.aw.size.eq(size),
           m.aw.id.eq((wa + wlen)[0])),
        m.w.strb.eq(wstrb), m.w.data.eq(_spread(wdata, L)), m.w.last.eq(wlast),
        If(arv, m.ar.addr.eq(base + ra * L), m.ar.len.eq(rlen), m.ar.burst.eq(rburst), m.ar.size.eq(size),
           m.ar.id.eq((ra + rlen)[0])),
    ]
    ins = [awv, wa, wlen, wburst, wv, wstrb, wdata, wlast, bready, arv, ra, rlen, rburst, rready]
    outs = [m.aw.ready, m.w.ready, m.b.valid, Mux(m.b.valid, m.b.resp, 0), Mux(m.b.valid, m.b.id, 0),
            m.ar.ready, m.r.valid, Mux(m.r.valid, m.r.resp, 0), Mux(m.r.valid, m.r.id, 0),
            Mux(m.r.valid, m.r.last, 0)] + [Mux(m.r.valid, x, 0) for x in _bytes(m.r.data, L)]
    return ins, outs


def _ahb_master(top, spec, m):
    L = spec["lanes"]
    base = spec.get("base", 0)
    trans, addr, write, size, wdata = Signal(), Signal(max=max(2, spec["words"] * L)), Signal(), Signal(2), Signal(L)
    top.comb += [m.sel.eq(1), m.trans.eq(Mux(trans, ahb.AHBTransferType.NONSEQUENTIAL, ahb.AHBTransferType.IDLE)),
                 m.addr.eq(Mux(trans, base + addr, 0)), m.write.eq(write), m.size.eq(size),
                 m.wdata.eq(_spread(wdata, L))]
    return [trans, addr, write, size, wdata], [m.readyout, m.resp] + _bytes(m.rdata, L)


# ------------------------------------------------------------------------------------ the DUTs
def slave_lanes(spec):
    L = spec["lanes"]
    k = spec["kind"]
    if k == "down":
        return L // spec["ratio"]
    if k == "up":
        return L * spec["ratio"]
    return spec.get("slanes", L)


def slave_proto(spec):
    return {"sram": "none", "axil2wb": "wb", "down": "axil", "up": "axil", "conv": "axil", "axil2csr": "csr",
            "axil2axi": "axi", "wb2axil": "axil", "wb2axi": "axi", "axi2axil": "axil", "axi2wb": "wb",
            "ahb2wb": "wb", "chain_wb_axil": "axil", "chain_axil_wb": "wb"}[spec["kind"]]


def make(spec):
    mp, kind = spec["mp"], spec["kind"]
    L, words = spec["lanes"], spec["words"]
    SL = slave_lanes(spec)
    img = image(spec)
    nbytes = len(img)
    badbyte = nbytes // 2 if spec.get("bad") else None
    top = Module()
    gates = [Signal(name="g%d" % i) for i in range(5)]
    souts = []
    if mp == "axil":
        m = axi_lite.AXILiteInterface(data_width=8 * L, address_width=ADDRW)
        if kind == "sram":
            mem = _axil_sram(top, L, img, read_only=bool(spec.get("read_only")))
            top.comb += m.connect(mem)
        elif kind == "axil2wb":
            shift = (L - 1).bit_length()
            wb = wishbone.Interface(data_width=8 * L, adr_width=ADDRW - shift, addressing="word")
            mem = _wb_sram(top, L, img, ADDRW - shift)
            top.submodules += axi_lite_to_wishbone.AXILite2Wishbone(m, wb, base_address=spec.get("base", 0))
            _wb_shim(top, wb, mem, gates[0], None if badbyte is None else badbyte // SL)
            souts = _wb_souts(wb, SL)
        elif kind in ("down", "up", "conv"):
            s = axi_lite.AXILiteInterface(data_width=8 * SL, address_width=ADDRW)
            mem = _axil_sram(top, SL, img)
            cls = {"down": axi_lite.AXILiteDownConverter, "up": axi_lite.AXILiteUpConverter,
                   "conv": axi_lite.AXILiteConverter}[kind]
            top.submodules += cls(m, s)
            _axi_shim(top, s, mem, gates, badbyte)
            souts = _axi_souts(s, SL, False)
        elif kind == "axil2csr":
            csr = csr_bus.Interface(data_width=8 * L, address_width=ADDRW)
            memory = Memory(8 * L, words, init=_words(img, L), name="m")
            top.submodules += csr_bus.SRAM(memory, 0, bus=csr, paging=0x800)
            top.submodules += axi_lite_to_csr.AXILite2CSR(m, csr)
            souts = [Mux(csr.we | csr.re, csr.adr, 0), csr.we, csr.re, Mux(csr.we, _pack2(csr.dat_w, L), 0)]
        elif kind == "axil2axi":
            s = axi_full.AXIInterface(data_width=8 * L, address_width=ADDRW, id_width=1)
            mem = _axi_mem(top, L, img)
            top.submodules += axi_full_to_axi_lite.AXILite2AXI(m, s)
            _axi_shim(top, s, mem, gates, None)
            souts = _axi_souts(s, SL, True)
        else:
            raise ValueError(kind)
        ins, outs = _axil_master(top, spec, m)
    elif mp == "wb":
        shift = (L - 1).bit_length()
        m = wishbone.Interface(data_width=8 * L, adr_width=ADDRW - shift, addressing="word")
        if kind == "wb2axil":
            s = axi_lite.AXILiteInterface(data_width=8 * L, address_width=ADDRW)
            mem = _axil_sram(top, L, img)
            top.submodules += axi_lite_to_wishbone.Wishbone2AXILite(m, s, base_address=spec.get("base", 0))
            _axi_shim(top, s, mem, gates, badbyte)
            souts = _axi_souts(s, SL, False)
        elif kind == "wb2axi":
            s = axi_full.AXIInterface(data_width=8 * L, address_width=ADDRW, id_width=1)
            mem = _axi_mem(top, L, img)
            top.submodules += axi_full_to_wishbone.Wishbone2AXI(m, s, base_address=spec.get("base", 0))
            _axi_shim(top, s, mem, gates, None)
            souts = _axi_souts(s, SL, True)
        else:
            raise ValueError(kind)
        ins, outs = _wb_master(top, spec, m)
    elif mp == "axi":
        m = axi_full.AXIInterface(data_width=8 * L, address_width=ADDRW, id_width=1)
        if kind == "axi2axil":
            s = axi_lite.AXILiteInterface(data_width=8 * L, address_width=ADDRW)
            mem = _axil_sram(top, L, img)
            top.submodules += axi_full_to_axi_lite.AXI2AXILite(m, s)
            _axi_shim(top, s, mem, gates, badbyte)
            souts = _axi_souts(s, SL, False)
        elif kind == "axi2wb":
            shift = (L - 1).bit_length()
            wb = wishbone.Interface(data_width=8 * L, adr_width=ADDRW - shift, addressing="word")
            mem = _wb_sram(top, L, img, ADDRW - shift)
            top.submodules += axi_full_to_wishbone.AXI2Wishbone(m, wb, base_address=spec.get("base", 0))
            _wb_shim(top, wb, mem, gates[0], None if badbyte is None else badbyte // SL)
            souts = _wb_souts(wb, SL)
        else:
            raise ValueError(kind)
        ins, outs = _axi_master(top, spec, m)
    elif mp == "ahb":
        shift = (L - 1).bit_length()
        m = ahb.AHBInterface(data_width=8 * L, address_width=ADDRW)
        wb = wishbone.Interface(data_width=8 * L, adr_width=ADDRW - shift, addressing="word")
        mem = _wb_sram(top, L, img, ADDRW - shift)
        top.submodules += ahb.AHB2Wishbone(m, wb)
        _wb_shim(top, wb, mem, gates[0], None if badbyte is None else badbyte // SL)
        souts = _wb_souts(wb, SL)
        ins, outs = _ahb_master(top, spec, m)
    else:
        raise ValueError(mp)
    return top, ins + gates, outs + souts


# ------------------------------------------------------------------------------------ TLA+ configuration
def walpha(spec):
    L = spec["lanes"]
    strbs = spec.get("strbs", list(range(2 ** L)))
    datas = spec.get("datas", list(range(2 ** L)))
    out = []
    for s in strbs:
        for d in datas:
            p = [s, d & s]
            if p not in out:
                out.append(p)
    return out


def tla_cfg(spec):
    L = spec["lanes"]
    mp = spec["mp"]
    img = image(spec)
    mo = {"axil": 7 + L, "wb": 2 + L, "axi": 10 + L, "ahb": 2 + L}[mp]
    return {"mp": mp, "sp": slave_proto(spec), "lanes": L, "words": spec["words"], "init": img,
            "k": spec.get("k", 1), "serial": int(spec.get("serial", 0)), "dirs": spec.get("dirs", "rw"), "walpha": walpha(spec), "rsels": list(spec.get("rsels", [2 ** L - 1])),
            "sizes": list(spec.get("sizes", [0, 1, 2])), "datas": list(spec.get("datas", [5, 10])),
            "plans": [list(p) for p in spec.get("plans", [[0, 0, 1]])],
            "readonly": int(bool(spec.get("read_only"))),
            "badlo": (len(img) // 2 + 1) if spec.get("bad") else 0,
            "gfree": list(spec.get("gfree", [0, 0, 0, 0, 0])), "mo": mo, "slanes": slave_lanes(spec)}


# ------------------------------------------------------------------------------------ speculation hint
class Hint:
    """held offers are repeated (accelerator only, verdicts never depend on it)"""
    def init(self, cfg):
        return ()

    def allowed(self, cfg, ctx, iv):
        for pos, val in ctx:
            if iv[pos] != val:
                return False
        return True

    def next(self, cfg, ctx, iv, o):
        mp = cfg["mp"]
        held = []
        if mp == "axil":
            if iv[0] and not o[0]:
                held += [(0, 1), (1, iv[1])]
            if iv[2] and not o[1]:
                held += [(2, 1), (3, iv[3]), (4, iv[4])]
            if iv[6] and not o[4]:
                held += [(6, 1), (7, iv[7])]
        elif mp == "axi":
            if iv[0] and not o[0]:
                held += [(0, 1)]
            if iv[0] or iv[4]:
                held += [(1, iv[1]), (2, iv[2]), (3, iv[3])]
            if iv[4] and not o[1]:
                held += [(4, 1), (5, iv[5]), (6, iv[6]), (7, iv[7])]
            if iv[9] and not o[5]:
                held += [(9, 1), (10, iv[10]), (11, iv[11]), (12, iv[12])]
        elif mp == "ahb":
            if iv[0] and not o[0]:
                held += [(i, iv[i]) for i in range(4)]
        elif mp == "wb":
            if iv[0] and not (o[0] or o[1]):
                held = [(i, iv[i]) for i in range(5)]
        return tuple(held)


# ------------------------------------------------------------------------------------ configurations
def configs(tier):
    out = []

    def add(**spec):
        out.append((spec, tla_cfg(spec)))
    add(mp="axil", kind="sram", lanes=1, words=2)
    return out
