"""L2 lane of the stream family: model configurations, register projections, M-mode sweeps
(specs/stream/StreamModel.tla, StreamModelM.tla, StreamModelConf.tla)."""
import math

from . import stream as fam
from ..l2 import Lane


def _lcm(i, o):
    l = i * o // math.gcd(i, o)
    if l // i < 2:
        l *= 2
    if l // o < 2:
        l *= 2
    return l


def model_cfg(spec, cfg=None):
    """python spec of harness.families.stream -> model configuration of StreamModel, or None"""
    cls = spec["cls"]
    a = spec.get("args", {})
    base = {"cls": cls, "dw": spec.get("dw", 1), "pw": spec.get("pw", 0), "depth": 0, "buffered": 0, "ratio": 1,
            "reverse": 0, "w": 1, "idw": 1, "odw": 1, "msb": 1, "lcm": 1}
    if cls in ("PipeValid", "PipeReady"):
        return base
    if cls == "SyncFIFO" and a["depth"] >= 2:
        return dict(base, depth=a["depth"], buffered=int(bool(a.get("buffered", False))))
    if cls == "Converter" and a.get("vtc") and a["nfrom"] != a["nto"]:
        if a["nfrom"] < a["nto"]:
            return dict(base, cls="Up", ratio=a["nto"] // a["nfrom"], w=a["nfrom"], reverse=int(bool(a.get("reverse"))))
        return dict(base, cls="Down", ratio=a["nfrom"] // a["nto"], w=a["nto"], reverse=int(bool(a.get("reverse"))))
    if cls == "Gearbox":
        return dict(base, idw=a["i"], odw=a["o"], msb=int(bool(a.get("msb", True))), lcm=_lcm(a["i"], a["o"]))
    return None


def leaf(st, name, nth=0):
    """the register whose Python variable (last element of the tracer's back-trace) is `name`"""
    hits = [s for s in st.regs if (s.backtrace and s.backtrace[-1][0] == name) or s.name_override == name]
    if len(hits) <= nth:
        raise KeyError("register %r: %d candidates" % (name, len(hits)))
    if nth == 0 and len(hits) != 1:
        raise KeyError("register %r: %d candidates" % (name, len(hits)))
    return hits[nth]


def memories(st):
    return sorted(st.ev.replaced_memories, key=lambda m: m.duid)


def proj(spec, st):
    """{register name of StreamModel: Signal | Memory} for the DUT built by harness.families.stream.make;
    registers are local variables in the LiteX sources and are found by the variable name the tracer recorded"""
    cls = spec["cls"]
    a = spec.get("args", {})
    pw = spec.get("pw", 0)
    if cls == "PipeValid":
        r = {"v": leaf(st, "source_valid"), "first": leaf(st, "source_first"), "last": leaf(st, "source_last"),
             "data": leaf(st, "source_payload_data")}
        r["param"] = leaf(st, "source_param_p") if pw else 0
        return r
    if cls == "PipeReady":
        r = {"valid": leaf(st, "valid"), "dv": leaf(st, "sink_d_valid"), "first": leaf(st, "sink_d_first"),
             "last": leaf(st, "sink_d_last"), "data": leaf(st, "sink_d_payload_data")}
        r["param"] = leaf(st, "sink_d_param_p") if pw else 0
        return r
    if cls == "SyncFIFO":
        (mem,) = memories(st)
        r = {"level": leaf(st, "level"), "produce": leaf(st, "produce"), "consume": leaf(st, "consume"), "mem": mem}
        if a.get("buffered"):
            rd = [p for p in mem.ports if not p.async_read and p.we is None]
            r["rd"] = rd[0].dat_r
            r["readable"] = leaf(st, "readable")
        return r
    if cls == "Converter":
        if a["nfrom"] < a["nto"]:
            return {"demux": leaf(st, "demux"), "strobe": leaf(st, "strobe_all"), "first": leaf(st, "source_first"),
                    "last": leaf(st, "source_last"), "data": leaf(st, "source_payload_data"),
                    "vtc": leaf(st, "source_payload_valid_token_count")}
        return {"mux": leaf(st, "mux")}
    if cls == "Gearbox":
        return {"level": leaf(st, "level"), "icount": leaf(st, "i_count"), "ocount": leaf(st, "o_count"),
                "sr": leaf(st, "shift_register")}
    raise ValueError(cls)


LANE = Lane("stream", "stream/StreamModelConf", model_cfg, "harness.families.stream_l2:proj",
            m_module="stream/StreamModelM")


# ------------------------------------------------------------------------------ M-mode sweeps
def mmode_configs(tier):
    """[c |-> StreamContract configuration, m |-> StreamModel configuration] beyond the G-mode sizes.
    FIFO memories hold two-valued tokens (first/last only up to depth 3): the control logic does not depend on
    the data, two values are enough to expose a read from a wrong slot on some token sequence."""
    L = []
    C = fam._cfg
    th = tier == "thorough"

    def add(spec, cfg):
        m = model_cfg(spec, cfg)
        assert m is not None, spec
        L.append({"c": cfg, "m": m, "spec": spec})
    add({"cls": "PipeValid", "dw": 2, "pw": 1}, C("id", dset=range(4), pmax=1, cap=3))
    add({"cls": "PipeReady", "dw": 2, "pw": 1}, C("id", dset=range(4), pmax=1, cap=3))
    for depth in ((2, 3, 4, 5, 6, 7, 8, 10, 12) if th else (2, 3, 5, 6, 8)):
        for buf in (False, True):
            add({"cls": "SyncFIFO", "args": {"depth": depth, "buffered": buf}, "dw": 1},
                C("id", fl=1 if depth <= (3 if th else 2) else 0, cap=depth + 3))
    for ratio in ((2, 3, 4, 5, 6) if th else (2, 3, 4)):
        for rev in (False, True):
            add({"cls": "Converter", "args": {"nfrom": 1, "nto": ratio, "reverse": rev, "vtc": True}, "vtc": True},
                C("up", dset=range(2), ratio=ratio, reverse=int(rev), w=1, vtc=1, cap=3))
            ds = sorted({1 << k for k in range(ratio)} | {0, (1 << ratio) - 1, 0b0110 % (1 << ratio)})
            add({"cls": "Converter", "args": {"nfrom": ratio, "nto": 1, "reverse": rev, "vtc": True}, "vtc": True},
                C("down", dset=ds, ratio=ratio, reverse=int(rev), w=1, vtc=1, cap=ratio + 1))
    add({"cls": "Converter", "args": {"nfrom": 8, "nto": 1, "reverse": False, "vtc": True}, "vtc": True},
        C("down", dset=[0, 1, 2, 4, 8, 16, 32, 64, 128, 255, 0xa5], ratio=8, w=1, vtc=1, cap=9))
    add({"cls": "Converter", "args": {"nfrom": 6, "nto": 2, "reverse": True, "vtc": True}, "vtc": True},
        C("down", dset=[0, 63, 0b100111, 0b011000, 0b110110], ratio=3, reverse=1, w=2, vtc=1, cap=4))
    if th:
        add({"cls": "Converter", "args": {"nfrom": 2, "nto": 6, "reverse": False, "vtc": True}, "vtc": True},
            C("up", dset=range(4), ratio=3, w=2, vtc=1, cap=3))
        add({"cls": "Converter", "args": {"nfrom": 1, "nto": 8, "reverse": False, "vtc": True}, "vtc": True},
            C("up", dset=range(2), fl=0, ratio=8, w=1, vtc=1, cap=3))
    pairs = [(2, 3), (3, 2), (2, 4), (4, 2), (1, 2), (2, 1)]
    if th:
        pairs += [(4, 6), (5, 2), (2, 5), (3, 3), (6, 4), (1, 8), (8, 1)]
    for i, o in pairs:
        for msb in (True, False):
            add({"cls": "Gearbox", "args": {"i": i, "o": o, "msb": msb}},
                C("gear", dset=range(2 ** i) if i <= 3 else (0, (1 << i) - 1, 0b01101001 % (1 << i)), fl=0, idw=i, odw=o,
                  msb=int(msb), cap=4 * _lcm(i, o)))
    if th:    # wide gearboxes with a three-valued alphabet (the shift register then takes few values)
        for i, o in [(10, 4), (4, 10), (8, 6)]:
            add({"cls": "Gearbox", "args": {"i": i, "o": o, "msb": True}},
                C("gear", dset=(0, (1 << i) - 1, 0b1011001110 % (1 << i)), fl=0, idw=i, odw=o, msb=1, cap=4 * _lcm(i, o)))
    return L
