"""DUT factories and configuration lists for the stream family (C03/C04)."""
from migen import Module, Signal, Constant, ClockDomainsRenamer, Cat, If

from litex.soc.interconnect import stream


def _layout(spec):
    dw = spec.get("dw", 1)
    pw = spec.get("pw", 0)
    pl = [("data", dw)]
    if pw:
        return stream.EndpointDescription(pl, [("p", pw)])
    return pl


def _build(spec):
    cls = spec["cls"]
    a = spec.get("args", {})
    L = _layout(spec)
    if cls == "PipeValid":
        return stream.PipeValid(L)
    if cls == "PipeReady":
        return stream.PipeReady(L)
    if cls == "Buffer":
        return stream.Buffer(L, pipe_valid=a.get("pv", True), pipe_ready=a.get("pr", False))
    if cls == "SyncFIFO":
        return stream.SyncFIFO(L, a["depth"], buffered=a.get("buffered", False))
    if cls == "Delay":
        return stream.Delay(L, a["n"])
    if cls == "Gate":
        g = stream.Gate(L, sink_ready_when_disabled=a.get("srwd", False))
        g.comb += g.enable.eq(a["enable"])
        return g
    if cls == "CDCsame":
        return stream.ClockDomainCrossing(L, "sys", "sys", buffered=a.get("buffered", False))
    if cls == "Converter":
        return stream.Converter(a["nfrom"], a["nto"], reverse=a.get("reverse", False),
                                report_valid_token_count=a.get("vtc", False))
    if cls == "StrideConverter" and a.get("fields"):
        # several payload fields: the wide side keeps the `ratio` slices of each field together
        nar = [("f%d" % k, w) for k, w in enumerate(a["fields"])]
        wide = [("f%d" % k, w * a["ratio"]) for k, w in enumerate(a["fields"])]
        par = [("p", spec["pw"])] if spec.get("pw") else []
        dfrom, dto = (nar, wide) if a["up"] else (wide, nar)
        return stream.StrideConverter(stream.EndpointDescription(dfrom, par), stream.EndpointDescription(dto, par),
                                      reverse=a.get("reverse", False))
    if cls == "StrideConverter":
        dfrom = stream.EndpointDescription([("data", a["nfrom"])], [("p", spec["pw"])] if spec.get("pw") else [])
        dto = stream.EndpointDescription([("data", a["nto"])], [("p", spec["pw"])] if spec.get("pw") else [])
        return stream.StrideConverter(dfrom, dto, reverse=a.get("reverse", False))
    if cls == "Pack":
        return stream.Pack(L, a["n"], reverse=a.get("reverse", False))
    if cls == "Unpack":
        return stream.Unpack(a["n"], L, reverse=a.get("reverse", False))
    if cls == "Gearbox":
        return stream.Gearbox(a["i"], a["o"], msb_first=a.get("msb", True))
    if cls == "Cast":
        to = [("c", a["ta"]), ("d", a["tb"])] if a.get("tb") else a["wa"] + a["wb"]
        return stream.Cast([("a", a["wa"]), ("b", a["wb"])], to,
                           reverse_from=a.get("rf", False), reverse_to=a.get("rt", False))
    if cls == "Mux1":   # Multiplexer with sel tied, seen as an identity element on port `sel`
        m = stream.Multiplexer(L, a["n"])
        m.comb += m.sel.eq(a["sel"])
        m.sink = getattr(m, "sink%d" % a["sel"])
        return m
    if cls == "Demux1":
        m = stream.Demultiplexer(L, a["n"])
        m.comb += m.sel.eq(a["sel"])
        m.source = getattr(m, "source%d" % a["sel"])
        return m
    if cls == "Pipeline":
        mods = [_build(s) for s in spec["stages"]]
        top = Module()
        for m in mods:
            top.submodules += m
        p = stream.Pipeline(*mods)
        top.submodules += p
        top.sink, top.source = p.sink, p.source
        return top
    if cls == "Bufferized":
        inner = spec["inner"]
        tr = stream.BufferizeEndpoints({"sink": stream.DIR_SINK, "source": stream.DIR_SOURCE},
                                       pipe_valid=a.get("pv", True), pipe_ready=a.get("pr", False))
        return tr(_build(inner))
    if cls == "Shifter":    # PipelinedActor of latency 2 with a data transformation; `shift` is a per-DUT constant
        sh = stream.Shifter(a["dw"])
        sh.comb += sh.shift.eq(a["shift"])
        return sh
    if cls == "Pipe":       # plain PipelinedActor-derived element: the base class does valid/first/last/pipe_ce,
        return _Pipe(L, a["latency"])   # the derived class moves payload and param with pipe_ce
    raise ValueError(cls)


class _Pipe(stream.PipelinedActor):
    """what every user of stream.PipelinedActor writes: data registers enabled by pipe_ce"""
    def __init__(self, layout, latency):
        self.sink = sink = stream.Endpoint(layout)
        self.source = source = stream.Endpoint(layout)
        stream.PipelinedActor.__init__(self, latency)
        cur = Cat(*(sink.payload.flatten() + sink.param.flatten()))
        for i in range(latency):
            r = Signal(len(cur), name="pipe_data%d" % i)
            self.sync += If(self.pipe_ce, r.eq(cur))
            cur = r
        self.comb += Cat(*(source.payload.flatten() + source.param.flatten())).eq(cur)


def _raw(rec):
    sigs = rec.flatten()
    if not sigs:
        return None
    return Cat(*sigs)


def make(spec):
    """-> (dut, inputs, outputs):  inputs  = valid, data, first, last, param, ready
                                    outputs = sink_ready, valid, data, first, last, param, vtc"""
    core = _build(spec)
    top = Module()
    top.submodules.core = core
    sink, source = core.sink, core.source
    din = Signal(max(1, len(sink.payload.raw_bits())))
    pin = Signal(max(1, len(sink.param.raw_bits())))
    if len(sink.payload.raw_bits()):
        top.comb += sink.payload.raw_bits().eq(din)
    if len(sink.param.raw_bits()):
        top.comb += sink.param.raw_bits().eq(pin)
    ins = [sink.valid, din, sink.first, sink.last, pin, source.ready]
    if hasattr(source.payload, "valid_token_count") and spec.get("vtc"):
        odata = source.payload.data
        ovtc = source.payload.valid_token_count
    else:
        odata = source.payload.raw_bits() if len(source.payload.raw_bits()) else Constant(0)
        ovtc = Constant(0)
    oparam = source.param.raw_bits() if len(source.param.raw_bits()) else Constant(0)
    outs = [sink.ready, source.valid, odata, source.first, source.last, oparam, ovtc]
    return top, ins, outs


# ---------------------------------------------------------------------------------------------
def _cfg(kind, dset=(0, 1), fl=1, pmax=0, ratio=1, reverse=0, w=1, vtc=0, cap=4, idw=1, odw=1, msb=1, keep=0):
    # keep: items a composition may legitimately keep inside while no further input arrives (partial groups)
    return {"kind": kind, "dset": list(dset), "fl": fl, "pmax": pmax, "ratio": ratio, "reverse": reverse,
            "w": w, "vtc": vtc, "cap": cap, "idw": idw, "odw": odw, "msb": msb, "keep": keep}


def configs(tier):
    """list of (python spec, TLA+ cfg)"""
    L = []
    ident = [
        ({"cls": "PipeValid"}, 3), ({"cls": "PipeReady"}, 3),
        ({"cls": "Buffer", "args": {"pv": True, "pr": False}}, 3),
        ({"cls": "Buffer", "args": {"pv": False, "pr": True}}, 3),
        ({"cls": "Buffer", "args": {"pv": True, "pr": True}}, 4),
        ({"cls": "Buffer", "args": {"pv": False, "pr": False}}, 2),
        ({"cls": "SyncFIFO", "args": {"depth": 0}}, 2),
        ({"cls": "SyncFIFO", "args": {"depth": 1}}, 3),
        ({"cls": "SyncFIFO", "args": {"depth": 2}}, 4),
        ({"cls": "SyncFIFO", "args": {"depth": 2, "buffered": True}}, 5),
        ({"cls": "Delay", "args": {"n": 1}}, 3), ({"cls": "Delay", "args": {"n": 2}}, 4),
        ({"cls": "Gate", "args": {"enable": 1}}, 2),
        ({"cls": "CDCsame", "args": {"buffered": False}}, 2),
        ({"cls": "CDCsame", "args": {"buffered": True}}, 3),
        ({"cls": "Converter", "args": {"nfrom": 1, "nto": 1}}, 2),
        ({"cls": "Mux1", "args": {"n": 2, "sel": 1}}, 2),
        ({"cls": "Demux1", "args": {"n": 3, "sel": 2}}, 2),
        ({"cls": "Bufferized", "inner": {"cls": "PipeReady"}, "args": {}}, 5),
    ]
    for spec, cap in ident:
        L.append((dict(spec, dw=1), _cfg("id", cap=cap)))
    # with a param field travelling with the token
    for spec, cap in ident[:3] + ident[7:8]:
        L.append((dict(spec, dw=1, pw=1), _cfg("id", pmax=1, cap=cap)))
    L.append((dict(ident[8][0], dw=1, pw=1), _cfg("id", pmax=1, fl=0, cap=4)))
    L.append(({"cls": "Gate", "args": {"enable": 0, "srwd": True}, "dw": 1}, _cfg("drop", cap=1)))
    L.append(({"cls": "Gate", "args": {"enable": 0, "srwd": False}, "dw": 1}, _cfg("block", cap=1)))
    # converters
    for nfrom, nto, rev, vtc in [(1, 2, False, True), (1, 2, True, False), (1, 4, False, True), (2, 4, True, True)]:
        r = nto // nfrom
        L.append(({"cls": "Converter", "args": {"nfrom": nfrom, "nto": nto, "reverse": rev, "vtc": vtc}, "vtc": vtc},
                  _cfg("up", dset=range(2**nfrom), ratio=r, reverse=int(rev), w=nfrom, vtc=int(vtc), cap=3)))
    for nfrom, nto, rev in [(2, 1, False), (2, 1, True), (4, 1, False), (4, 2, True)]:
        r = nfrom // nto
        ds = range(2**nfrom) if nfrom <= 2 else (1, 2, 4, 8, 6, 11)
        L.append(({"cls": "Converter", "args": {"nfrom": nfrom, "nto": nto, "reverse": rev, "vtc": True}, "vtc": True},
                  _cfg("down", dset=ds, ratio=r, reverse=int(rev), w=nto, vtc=1, cap=r + 1)))
    L.append(({"cls": "Pack", "args": {"n": 2}, "dw": 1, "pw": 1}, _cfg("up", ratio=2, w=1, pmax=1, cap=3)))
    L.append(({"cls": "Pack", "args": {"n": 3, "reverse": True}, "dw": 1}, _cfg("up", ratio=3, reverse=1, w=1, cap=3)))
    # demonstration of finding C03-pack-idle-first-last (own batch, no follow-up): the only Pack with junk on first/last
    L.append(({"cls": "Pack", "args": {"n": 2}, "dw": 1, "demo": "idle-first-last", "nofollowup": True},
              _cfg("up", ratio=2, w=1, cap=3)))
    L.append(({"cls": "Unpack", "args": {"n": 2}, "dw": 1, "pw": 1},
              _cfg("down", dset=range(4), ratio=2, w=1, pmax=1, cap=3)))
    L.append(({"cls": "Unpack", "args": {"n": 3, "reverse": True}, "dw": 1},
              _cfg("down", dset=(1, 2, 4, 3, 6), ratio=3, reverse=1, w=1, cap=4)))
    L.append(({"cls": "StrideConverter", "args": {"nfrom": 1, "nto": 2}},
              _cfg("up", ratio=2, w=1, cap=3)))
    L.append(({"cls": "StrideConverter", "args": {"nfrom": 2, "nto": 1, "reverse": True}},
              _cfg("down", dset=range(4), ratio=2, reverse=1, w=1, cap=3)))
    L.append(({"cls": "StrideConverter", "args": {"nfrom": 1, "nto": 2}, "pw": 1},
              _cfg("up", ratio=2, w=1, pmax=1, cap=3)))
    L.append(({"cls": "StrideConverter", "args": {"nfrom": 2, "nto": 1}, "pw": 1},
              _cfg("down", dset=range(4), ratio=2, w=1, pmax=1, cap=3)))
    L.append(({"cls": "Cast", "args": {"wa": 1, "wb": 1}}, _cfg("id", dset=range(4), cap=2)))
    # Cast with unequal field widths and reversed field order on either side (witness: a token that is really regrouped)
    for wa, wb, rf, ta, tb, rt in [(1, 2, True, 0, 0, False), (2, 1, False, 1, 2, True), (1, 2, True, 2, 1, True)]:
        L.append(({"cls": "Cast", "args": {"wa": wa, "wb": wb, "rf": rf, "ta": ta, "tb": tb, "rt": rt}},
                  dict(_cfg("id", dset=range(8), cap=2), cast=[int(rf), wa, wb, int(rt), ta, tb],
                       wit=["regrouped token delivered"])))
    # StrideConverter with more than one payload field: the wide side groups the slices field by field
    L.append(({"cls": "StrideConverter", "args": {"fields": [1, 1], "ratio": 2, "up": True, "reverse": True}},
              dict(_cfg("up", dset=range(4), ratio=2, reverse=1, w=2, cap=3), fields=[1, 1], wit=["field-wise word"])))
    L.append(({"cls": "StrideConverter", "args": {"fields": [2, 1], "ratio": 2, "up": False}, "pw": 1},
              dict(_cfg("down", dset=(1, 2, 4, 8, 16, 32, 27, 44, 63), ratio=2, w=3, pmax=1, cap=3), fields=[2, 1],
                   wit=["field-wise word"])))
    # ratios that are not a power of two: the converters' own position counters must wrap explicitly
    L.append(({"cls": "Converter", "args": {"nfrom": 1, "nto": 3, "reverse": True, "vtc": True}, "vtc": True},
              _cfg("up", dset=range(2), ratio=3, reverse=1, w=1, vtc=1, cap=3)))
    L.append(({"cls": "Converter", "args": {"nfrom": 3, "nto": 1, "reverse": False, "vtc": True}, "vtc": True},
              _cfg("down", dset=range(8), ratio=3, w=1, vtc=1, cap=4)))
    # gearbox
    for i, o, msb in [(2, 3, True), (3, 2, False), (2, 4, True), (4, 2, False), (1, 2, True)]:
        import math
        lcm = i * o // math.gcd(i, o)
        L.append(({"cls": "Gearbox", "args": {"i": i, "o": o, "msb": msb}},
                  _cfg("gear", dset=range(2**i), fl=0, idw=i, odw=o, msb=int(msb), cap=4 * lcm)))
    # compositions (2-3 elements)
    L.append(({"cls": "Pipeline", "stages": [{"cls": "Buffer", "args": {"pv": True, "pr": False}, "dw": 1},
                                            {"cls": "SyncFIFO", "args": {"depth": 2}, "dw": 1}], "dw": 1},
              _cfg("id", fl=0, cap=7)))
    L.append(({"cls": "Pipeline", "stages": [{"cls": "Converter", "args": {"nfrom": 1, "nto": 2}},
                                            {"cls": "PipeReady", "dw": 2}]},
              _cfg("up", ratio=2, w=1, cap=4)))
    L.append(({"cls": "Pipeline", "stages": [{"cls": "PipeValid", "dw": 2},
                                            {"cls": "Converter", "args": {"nfrom": 2, "nto": 1}},
                                            {"cls": "PipeReady", "dw": 1}]},
              _cfg("down", dset=range(4), ratio=2, w=1, cap=6)))
    # PipelinedActor users: a plain latency-2 element and stream.Shifter (latency 2 + data transformation)
    L.append(({"cls": "Pipe", "args": {"latency": 2}, "dw": 1}, _cfg("id", cap=2)))
    L.append(({"cls": "Shifter", "args": {"dw": 2, "shift": 1}}, dict(_cfg("shift", dset=range(4), idw=2, cap=2), shift=1)))
    L.append(({"cls": "Shifter", "args": {"dw": 3, "shift": 2}},
              dict(_cfg("shift", dset=range(8), fl=0, idw=3, cap=2), shift=2)))
    if tier == "thorough":
        L.append(({"cls": "Pipe", "args": {"latency": 2}, "dw": 1, "pw": 1}, _cfg("id", pmax=1, cap=2)))
        L.append(({"cls": "Pipe", "args": {"latency": 1}, "dw": 1}, _cfg("id", cap=1)))
        L.append(({"cls": "Pipe", "args": {"latency": 3}, "dw": 1}, _cfg("id", cap=3)))
        L.append(({"cls": "Shifter", "args": {"dw": 2, "shift": 0}}, dict(_cfg("shift", dset=range(4), idw=2, cap=2), shift=0)))
        L.append(({"cls": "Shifter", "args": {"dw": 3, "shift": 1}},
                  dict(_cfg("shift", dset=range(8), fl=0, idw=3, cap=2), shift=1)))
        L.append(({"cls": "Shifter", "args": {"dw": 4, "shift": 3}},
                  dict(_cfg("shift", dset=(0, 1, 6, 8, 11, 15), fl=0, idw=4, cap=2), shift=3)))
        for depth, buf in [(4, False), (4, True), (3, False)]:
            L.append(({"cls": "SyncFIFO", "args": {"depth": depth, "buffered": buf}, "dw": 1},
                      _cfg("id", cap=depth + 3, fl=1 if depth == 3 else 0)))
        L.append(({"cls": "Delay", "args": {"n": 3}, "dw": 1}, _cfg("id", cap=5)))
        L.append(({"cls": "StrideConverter", "args": {"fields": [1, 2], "ratio": 2, "up": True}},     # unequal widths, no junk (cost)
                  dict(_cfg("up", dset=range(8), fl=0, ratio=2, w=3, cap=3), fields=[1, 2], wit=["field-wise word"])))
        L.append(({"cls": "StrideConverter", "args": {"fields": [1, 1], "ratio": 3, "up": False, "reverse": True}},
                  dict(_cfg("down", dset=(1, 2, 4, 8, 16, 32, 27, 44, 63), ratio=3, reverse=1, w=2, cap=4), fields=[1, 1],
                       wit=["field-wise word"])))
        for nfrom, nto, rev, vtc in [(1, 8, False, True), (2, 6, False, False)]:
            r = nto // nfrom
            L.append(({"cls": "Converter", "args": {"nfrom": nfrom, "nto": nto, "reverse": rev, "vtc": vtc}, "vtc": vtc},
                      _cfg("up", dset=range(2**nfrom), ratio=r, reverse=int(rev), w=nfrom, vtc=int(vtc), cap=3)))
        for nfrom, nto, rev in [(8, 1, False), (3, 1, True), (8, 2, False)]:     # (3, 1, False) is in the quick list
            r = nfrom // nto
            ds = {8: (1, 2, 4, 8, 16, 32, 64, 128, 0xa5, 0x3c), 3: range(8)}[nfrom]
            L.append(({"cls": "Converter", "args": {"nfrom": nfrom, "nto": nto, "reverse": rev, "vtc": True}, "vtc": True},
                      _cfg("down", dset=ds, ratio=r, reverse=int(rev), w=nto, vtc=1, cap=r + 1)))
        for i, o, msb in [(4, 6, False), (2, 5, True), (3, 3, True), (5, 2, False)]:
            import math
            lcm = i * o // math.gcd(i, o)
            ds = range(2**i) if i <= 4 else (1, 2, 4, 8, 16, 32, 21, 42, 63, 0)
            L.append(({"cls": "Gearbox", "args": {"i": i, "o": o, "msb": msb}},
                      _cfg("gear", dset=ds, fl=0, idw=i, odw=o, msb=int(msb), cap=4 * lcm)))
        L.append(({"cls": "Pipeline", "stages": [{"cls": "Gearbox", "args": {"i": 2, "o": 3}},
                                                {"cls": "Gearbox", "args": {"i": 3, "o": 2}}]},
                  _cfg("gear", dset=range(4), fl=0, idw=2, odw=2, msb=1, cap=40, keep=4)))
        L.append(({"cls": "Pipeline", "stages": [{"cls": "Pack", "args": {"n": 2}, "dw": 1},
                                                {"cls": "Unpack", "args": {"n": 2}, "dw": 1}], "dw": 1},
                  _cfg("id", fl=0, cap=6, keep=1)))
    return _finish(L, tier)


JUNK_W1 = "junk while idle"
JUNK_W2 = "junk first/last in the cycle of a source handshake"


def _wants_junk(spec, cfg, tier):
    """configurations explored with the `junk` environment (any value on the data / first / last / param lines while
    the producer offers nothing).  It is a superset of the canonical environment, so nothing is lost; it roughly
    doubles the input alphabet, hence one cheap representative per mechanism in the quick tier."""
    cls, a = spec["cls"], spec.get("args", {})
    th = tier == "thorough"
    if cls == "Pack":
        return 1 if spec.get("demo") else 2      # finding C03-pack-idle-first-last: first/last junk only in the demonstration DUT
    if cls in ("PipeValid", "PipeReady"):
        return th or bool(spec.get("pw"))
    if cls in ("Unpack", "Pipe"):
        return True
    if cls == "Shifter":
        return th or a["dw"] == 3
    if cls == "Buffer":
        return th and bool(a.get("pv")) and bool(a.get("pr"))
    if cls == "SyncFIFO":
        return a["depth"] == 2 and (bool(spec.get("pw")) or (th and bool(a.get("buffered"))))
    if cls == "Converter":
        if th:
            return (a["nfrom"], a["nto"]) in ((1, 2), (2, 4), (2, 1), (1, 3), (3, 1))
        return (a["nfrom"], a["nto"], bool(a.get("reverse"))) in ((1, 2, False), (2, 1, False), (1, 3, True), (3, 1, False))
    if cls == "StrideConverter":
        return bool(spec.get("pw")) or (bool(a.get("fields")) and ((th and a["fields"] == [1, 1]) or not a["up"]))
    if cls == "Gearbox":
        return (a["i"], a["o"]) == (2, 3)
    if cls == "Pipeline":
        return th and spec["stages"][0]["cls"] == "Converter"
    return False


def _finish(L, tier):
    """witness indices (unique within the list) and the junk environment"""
    out = []
    for wi, (spec, cfg) in enumerate(L):
        cfg = dict(cfg, wi=wi)
        wit = list(cfg.get("wit", []))
        j = int(_wants_junk(spec, cfg, tier))
        if j:
            cfg["junk"] = j
            wit.append(JUNK_W1)
            if cfg["kind"] == "up" and cfg["fl"] and j == 1 and not spec.get("demo"):
                wit.append(JUNK_W2)
        cfg["wit"] = wit
        out.append((spec, cfg))
    return out


class Hint:
    """speculation hint (see GraphLoop._speculate): a producer repeats an unaccepted offer"""
    def init(self, cfg):
        return None

    def allowed(self, cfg, ctx, iv):
        return ctx is None or tuple(iv[:5]) == ctx

    def next(self, cfg, ctx, iv, o):
        if iv[0] == 1 and o[0] == 0:
            return tuple(iv[:5])
        return None
