"""C02 family `namer`: drivers of the REAL code (litex.gen.fhdl.namer / verilog.convert) and data movers.

Nothing in here decides whether a name table or a netlist is correct: inputs come from TLC
(specs/namer/NamerInputs.tla, NamerModules.tla, counterexamples of NamerM.tla), recorded outcomes go back
to TLC (NamerTrace.tla, Netlist.tla).  This module
  * extracts PrintT payloads (multi-line pretty printed ones too),
  * builds real migen Signals with TLC-chosen backtrace / name_override / related and records what
    build_signal_namespace(...).get_name(...) returned, call by call,
  * renders a design shape as Python source, converts it with the real convert() in fresh interpreters
    (this file is also the subprocess entry point) and lists the identifiers declared in the emitted text.
"""
import json
import os
import re
import subprocess
import sys

ROOT = os.path.dirname(os.path.dirname(os.path.dirname(os.path.abspath(__file__))))


# --------------------------------------------------------------------------------------------- TLC output
def extract_prints(out, tag):
    """all PrintT'ed tuples whose first element is the string `tag`; unlike tlc.print_lines this also finds
    the multi-line pretty-printed form  << "TAG", ...  TLC uses for long values"""
    from .. import tlc
    res = []
    pat = re.compile(r'<<\s*"%s"' % re.escape(tag))
    i = 0
    n = len(out)
    while True:
        m = pat.search(out, i)
        if not m:
            break
        j = m.start()
        depth, k = 0, j
        while k < n:
            c = out[k]
            if c == "<" and out[k + 1:k + 2] == "<":
                depth += 1
                k += 2
                continue
            if c == ">" and out[k + 1:k + 2] == ">":
                depth -= 1
                k += 2
                if depth == 0:
                    break
                continue
            if c == '"':
                k += 1
                while out[k] != '"':
                    if out[k] == "\\":
                        k += 1
                    k += 1
            k += 1
        res.append(tlc.parse_value(out[j:k]))
        i = k
    return res


# --------------------------------------------------------------------------------------------- real namer
def impl_reserved():
    """the set the real back end pre-seeds the namespace with (needed to call the real API the way
    convert() does, and as the parameter of the L2 model)"""
    from litex.gen.fhdl.verilog import _ieee_1800_2017_verilog_reserved_keywords as r
    return r


def run_case(case, run, variant, reserved=None):
    """case: sequence of dict(bt, ov, rel) in creation order; run: dict(req, dr, cl) (NamerInputs.tla).
    Executes it on the real build_signal_namespace / get_name and returns the trace for NamerTrace.tla."""
    from migen import Signal
    from litex.gen.fhdl.namer import build_signal_namespace
    if reserved is None:
        reserved = impl_reserved()
    n = len(case)
    sigs = [None] * n
    for i in (reversed(range(n)) if run["dr"] else range(n)):
        sigs[i] = Signal(name_override=(case[i]["ov"] or None))
    for i in range(n):
        sigs[i].backtrace = [(str(nm), int(k)) for nm, k in case[i]["bt"]]
        sigs[i].related = sigs[case[i]["rel"] - 1] if case[i]["rel"] else None
    coll = list(reversed(sigs)) if run["cl"] else set(sigs)
    ev, err, bases = [], "", [""] * n
    try:
        ns = build_signal_namespace(coll, reserved_keywords=reserved)
        # names the construction itself already handed out (build_signal_namespace registers the signals with a
        # name_override): these are get_name calls of the real code too, recorded in the order they were made
        # (the table is insertion ordered) with the name each got (asking again is stable)
        index = {id(x): i for i, x in enumerate(sigs)}
        for x in list(getattr(ns, "sigs", {})):
            if id(x) in index:
                nm = ns.get_name(x)
                ev.append([index[id(x)] + 1, nm if isinstance(nm, str) else repr(nm)])
        for s in run["req"]:
            nm = ns.get_name(sigs[s - 1])
            ev.append([int(s), nm if isinstance(nm, str) else repr(nm)])
    except Exception as ex:          # the implementation refused / crashed: recorded, not judged
        err = "%s: %s" % (type(ex).__name__, ex)
    if not err:
        # what the namespace started from (only classifies a collision / feeds the L2 comparison); the name table is
        # public state today, if it ever goes away the bases are simply unknown ("")
        try:
            for i in range(n):
                b = sigs[i].name_override if sigs[i].name_override is not None else ns.name_dict.get(sigs[i])
                bases[i] = b if isinstance(b, str) else ""
        except Exception:
            bases = [""] * n
    return {"n": n, "variant": int(variant), "bases": bases, "ev": ev, "err": bool(err), "errtext": err}


def _run_chunk(chunk):
    reserved = impl_reserved()
    return [run_case(c, r, v, reserved) for (c, r, v) in chunk]


def make_pool(procs=12):
    """worker processes for run_jobs; create it while the harness is still single-threaded (fork)"""
    import multiprocessing as mp
    return mp.get_context("fork").Pool(procs)


def run_jobs(jobs, pool=None, procs=12):
    """jobs: list of (case, run, variant); executed on the real code, in parallel worker processes if a pool is given"""
    if len(jobs) < 4000 or pool is None:
        return _run_chunk(jobs)
    size = max(500, len(jobs) // (procs * 4))
    chunks = [jobs[i:i + size] for i in range(0, len(jobs), size)]
    out = pool.map(_run_chunk, chunks)
    return [t for ch in out for t in ch]


def plain_case(case):
    return [{"bt": [[str(a), int(b)] for a, b in d["bt"]], "ov": d["ov"], "rel": int(d["rel"])} for d in case]


def plain_run(run):
    return {"req": [int(x) for x in run["req"]], "dr": int(run["dr"]), "cl": int(run["cl"])}


# --------------------------------------------------------------------------------------------- designs
# a platform-like attr_translate (what e.g. the Xilinx toolchain passes to convert()); only used when the shape asks for it
XLATE = {"keep": ("keep", "true"), "no_retiming": ("mr_ff", "true"), "async_reg": ("async_reg", "true")}
_MULTI_ATTR = re.compile(r"^\s*\(\* [^*\n]*\", [^*\n]*\*\)\s*$", re.M)


def multi_attribute_lines(text):
    """how many emitted attribute lines carry two or more attributes (vacuity witness of the attrs extension)"""
    return len(_MULTI_ATTR.findall(text))


def render(shape):
    """Python source of the design a NamerModules shape describes; defines build() -> (top, ios)"""
    fan, depth, bind = int(shape["fan"]), int(shape["depth"]), shape["bind"]
    # audit extension: one Python set of synthesis attributes on every own / leaf signal and instance
    attrs = [tuple(a) for a in shape.get("attrs", [])]
    aset = ""
    if attrs:
        aset = "attr={%s}" % ", ".join(repr(a[0]) if len(a) == 1 else repr((a[0], a[1])) for a in attrs)
    L = ["from migen import *", ""]
    if shape.get("xlate"):
        L += ["CONVERT_KW = {\"attr_translate\": %r}" % (XLATE,), ""]
    L += ["class Leaf(Module):", "    def __init__(self):", "        self.sigs = []"]
    for a in shape["leaf"]:
        L += ["        self.%s = Signal(%s)" % (a, aset), "        self.sigs.append(self.%s)" % a]
    L += ["        self.extra = []"]
    if shape["lov"]:
        L += ["        self.ovs = Signal(name_override=%r)" % shape["lov"], "        self.extra.append(self.ovs)"]
    if shape["lrel"]:
        L += ["        self.r = Signal(related=self.sigs[0])", "        self.extra.append(self.r)"]
    L += ["        self.sync += [s.eq(~s) for s in self.sigs + self.extra]", ""]

    def kids(child):
        if bind == "attr":
            r = []
            for i in range(fan):
                r += ["        self.submodules.c%d = %s()" % (i, child), "        self.kids.append(self.c%d)" % i]
            return r
        if bind == "loop":
            return ["        for i in range(%d):" % fan, "            s = %s()" % child,
                    "            self.submodules += s", "            self.kids.append(s)"]
        return ["        self.kids = [%s() for i in range(%d)]" % (child, fan), "        self.submodules += self.kids"]

    child = "Leaf"
    for d in range(depth, 0, -1):
        L += ["class Wrap%d(Module):" % d, "    def __init__(self):", "        self.kids = []"] + kids(child) + [""]
        child = "Wrap%d" % d
    L += ["class Top(Module):", "    def __init__(self):", "        self.clock_domains.cd_sys = ClockDomain(\"sys\")",
          "        self.own = []", "        self.kids = []", "        self.din = Signal(8)"]
    for a in shape["top"]:
        L += ["        self.%s = Signal(%s)" % (a, aset), "        self.own.append(self.%s)" % a]
    for i, o in enumerate(shape["tov"]):
        L += ["        self.o%d = Signal(name_override=%r%s)" % (i, o, (", " + aset) if aset else ""), "        self.own.append(self.o%d)" % i]
    L += ["        self.sync += [s.eq(~s) for s in self.own]"]
    L += kids(child)
    for i, m in enumerate(shape["mems"]):
        L += ["        self.specials.%s = Memory(8, 4, init=[1, 2])" % m,
              "        m = self.%s" % m,
              "        p = m.get_port(write_capable=True)",
              "        self.specials += p",
              "        self.mo%d = Signal(8)" % i,
              "        self.comb += [p.adr.eq(self.din), p.dat_w.eq(self.din), p.we.eq(self.din[0]), self.mo%d.eq(p.dat_r)]" % i]
    for i, nm in enumerate(shape["insts"]):
        L += ["        self.iy%d = Signal()" % i,
              "        self.specials += Instance(\"PRIM\", i_a=self.din, o_y=self.iy%d%s)" % (i, ((", name=%r" % nm) if nm else "") + ((", " + aset) if aset else ""))]
    L += ["", "def leaves(m):", "    if isinstance(m, Leaf):", "        return [m]",
          "    return [l for k in m.kids for l in leaves(k)]", "",
          "def build():", "    top = Top()", "    ios = {top.cd_sys.clk, top.cd_sys.rst, top.din} | set(top.own)",
          "    ls = leaves(top)"]
    if shape["ios"] == "leaf":
        L += ["    ios |= set(ls[0].sigs)"]
    elif shape["ios"] == "all":
        L += ["    for l in ls:", "        ios |= set(l.sigs)"]
    L += ["    return top, ios", ""]
    return "\n".join(L)


_CORPUS_HEAD = """from migen import *
class Top(Module):
    def __init__(self):
        self.clock_domains.cd_sys = ClockDomain(\"sys\")
"""

CORPUS = {
    # real LiteX blocks (name -> source); the list of names is part of NamerModules.tla (Corpus)
    "syncfifo": _CORPUS_HEAD + """        from litex.soc.interconnect import stream
        self.submodules.fifo = stream.SyncFIFO([("data", 8)], 4, buffered=True)
        self.ios = set(self.fifo.sink.flatten()) | set(self.fifo.source.flatten())
""",
    "asyncfifo": _CORPUS_HEAD + """        from litex.soc.interconnect import stream
        self.clock_domains.cd_wr = ClockDomain("wr")
        self.clock_domains.cd_rd = ClockDomain("rd")
        fifo = stream.AsyncFIFO([("data", 8)], 4)
        self.submodules.fifo = ClockDomainsRenamer({"write": "wr", "read": "rd"})(fifo)
        self.ios = set(fifo.sink.flatten()) | set(fifo.source.flatten()) | {self.cd_wr.clk, self.cd_wr.rst, self.cd_rd.clk, self.cd_rd.rst}
""",
    "converter": _CORPUS_HEAD + """        from litex.soc.interconnect import stream
        self.submodules.a = stream.Converter(8, 32)
        self.submodules.b = stream.Converter(32, 8)
        self.comb += self.a.source.connect(self.b.sink)
        self.ios = set(self.a.sink.flatten()) | set(self.b.source.flatten())
""",
    "wbsram": _CORPUS_HEAD + """        from litex.soc.interconnect import wishbone
        self.submodules.ram0 = wishbone.SRAM(64, init=[1, 2, 3])
        self.submodules.ram1 = wishbone.SRAM(64)
        self.ios = set(self.ram0.bus.flatten()) | set(self.ram1.bus.flatten())
""",
    "timer": _CORPUS_HEAD + """        from litex.soc.cores.timer import Timer
        self.submodules.timer0 = Timer()
        self.submodules.timer1 = Timer()
        self.ios = {self.timer0.ev.irq, self.timer1.ev.irq}
""",
    "wbdown": _CORPUS_HEAD + """        from litex.soc.interconnect import wishbone
        m = wishbone.Interface(data_width=32, address_width=30, addressing="word")
        s = wishbone.Interface(data_width=8, address_width=32, addressing="word")
        self.submodules.dc = wishbone.DownConverter(m, s)
        self.ios = set(m.flatten()) | set(s.flatten())
""",
}
_CORPUS_TAIL = """
def build():
    top = Top()
    return top, top.ios | {top.cd_sys.clk, top.cd_sys.rst}
"""


def corpus_source(name):
    return CORPUS[name] + _CORPUS_TAIL


# ------------------------------------------------------------------------------------ subprocess worker
def _worker(inp, outp, shim, off=0):
    """fresh interpreter: convert every design source with the real convert(); record text + name table.
    off > 0 (audit extension): `off` unrelated Signals are created before every design is built, so every DUID of
    the design is shifted (by off, 2*off, ... for the 1st, 2nd, ... design) against the off = 0 interpreters"""
    if shim:
        from harness import py312_tracer
        py312_tracer.install()
    from migen.fhdl.specials import Memory, Instance
    from litex.gen.fhdl.verilog import convert
    with open(inp) as f:
        sources = json.load(f)
    res = []
    for src in sources:
        rec = {"ok": False, "text": "", "table": [], "err": ""}
        try:
            g = {"__name__": "design"}
            exec(compile(src, "<design>", "exec"), g)
            if off:
                from migen import Signal as _S
                for _ in range(off):
                    _S()
            top, ios = g["build"]()
            r = convert(top, set(ios), name="top", **g.get("CONVERT_KW", {}))
            ns = r.ns
            table = []
            try:        # every object the namespace named during emission (public state of SignalNamespace today)
                for o in list(ns.sigs.keys()):
                    kind = "memory" if isinstance(o, Memory) else "instance" if isinstance(o, Instance) else "signal"
                    base = o.name_override if getattr(o, "name_override", None) is not None else ns.name_dict.get(o)
                    table.append([str(ns.get_name(o)), base if isinstance(base, str) else "", kind])
            except AttributeError:
                table = []
            rec.update(ok=True, text=r.main_source, table=table)
        except Exception as ex:
            rec["err"] = "%s: %s" % (type(ex).__name__, ex)
        res.append(rec)
    with open(outp, "w") as f:
        json.dump(res, f)


def convert_in_fresh_interpreters(sources, variants, scratch, timeout=900):
    """variants: list of dict(tag, shim, hashseed).  One fresh interpreter per variant converts all sources.
    returns {tag: [record per source]}"""
    inp = os.path.join(scratch, "designs.json")
    with open(inp, "w") as f:
        json.dump(sources, f)
    procs = []
    for v in variants:
        outp = os.path.join(scratch, "out_%s.json" % v["tag"])
        env = dict(os.environ)
        env["PYTHONHASHSEED"] = str(v["hashseed"])
        env["PYTHONPATH"] = ROOT + os.pathsep + env.get("PYTHONPATH", "")
        p = subprocess.Popen([sys.executable, "-m", "harness.families.namer", "worker", inp, outp, str(int(v["shim"])),
                              str(int(v.get("off", 0)))],
                             env=env, cwd=ROOT, stdout=subprocess.PIPE, stderr=subprocess.STDOUT, text=True)
        procs.append((v, outp, p))
    out = {}
    for v, outp, p in procs:
        try:
            so, _ = p.communicate(timeout=timeout)
        except subprocess.TimeoutExpired:
            p.kill()
            raise RuntimeError("convert worker %s timed out" % v["tag"])
        if p.returncode != 0 or not os.path.exists(outp):
            raise RuntimeError("convert worker %s failed (rc=%s): %s" % (v["tag"], p.returncode, (so or "")[-1500:]))
        with open(outp) as f:
            out[v["tag"]] = json.load(f)
    return out


# ------------------------------------------------------------------------------------ emitted text
class TextFormatError(Exception):
    pass


# the two timestamp lines and the banner line with the git revision of the LiteX checkout (not part of the design:
# it changes whenever somebody commits to the repository between two runs)
_DATE = (re.compile(r"^// Date\s+: "), re.compile(r"^//\s+Auto-Generated by LiteX on .*\.$"), re.compile(r"^// LiteX sha1 : "))
_PORT = re.compile(r"^    (?:input  wire|output wire|output reg |inout  wire) (?:signed)? *(?:\[\d+:0\])? *([^ ,\[\]]+?)(?: = [^,]*)?,?$")
_NET = re.compile(r"^(?:wire|reg ) (?:signed)? *(?:\[\d+:0\])? *([^ =;\[\]]+?)(?: = [^;]*)?;$")
_MEM = re.compile(r"^reg \[\d+:0\] ([^ =;\[\]]+?)\[0:\d+\];$")
_MREG = re.compile(r"^reg \[\d+:0\] ([^ =;\[\]]+?);$")
_INST1 = re.compile(r"^([^ ()]+) ([^ ()]+?) ?\($")
_INST2 = re.compile(r"^\) ([^ ()]+?) \($")
_IGNORE0 = re.compile(r"^(//|initial begin$|end$|always @\(posedge .*\) begin$|assign .*;$|\);$|\)/\* synthesis .*\*/;$|"
                      r"\(\* .* \*\)$|[^ ()]+ #\($|endmodule$)")


def strip_dates(text):
    lines, nd = [], 0
    for ln in text.split("\n"):
        if any(r.match(ln) for r in _DATE):
            nd += 1
        else:
            lines.append(ln)
    return lines, nd


def declared_identifiers(text):
    """<<kind, identifier>> of every declaration in a text emitted by litex.gen.fhdl.verilog.convert:
    module ports, wire/reg declarations, memories (and their address/data registers), instances.
    Line oriented and strict: a line of the declaration sections that has none of the known forms raises
    TextFormatError.  The identifier is taken as raw text (whether it is legal is for TLC to say)."""
    decls = []
    lines = text.split("\n")
    sec = None
    i = 0
    in_ports = False
    while i < len(lines):
        ln = lines[i]
        if ln.startswith("//---") and i + 2 < len(lines) and lines[i + 1].startswith("// ") and lines[i + 2].startswith("//---"):
            title = lines[i + 1][3:].strip()
            if title in ("Module", "Hierarchy", "Signals", "Combinatorial Logic", "Synchronous Logic", "Specialized Logic"):
                sec = title
                i += 3
                continue
        if sec == "Module":
            if ln.startswith("module "):
                in_ports = True
            elif ln == ");":
                in_ports = False
            elif in_ports and ln.strip():
                if ln.startswith("    (* ") or ln.startswith("(* "):
                    # attribute line, the port follows on the same line after the attribute's newline
                    pass
                else:
                    m = _PORT.match(ln)
                    if not m:
                        raise TextFormatError("port line not understood: %r" % ln)
                    decls.append(["port", m.group(1)])
        elif sec == "Signals":
            if ln.strip() and not ln.startswith("(* "):
                m = _NET.match(ln)
                if not m:
                    raise TextFormatError("signal declaration not understood: %r" % ln)
                decls.append(["net", m.group(1)])
        elif sec == "Specialized Logic":
            if ln and ln[0] not in " \t":
                m = _MEM.match(ln)
                if m:
                    decls.append(["memory", m.group(1)])
                else:
                    m = _MREG.match(ln)
                    if m:
                        decls.append(["net", m.group(1)])
                    elif _IGNORE0.match(ln):
                        pass
                    else:
                        m = _INST2.match(ln) or None
                        if m:
                            decls.append(["instance", m.group(1)])
                        else:
                            m = _INST1.match(ln)
                            if not m:
                                raise TextFormatError("line of the specials section not understood: %r" % ln)
                            decls.append(["instance", m.group(2)])
        i += 1
    return decls


_SYNTAX = {"assign", "always", "posedge", "negedge", "begin", "end", "if", "else", "case", "endcase", "default", "initial",
           "reg", "wire", "signed", "endmodule", "or"}
_STRIP = re.compile(r"//[^\n]*|\"(?:\\.|[^\"\\])*\"|\(\*[^)\n][^\n]*?\*\)|\d+'[sS]?[bBoOdDhH][0-9a-fA-F_xXzZ?]+|\$[A-Za-z_][A-Za-z0-9_$]*|"
                    r"\.[A-Za-z_][A-Za-z0-9_$]*")
_IDENT = re.compile(r"[A-Za-z_][A-Za-z0-9_$]*")
_INSTHEAD = re.compile(r"^([^ ()]+) (?:#\($|[^ ()]+? ?\($)")


def used_identifiers(text):
    """identifiers that occur in the statements of the emitted text (everything after the declarations of the
    Signals section: assigns, always blocks, memory and instance bodies), without the words of the emitted syntax
    itself, system tasks, literals, strings, comments, attributes, instance port/parameter names and module types"""
    lines = text.split("\n")
    start = None
    for i, ln in enumerate(lines):
        if ln == "// Combinatorial Logic" and i > 0 and lines[i - 1].startswith("//---"):
            start = i + 2
            break
    if start is None:
        raise TextFormatError("no 'Combinatorial Logic' section")
    used = set()
    for ln in lines[start:]:
        if ln and ln[0] not in " \t/":
            m = _INSTHEAD.match(ln)
            if m and m.group(1) not in _SYNTAX:
                ln = ln[len(m.group(1)):]
        ln = _STRIP.sub(" ", ln.replace("@(*)", "@ "))
        for w in _IDENT.findall(ln):
            if w not in _SYNTAX:
                used.add(w)
    return sorted(used)


if __name__ == "__main__":
    if len(sys.argv) == 6 and sys.argv[1] == "worker":
        _worker(sys.argv[2], sys.argv[3], int(sys.argv[4]), int(sys.argv[5]))
        sys.exit(0)
    sys.exit(2)
