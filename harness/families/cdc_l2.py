"""L2 lane of the clock-domain-crossing family (C05): model configurations, register projections, M-mode sweeps
(specs/cdc/CdcModel.tla, CdcModelM.tla, CdcModelConf.tla).

The registers of the crossings are local variables of migen / LiteX modules; several carry the same variable name in
both domains (`q`, `toggle_i`, the anonymous flops of MultiRegImpl), so the projection finds them by variable name
WITHIN the clock domain that clocks them, and the synchroniser stages by structure (`the flop of domain D whose
next-state expression is exactly signal S`).  Anything that is not found exactly once raises KeyError."""
import collections.abc

from . import cdc as fam
from ..l2 import Lane

_BASE = {"cls": "", "ab": 0, "depth": 0, "buffered": 0, "dw": 1, "pw": 0, "fl": 0, "rst": 0, "width": 0, "timeout": 0}


def model_cfg(spec, cfg=None):
    """python spec of harness.families.cdc -> model configuration of CdcModel, or None (no model)"""
    kind = spec["kind"]
    if kind in ("asyncfifo", "cdc"):
        if spec.get("swapnames"):
            return None     # recorded finding: the sequential renaming collapses the crossing into one domain - not an AsyncFIFO
        depth = spec.get("depth", 4)
        ab = depth.bit_length() - 1
        if depth != 1 << ab or depth < 4:
            return None
        pw, fl = spec.get("pw", 0), spec.get("fl", 0)
        if kind == "cdc" and spec.get("common_rst") and (pw or fl):
            return None
        return dict(_BASE, cls="AsyncFIFO", ab=ab, depth=depth, buffered=int(bool(spec.get("buffered"))),
                    dw=spec.get("dw", 1) - pw - 2 * fl, pw=pw, fl=fl, rst=int(bool(spec.get("common_rst"))))
    if kind == "bus" and spec["width"] > 1:
        return dict(_BASE, cls="Bus", width=spec["width"], timeout=spec["timeout"])
    if kind == "pulse":
        return dict(_BASE, cls="Pulse")
    return None


# ------------------------------------------------------------------------------ projection
def _vname(s):
    bt = getattr(s, "backtrace", None)
    return s.name_override or (bt[-1][0] if bt else None)


def _assigns(st, cd):
    """every assignment (target, right-hand side) of the synchronous statements of clock domain cd"""
    from migen.fhdl.structure import _Assign, If, Case
    out = []

    def walk(stmts):
        for s in stmts:
            if isinstance(s, _Assign):
                out.append((s.l, s.r))
            elif isinstance(s, If):
                walk(s.t)
                walk(s.f)
            elif isinstance(s, Case):
                for b in s.cases.values():
                    walk(b)
            elif isinstance(s, collections.abc.Iterable):
                walk(s)
    walk(st.f.sync.get(cd, []))
    return out


def named(st, cd, name, owner=None):
    """the register of clock domain cd whose Python variable is `name` (owner: name of the enclosing module variable,
    second-to-last element of the tracer's back-trace, e.g. the submodule `ping` / `pong`)"""
    hits = [s for s in st.regs_by_cd.get(cd, []) if _vname(s) == name]
    if owner is not None:
        hits = [s for s in hits if len(s.backtrace) >= 3 and s.backtrace[-3][0] == owner]
    if len(hits) != 1:
        raise KeyError("register %r%s of clock domain %r: %d candidates" % (
            name, " of %s" % owner if owner else "", cd, len(hits)))
    return hits[0]


def fed_by(st, cd, src):
    """the flop of clock domain cd that loads exactly the signal `src` (unconditionally or not)"""
    hits = []
    for l, r in _assigns(st, cd):
        if r is src and l not in hits:
            hits.append(l)
    if len(hits) != 1:
        raise KeyError("flop of clock domain %r fed by %r: %d candidates" % (cd, _vname(src), len(hits)))
    return hits[0]


def multireg(st, cd, src):
    """the two flops of MultiReg(src, ..., cd)"""
    a = fed_by(st, cd, src)
    return a, fed_by(st, cd, a)


def proj(spec, st):
    """{register name of CdcModel: Signal | Memory | 0} for the DUT built by harness.families.cdc.make"""
    m = model_cfg(spec)
    if m is None:
        raise KeyError("no model for %r" % (spec,))
    if m["cls"] == "Pulse":
        ti = named(st, "write", "toggle_i")
        t0, t1 = multireg(st, "read", ti)
        return {"toggle_i": ti, "t0": t0, "t1": t1, "toggle_o_r": named(st, "read", "toggle_o_r")}
    if m["cls"] == "Bus":
        pi, qi = named(st, "write", "toggle_i"), named(st, "read", "toggle_i")
        p0, p1 = multireg(st, "read", pi)
        q0, q1 = multireg(st, "write", qi)
        ib = named(st, "write", "ibuffer")
        o0, o1 = multireg(st, "read", ib)
        return {"starter": named(st, "write", "starter"), "count": named(st, "write", "count"), "ibuffer": ib,
                "ping_toggle_i": pi, "ping_t0": p0, "ping_t1": p1, "ping_toggle_o_r": named(st, "read", "toggle_o_r"),
                "ping_o": named(st, "read", "ping_o"),
                "pong_toggle_i": qi, "pong_t0": q0, "pong_t1": q1, "pong_toggle_o_r": named(st, "write", "toggle_o_r"),
                "ob0": o0, "ob1": o1, "o": named(st, "read", "o")}
    # AsyncFIFO: the domains are those of the two ports of the one memory ("write"/"read", or the private domains of
    # ClockDomainCrossing(with_common_rst))
    mems = sorted(st.ev.replaced_memories, key=lambda x: x.duid)
    if len(mems) != 1:
        raise KeyError("storage: %d memories" % len(mems))
    mem = mems[0]
    wp = [p for p in mem.ports if p.we is not None]
    rp = [p for p in mem.ports if p.we is None]
    if len(wp) != 1 or len(rp) != 1:
        raise KeyError("storage: %d write ports, %d read ports" % (len(wp), len(rp)))
    wcd, rcd = wp[0].clock.cd, rp[0].clock.cd
    if wcd == rcd:
        raise KeyError("storage: both ports in clock domain %r" % wcd)
    pq, cq = named(st, wcd, "q"), named(st, rcd, "q")
    prd0, prd1 = multireg(st, rcd, pq)
    cwd0, cwd1 = multireg(st, wcd, cq)
    r = {"produce_q": pq, "produce_qb": named(st, wcd, "q_binary"), "cwd0": cwd0, "cwd1": cwd1, "storage": mem,
         "consume_q": cq, "consume_qb": named(st, rcd, "q_binary"), "rdadr": fed_by(st, rcd, rp[0].adr),
         "prd0": prd0, "prd1": prd1}
    if m["buffered"]:
        r["readable"] = named(st, rcd, "readable")
        r["dout"] = named(st, rcd, "dout")
    else:
        r["readable"] = 0
        r["dout"] = 0
    return r


LANE = Lane("cdc", "cdc/CdcModelConf", model_cfg, "harness.families.cdc_l2:proj", m_module="cdc/CdcModelM")


# ------------------------------------------------------------------------------ M-mode sweeps
def _entry(spec, **over):
    spec = dict(spec)
    c = fam.tla_cfg(spec)
    c.update(over)
    m = model_cfg(spec)
    assert m is not None, spec
    return {"c": c, "m": m, "spec": spec}


# smallest time-out of BusSynchronizer for which no word is torn at clock drift R, as established on the model
# (M-mode, every interleaving within the drift bound, every metastable resolution); one less tears a word (canary)
BUS_MIN_TIMEOUT = {}
