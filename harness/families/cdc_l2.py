"""L2 lane of the clock-domain-crossing family (C05): model configurations, register projections, M-mode sweeps
(specs/cdc/CdcModel.tla, CdcModelM.tla, CdcModelConf.tla).

The registers of the crossings are local variables of migen / LiteX modules; several carry the same variable name in
both domains (`q`, `toggle_i`, the anonymous flops of MultiRegImpl), so the projection finds them by variable name
WITHIN the clock domain that clocks them, and the synchroniser stages by structure (`the flop of domain D whose
next-state expression is exactly signal S`).  Anything that is not found exactly once raises KeyError."""
import collections.abc

from . import cdc as fam
from ..l2 import Lane

_BASE = {"cls": "", "ab": 0, "depth": 0, "buffered": 0, "dw": 1, "pw": 0, "fl": 0, "rst": 0, "width": 0, "timeout": 0}


def model_cfg(spec, cfg=None):
    """python spec of harness.families.cdc -> model configuration of CdcModel, or None (no model)"""
    kind = spec["kind"]
    if kind in ("asyncfifo", "cdc"):
        if spec.get("swapnames"):
            return None     # recorded finding: the sequential renaming collapses the crossing into one domain - not an AsyncFIFO
        depth = spec.get("depth", 4)
        ab = depth.bit_length() - 1
        if depth != 1 << ab or depth < 4:
            return None
        pw, fl = spec.get("pw", 0), spec.get("fl", 0)
        if kind == "cdc" and spec.get("common_rst") and (pw or fl):
            return None     # the factory builds the with_common_rst DUT with a payload-only layout
        return dict(_BASE, cls="AsyncFIFO", ab=ab, depth=depth, buffered=int(bool(spec.get("buffered"))),
                    dw=spec.get("dw", 1) - pw - 2 * fl, pw=pw, fl=fl, rst=int(bool(spec.get("common_rst"))))
    if kind == "bus" and spec["width"] > 1:
        return dict(_BASE, cls="Bus", width=spec["width"], timeout=spec["timeout"])
    if kind == "pulse":
        return dict(_BASE, cls="Pulse")
    return None


# ------------------------------------------------------------------------------ projection
def _vname(s):
    bt = getattr(s, "backtrace", None)
    return s.name_override or (bt[-1][0] if bt else None)


def _assigns(st, cd):
    """every assignment (target, right-hand side) of the synchronous statements of clock domain cd"""
    from migen.fhdl.structure import _Assign, If, Case
    out = []

    def walk(stmts):
        for s in stmts:
            if isinstance(s, _Assign):
                out.append((s.l, s.r))
            elif isinstance(s, If):
                walk(s.t)
                walk(s.f)
            elif isinstance(s, Case):
                for b in s.cases.values():
                    walk(b)
            elif isinstance(s, collections.abc.Iterable):
                walk(s)
    walk(st.f.sync.get(cd, []))
    return out


def named(st, cd, name, owner=None):
    """the register of clock domain cd whose Python variable is `name` (owner: name of the enclosing module variable,
    second-to-last element of the tracer's back-trace, e.g. the submodule `ping` / `pong`)"""
    hits = [s for s in st.regs_by_cd.get(cd, []) if _vname(s) == name]
    if owner is not None:
        hits = [s for s in hits if len(s.backtrace) >= 3 and s.backtrace[-3][0] == owner]
    if len(hits) != 1:
        raise KeyError("register %r%s of clock domain %r: %d candidates" % (
            name, " of %s" % owner if owner else "", cd, len(hits)))
    return hits[0]


def fed_by(st, cd, src):
    """the flop of clock domain cd that loads exactly the signal `src` (unconditionally or not)"""
    hits = []
    for l, r in _assigns(st, cd):
        if r is src and l not in hits:
            hits.append(l)
    if len(hits) != 1:
        raise KeyError("flop of clock domain %r fed by %r: %d candidates" % (cd, _vname(src), len(hits)))
    return hits[0]


def multireg(st, cd, src):
    """the two flops of MultiReg(src, ..., cd)"""
    a = fed_by(st, cd, src)
    return a, fed_by(st, cd, a)


def proj(spec, st):
    """{register name of CdcModel: Signal | Memory | 0} for the DUT built by harness.families.cdc.make"""
    m = model_cfg(spec)
    if m is None:
        raise KeyError("no model for %r" % (spec,))
    if m["cls"] == "Pulse":
        ti = named(st, "write", "toggle_i")
        t0, t1 = multireg(st, "read", ti)
        return {"toggle_i": ti, "t0": t0, "t1": t1, "toggle_o_r": named(st, "read", "toggle_o_r")}
    if m["cls"] == "Bus":
        pi, qi = named(st, "write", "toggle_i"), named(st, "read", "toggle_i")
        p0, p1 = multireg(st, "read", pi)
        q0, q1 = multireg(st, "write", qi)
        ib = named(st, "write", "ibuffer")
        o0, o1 = multireg(st, "read", ib)
        return {"starter": named(st, "write", "starter"), "count": named(st, "write", "count"), "ibuffer": ib,
                "ping_toggle_i": pi, "ping_t0": p0, "ping_t1": p1, "ping_toggle_o_r": named(st, "read", "toggle_o_r"),
                "ping_o": named(st, "read", "ping_o"),
                "pong_toggle_i": qi, "pong_t0": q0, "pong_t1": q1, "pong_toggle_o_r": named(st, "write", "toggle_o_r"),
                "ob0": o0, "ob1": o1, "o": named(st, "read", "o")}
    # AsyncFIFO: the domains are those of the two ports of the one memory ("write"/"read", or the private domains of
    # ClockDomainCrossing(with_common_rst))
    mems = sorted(st.ev.replaced_memories, key=lambda x: x.duid)
    if len(mems) != 1:
        raise KeyError("storage: %d memories" % len(mems))
    mem = mems[0]
    wp = [p for p in mem.ports if p.we is not None]
    rp = [p for p in mem.ports if p.we is None]
    if len(wp) != 1 or len(rp) != 1:
        raise KeyError("storage: %d write ports, %d read ports" % (len(wp), len(rp)))
    wcd, rcd = wp[0].clock.cd, rp[0].clock.cd
    if wcd == rcd:
        raise KeyError("storage: both ports in clock domain %r" % wcd)
    pq, cq = named(st, wcd, "q"), named(st, rcd, "q")
    prd0, prd1 = multireg(st, rcd, pq)
    cwd0, cwd1 = multireg(st, wcd, cq)
    r = {"produce_q": pq, "produce_qb": named(st, wcd, "q_binary"), "cwd0": cwd0, "cwd1": cwd1, "storage": mem,
         "consume_q": cq, "consume_qb": named(st, rcd, "q_binary"), "rdadr": fed_by(st, rcd, rp[0].adr),
         "prd0": prd0, "prd1": prd1}
    if m["buffered"]:
        r["readable"] = named(st, rcd, "readable")
        r["dout"] = named(st, rcd, "dout")
    else:
        r["readable"] = 0
        r["dout"] = 0
    return r


LANE = Lane("cdc", "cdc/CdcModelConf", model_cfg, "harness.families.cdc_l2:proj", m_module="cdc/CdcModelM")


# ------------------------------------------------------------------------------ M-mode sweeps
def _entry(spec, **over):
    spec = dict(spec)
    c = fam.tla_cfg(spec)
    c.update(over)
    m = model_cfg(spec)
    assert m is not None, spec
    return {"c": c, "m": m, "spec": spec}




# ------------------------------------------------------------------------------ conformance (compact case format)
def graph_cases(gl, lane=None):
    """all edges of the graphs of a GraphLoop run in the format of CdcModelConf: per DUT with a model the table of
    projected states and the cases [s, iv, o, [d, ...]] (every metastable resolution).  A projection that fails
    (a modelled register is no longer there) is returned as {"spec", "m", "error"}."""
    from .. import l2
    lane = lane or LANE
    out = []
    pool = gl._pool()
    for g in gl.duts:
        m = lane.model_cfg(g.spec, g.cfg)
        if m is None:
            continue
        try:
            _, ix = pool.apply(l2._wproj, ((g.spec_json, lane.proj_path),))
        except KeyError as ex:
            out.append({"spec": g.spec, "m": m, "error": str(ex), "states": [], "cases": []})
            continue
        states = [l2.project(ix, s) for s in g.states]
        cases = []
        for s, edges in enumerate(g.succ):
            for k, (o, d) in edges.items():
                iv = g.alphabet.get(k)
                if iv is None:
                    iv = tuple(int(x) for x in k.strip("<>").split(",")) if k.strip("<>").strip() else ()
                cases.append([s, list(iv), list(o), list(d) if isinstance(d, (list, tuple)) else [d]])
        out.append({"spec": g.spec, "m": m, "reset": states[0], "states": states, "cases": cases})
    return out


def run_cases(spec, schedule, observed=None):
    """cycle-by-cycle run of the real netlist from reset on the reference evaluator under the recorded two-clock
    schedule (no injection) in the format of CdcModelConf; `observed`: the outputs the ordinary simulator showed at
    the same instants (cross-check of the replay).  -> dict like graph_cases, or None (no model)"""
    from .. import l2
    from ..fhdl_step import Stepper
    from ..report import MachineryError
    m = model_cfg(spec)
    if m is None:
        return None
    made = fam.make(spec)
    opts = made[3]
    st = Stepper(made[0], made[1], made[2], clocks=tuple(opts["clocks"]), engine="ref")
    try:
        ix = l2.proj_index(st, LANE.proj_path, spec)
    except KeyError as ex:
        return {"spec": spec, "m": m, "error": str(ex), "states": [], "cases": []}
    st.load(st.reset_state, tuple(0 for _ in st.inputs))
    states = [l2.project(ix, st.state())]
    cases = []
    for k, iv in enumerate(schedule):
        iv = tuple(iv)
        st.load(st.state(), opts["strip_input"](iv))
        o = [int(x) for x in st.peek()]
        if observed is not None and o != [int(x) for x in observed[k]]:
            raise MachineryError("replay of a T-mode run of %r on the stepper diverges from the simulator at instant %d: "
                                 "%r vs %r" % (spec, k + 1, o, observed[k]))
        st.tick(opts["cds_from_input"](iv))
        states.append(l2.project(ix, st.state()))
        cases.append([k, list(iv), o, [k + 1], 0])
    return {"spec": spec, "m": m, "reset": states[0], "states": states, "cases": cases}


def expand_case(dut, case):
    """case of the compact format -> [registers, inputs, outputs, [next registers, ...]] (for the drift note)"""
    return [dut["states"][case[0]], case[1], case[2], [dut["states"][x] for x in case[3]]]


def conformance(duts, lane=None, timeout=1800, workers=4, heap="6g"):
    """TLC (CdcModelConf) judges every case of every DUT: one initial state per case.  -> (cases judged, drifts);
    a drift is dict(spec, m, clause, case) as in harness.l2.conformance (case expanded)."""
    import json
    import os
    import shutil
    import tempfile
    from .. import tlc as tlcmod
    from ..report import MachineryError
    lane = lane or LANE
    drifts = [{"spec": d["spec"], "m": d["m"], "clause": "Projection", "error": d["error"],
               "case": [{}, [], [], "register not found in the netlist: " + d["error"]]} for d in duts if d.get("error")]
    duts = [d for d in duts if d["cases"]]
    if not duts:
        return 0, drifts
    scratch = tempfile.mkdtemp(prefix="verif-l2-", dir=os.environ.get("VERIF_SCRATCH", "/var/tmp"))
    n = sum(len(d["cases"]) for d in duts)
    try:
        live = list(range(len(duts)))
        while live:
            path = os.path.join(scratch, "cases.json")
            with open(path, "w") as f:
                json.dump({"duts": [{k: duts[i][k] for k in ("m", "reset", "states", "cases")} for i in live]},
                          f, separators=(",", ":"))
            cfg = "INIT Init\nNEXT Next\nCHECK_DEADLOCK FALSE\n" + "".join("INVARIANT %s\n" % c for c in lane.clauses)
            res = tlcmod.run(lane.conf_module, cfg, env={"CASES": path}, timeout=timeout, scratch=scratch,
                             workers=workers, heap=heap)
            if res.errors:
                raise MachineryError("TLC failed in L2 conformance (%s): %s\n%s" % (lane.name, " | ".join(res.errors[:4]), res.out[-1500:]))
            if not res.violated:
                want = sum(len(duts[i]["cases"]) for i in live)
                if res.distinct != want:
                    raise MachineryError("L2 conformance (%s): %d cases judged, %d expected" % (lane.name, res.distinct, want))
                break
            last = res.trace[-1]["vars"] if res.trace else {}
            i, j = last.get("i"), last.get("j")
            if not isinstance(i, int) or not isinstance(j, int):
                raise MachineryError("L2 conformance: violation of %s without a parsable state" % res.violated)
            real = live[i - 1]
            drifts.append({"spec": duts[real]["spec"], "m": duts[real]["m"], "clause": res.violated,
                           "case": expand_case(duts[real], duts[real]["cases"][j - 1])})
            live = [x for x in live if x != real]
    finally:
        shutil.rmtree(scratch, ignore_errors=True)
    return n, drifts


# ------------------------------------------------------------------------------ M-mode sweeps
SAFETY = ["InOrderExactlyOnce", "ValidHold", "NeverOverflows", "OnlyRealWords", "EmptyAfterReset", "NoSpuriousPulse",
          "EveryPulseOnce"]
# BusSynchronizer: shortest time-out for which no word is ever torn at clock drift R (between two edges of one clock at
# most R edges of the other), established on the model in M-mode (every interleaving, every metastable resolution) and
# kept honest by the canaries: with one count less a torn word is reachable - on the model, and the counterexample
# reproduces on the real netlist.  It is the worst-case request/acknowledge round trip in write-clock edges:
# 4 R + 6  (R = 1: 10, R = 2: 14, R = 3: 18, R = 4: 22).
def bus_min_timeout(r):
    return 4 * r + 6


MMODE_LARGEST = {
    "quick": "AsyncFIFO depth 8 (single-valued tokens) and depth 4 (two-valued) under unbounded clock drift; BusSynchronizer width 3-4 at drift 1..3 with time-out 4R+6",
    "thorough": "AsyncFIFO depth 16 under unbounded clock drift, depth 4 buffered with two-valued data, packed param/first/last; "
                "common reset at depth 8 / drift 3 / two-valued data; BusSynchronizer width 4 at drift 1..4 with time-out 4R+6; "
                "PulseSynchronizer drift 6",
}


def mmode_configs(tier):
    """groups of M-mode configurations; one TLC run of CdcModelM per group.
    group = dict(name, what, entries=[{c, m, spec, live}], invs, props, expect (canary: clause that MUST fail), workers, heap).
    FIFO crossings: r = 0 = UNBOUNDED relative drift of the two clocks.  Single-valued tokens (dset (1,), power-up storage
    0) expose drops, duplicates, deliveries from an empty FIFO and reads of never-written slots; two-valued tokens
    also reads from a wrong written slot / reordering."""
    th = tier == "thorough"
    G = []

    def ent(live=0, **spec):
        e = _entry(spec)
        e["live"] = live
        return e

    def fifo(**kw):
        return ent(kind="asyncfifo", dw=1, r=0, **kw)

    def crst(**kw):
        d = dict(kind="cdc", common_rst=1, depth=4, dw=1, dset=(1,), rst=3, nrst=0)
        d.update(kw)
        return ent(**d)

    # ---- FIFO crossings, unbounded drift, safety
    L = [fifo(depth=4), fifo(depth=8, dset=(1,)), fifo(depth=4, dset=(1,), buffered=True)]
    if th:
        L += [fifo(depth=8, dset=(1,), buffered=True), fifo(depth=16, dset=(1,)), fifo(depth=4, buffered=True),
              ent(kind="asyncfifo", depth=4, dw=4, pw=1, fl=1, r=0, dset=(6, 9)),
              ent(kind="cdc", depth=8, dw=1, r=0, dset=(1,), buffered=True)]
    G.append({"name": "fifo-unbounded-drift", "what": "stream.AsyncFIFO / ClockDomainCrossing, any interleaving of the two clocks",
              "entries": L, "invs": SAFETY, "props": []})
    # ---- FIFO crossings, unbounded drift, liveness (both clocks keep ticking, producer and consumer cooperate)
    L = [ent(live=1, kind="asyncfifo", dw=1, r=0, depth=4, dset=(1,)),
         ent(live=1, kind="asyncfifo", dw=1, r=0, depth=4, dset=(1,), buffered=True)]
    if th:
        L += [ent(live=1, kind="asyncfifo", dw=1, r=0, depth=8, dset=(1,))]
    G.append({"name": "fifo-unbounded-drift-progress", "what": "Progress under unbounded drift", "entries": L,
              "invs": ["InOrderExactlyOnce"], "props": ["Progress"]})
    # ---- common reset (the quick tier's G-mode explores r = 2, rh = 5 with single-valued tokens on the netlist itself)
    if th:
        L = [crst(r=3, rh=6), crst(r=2, rh=5, dset=(0, 1)), crst(r=2, rh=5, depth=8), crst(r=2, rh=5, buffered=True)]
        G.append({"name": "common-rst", "what": "ClockDomainCrossing(with_common_rst), reset pulses of either domain held for R + 3 edges",
                  "entries": L, "invs": SAFETY, "props": []})
    # ---- BusSynchronizer at the shortest safe time-out
    if th:
        L = [ent(kind="bus", width=3, timeout=bus_min_timeout(r), r=r, dset=(0, 7, 5)) for r in (1, 2, 3)]
        L += [ent(kind="bus", width=4, timeout=bus_min_timeout(r), r=r, dset=(0, 15, 9)) for r in (1, 2, 3, 4)]
        L += [ent(kind="bus", width=4, timeout=bus_min_timeout(r), r=r, dset=(0, 15, 5, 10)) for r in (1, 2, 3)]
        L += [ent(kind="bus", width=4, timeout=bus_min_timeout(3) + 14, r=3, dset=(0, 15, 9))]
    else:
        L = [ent(kind="bus", width=3, timeout=bus_min_timeout(1), r=1, dset=(0, 7, 5)),
             ent(kind="bus", width=4, timeout=bus_min_timeout(2), r=2, dset=(0, 15, 9)),
             ent(kind="bus", width=4, timeout=bus_min_timeout(3), r=3, dset=(0, 15))]
    G.append({"name": "bus-min-timeout", "what": "BusSynchronizer width 3-4, drift R = 1..3, time-out 4R+6 (just above the round trip)",
              "entries": L, "invs": SAFETY, "props": []})
    L = [ent(live=1, kind="bus", width=3, timeout=bus_min_timeout(1), r=1, dset=(0, 7, 5))]
    if th:
        L += [ent(live=1, kind="bus", width=3, timeout=bus_min_timeout(2), r=2, dset=(0, 7, 5)),
              ent(live=1, kind="bus", width=4, timeout=bus_min_timeout(3), r=3, dset=(0, 15))]
    G.append({"name": "bus-fresh", "what": "a bus word that stops changing is eventually shown for good", "entries": L,
              "invs": ["OnlyRealWords"], "props": ["FreshAll"]})
    # ---- PulseSynchronizer
    L = [ent(kind="pulse", r=r, quiet=r + 1) for r in ((1, 2, 3, 4, 5, 6) if th else (1, 2, 3, 4))]
    G.append({"name": "pulse", "what": "PulseSynchronizer, R + 1 quiet input cycles after a pulse", "entries": L,
              "invs": SAFETY, "props": []})
    # ---- canaries: premise of the property broken, the clause MUST fail on the model (and then on the netlist);
    # one TLC worker: breadth-first, the shortest counterexample, the same one in every run
    can = [dict(kind="bus", width=3, timeout=bus_min_timeout(1) - 1, r=1, dset=(0, 7, 5)),
           dict(kind="bus", width=4, timeout=bus_min_timeout(3) - 1, r=3, dset=(0, 15))]
    if th:
        can += [dict(kind="bus", width=4, timeout=bus_min_timeout(2) - 1, r=2, dset=(0, 15, 9)),
                dict(kind="bus", width=4, timeout=bus_min_timeout(4) - 1, r=4, dset=(0, 15)),
                dict(kind="bus", width=2, timeout=8, r=1, dset=(0, 3))]
    for s in can:
        G.append({"name": "canary-bus-w%d-r%d-t%d" % (s["width"], s["r"], s["timeout"]),
                  "what": "time-out one count below the round trip: a torn word must be reachable",
                  "entries": [ent(**s)], "invs": ["OnlyRealWords"], "props": [], "expect": "OnlyRealWords", "workers": 1, "heap": "4g"})
    # the recorded finding C05-common-rst-short-pulse-stale-pointers is part of the model (reset_less synchroniser flops):
    # with a common reset pulse shorter than R + 3 edges of each clock the model, too, shows a stale pointer after the release
    for rh in ((1, 3) if th else (3,)):
        G.append({"name": "canary-common-rst-hold-%d" % rh, "what": "common reset pulse held for fewer than R + 3 edges (recorded "
                  "finding of the unchanged tree): the model must show the stale pointer as the netlist does",
                  "entries": [crst(r=1, rh=rh, nrst=1, short_reset=1)], "invs": ["EmptyAfterReset"], "props": [],
                  "expect": "EmptyAfterReset", "workers": 1, "heap": "4g"})
    for r in ((3, 5) if th else (3,)):
        G.append({"name": "canary-pulse-r%d" % r, "what": "only R quiet cycles after a pulse: a pulse must get lost",
                  "entries": [ent(kind="pulse", r=r, quiet=r)], "invs": ["EveryPulseOnce"], "props": [], "expect": "EveryPulseOnce",
                  "workers": 1, "heap": "4g"})
    return G
