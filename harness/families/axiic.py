"""DUT factory for the AXI4 (full) interconnect family (C08): real AXIInterconnectShared / AXICrossbar /
AXIArbiter / AXIDecoder / AXIInterconnectPointToPoint of litex/soc/interconnect/axi/axi_full.py with tagged
masters and environment-driven slaves (see specs/axilic/AxiIcContract.tla).

The python spec keys are deliberately different from those of the AXI-Lite family (kind "axi_*", flags
"axi_earlyw" / "axi_xslave") so that the signatures of the AXI-Lite findings never match an AXI4 DUT."""
from migen import Module, Signal, Array, Constant, Mux, Cat

from litex.soc.interconnect.axi import axi_full
from litex.soc.interconnect.axi.axi_common import BURST_INCR
from litex.soc.integration.soc import SoCRegion

AW = 8
SIZE32 = 2                       # AxSIZE of a 4-byte beat
AUX = BURST_INCR + 4 * SIZE32    # burst type and size as the contract sees them


def _regions(spec):
    return [(0x40 * j, 0x40) for j in range(spec["m"])]


def make(spec):
    n, m = spec["n"], spec["m"]
    wr = spec["dir"] == "w"
    idw = spec.get("idw", 1)
    regs = _regions(spec)
    top = Module()
    masters = [axi_full.AXIInterface(data_width=32, address_width=AW, id_width=idw) for _ in range(n)]
    slaves = [axi_full.AXIInterface(data_width=32, address_width=AW, id_width=idw) for _ in range(m)]
    idv = spec.get("idvals", [0, 1])             # the two transaction ids in use (index 0 / 1 in the contract)
    ids = Array([Constant(v, idw) for v in idv])

    def idx(sig):                                # id seen on a port -> its index, 3 = none of the two
        return Mux(sig == idv[0], 0, Mux(sig == idv[1], 1, 3))
    ins, outs = [], []
    for i, mi in enumerate(masters):
        # one packed input per port: av + 2*tgt + 8*len + 16*id + 32*wv + 64*wl + 128*rr
        code = Signal(8)
        ins.append(code)
        av, tgt, ln, aid, wv, wl, rr = code[0], code[1:3], code[3], code[4], code[5], code[6], code[7]
        arr = Array([Constant(0, AW)] + [Constant(org + 4 * (i + 1), AW) for org, _ in regs] + [Constant(0, AW)] * 2)
        ax = mi.aw if wr else mi.ar
        # an idle address channel reads 0 in every field but burst type / size (don't care values, canonical)
        top.comb += [ax.valid.eq(av), ax.addr.eq(Mux(av, arr[tgt], spec.get("idle_addr", 0))),
                     ax.len.eq(ln), ax.id.eq(Mux(av, ids[aid], 0)), ax.burst.eq(BURST_INCR), ax.size.eq(SIZE32)]
        if wr:
            top.comb += [mi.w.valid.eq(wv), mi.w.data.eq(i + 1), mi.w.strb.eq(0xf), mi.w.last.eq(wl), mi.b.ready.eq(rr)]
        else:
            top.comb += [mi.r.ready.eq(rr)]
    for j, sj in enumerate(slaves):
        # ar + 2*wr + 4*rv + 8*rid + 16*rl
        code = Signal(5)
        ins.append(code)
        ar_, wr_, rv, rid, rl = code[0], code[1], code[2], code[3], code[4]
        if wr:
            top.comb += [sj.aw.ready.eq(ar_), sj.w.ready.eq(wr_), sj.b.valid.eq(rv), sj.b.resp.eq(j + 1),
                         sj.b.id.eq(Mux(rv, ids[rid], 0))]
        else:
            top.comb += [sj.ar.ready.eq(ar_), sj.r.valid.eq(rv), sj.r.resp.eq(j + 1), sj.r.data.eq(j + 1),
                         sj.r.id.eq(Mux(rv, ids[rid], 0)), sj.r.last.eq(rl)]
    decoders = []
    for (org, size), sj in zip(regs, slaves):
        r = SoCRegion(origin=org, size=size)
        decoders.append((r.decoder(masters[0]), sj))
    kind = spec["kind"]
    if kind == "axi_shared":
        ic = axi_full.AXIInterconnectShared(masters, decoders, timeout_cycles=None)
    elif kind == "axi_crossbar":
        ic = axi_full.AXICrossbar(masters, decoders, timeout_cycles=None)
    elif kind == "axi_arbiter":
        assert m == 1
        ic = axi_full.AXIArbiter(masters, slaves[0])
    elif kind == "axi_decoder":
        assert n == 1
        ic = axi_full.AXIDecoder(masters[0], decoders)
    elif kind == "axi_p2p":
        ic = axi_full.AXIInterconnectPointToPoint(masters[0], slaves[0])
    else:
        raise ValueError(kind)
    top.submodules.ic = ic
    for mi in masters:
        if wr:
            outs += [mi.aw.ready, mi.w.ready, mi.b.valid, mi.b.resp, idx(mi.b.id), Constant(0)]
        else:
            outs += [mi.ar.ready, Constant(0), mi.r.valid, Mux(mi.r.resp == mi.r.data[:2], mi.r.resp, 7), idx(mi.r.id), mi.r.last]
    for sj in slaves:
        ax = sj.aw if wr else sj.ar
        outs += [ax.valid, ax.addr, ax.len, idx(ax.id), Cat(ax.burst, ax.size)]
        if wr:
            outs += [sj.w.valid, sj.w.data[:4], sj.w.last, sj.b.ready]
        else:
            outs += [Constant(0), Constant(0), Constant(0), sj.r.ready]
    return top, ins, outs


def tla_cfg(spec):
    regs = _regions(spec)
    n, m = spec["n"], spec["m"]
    mfree = list(spec.get("mfree", [1] + [0] * (n - 1))) + [0] * 3
    sfree = list(spec.get("sfree", [1] + [0] * (m - 1))) + [0] * 3
    # free masters use both burst lengths and both ids unless told otherwise; simple masters use 2-beat
    # bursts with a fixed id (alternating between masters)
    mlens = list(spec.get("mlens", [2 if mfree[i] else 1 for i in range(n)])) + [0] * 3
    mids = list(spec.get("mids", [2 if mfree[i] else (i + 1) % 2 for i in range(n)])) + [0] * 3
    return {"n": n, "m": m, "k": spec.get("k", 1), "bases": [org for org, _ in regs], "dir": spec["dir"],
            "cbar": int(spec["kind"] == "axi_crossbar"), "aux": AUX, "mfree": mfree[:3], "sfree": sfree[:3],
            "mlens": mlens[:3], "mids": mids[:3],
            "earlyw": int(spec.get("axi_earlyw", 0)), "xslave": int(spec.get("axi_xslave", 0)),
            # DUTs with an arbiter are judged under traffic with gaps unless the spec asks for back-to-back traffic
            "gaps": int(spec.get("gaps", spec["kind"] in ("axi_arbiter", "axi_shared", "axi_crossbar")
                                 and not spec.get("axi_b2b")))}


NMO = 6


class Hint:
    """speculation hint: held offers are repeated (unused while the check runs with spec_budget=0)"""
    def init(self, cfg):
        return ()

    def allowed(self, cfg, ctx, iv):
        for kind, i, val in ctx:
            if kind == "a" and iv[i] & 31 != val:
                return False
            if kind == "w" and iv[i] & 96 != val:
                return False
        return True

    def next(self, cfg, ctx, iv, o):
        held = []
        for i in range(cfg["n"]):
            aready, wready = o[NMO * i], o[NMO * i + 1]
            if iv[i] & 1 and not aready:
                held.append(("a", i, iv[i] & 31))
            if iv[i] & 32 and not wready:
                held.append(("w", i, iv[i] & 96))
        return tuple(held)


def describe(s):
    cls = {"axi_decoder": "AXIDecoder", "axi_arbiter": "AXIArbiter", "axi_shared": "AXIInterconnectShared",
           "axi_crossbar": "AXICrossbar", "axi_p2p": "AXIInterconnectPointToPoint"}[s["kind"]]
    return "axi_full.%s(%dx%d, %s, k=%s%s)" % (
        cls, s["n"], s["m"], "write" if s["dir"] == "w" else "read", s.get("k", 1),
        (", data before address" if s.get("axi_earlyw") else "") +
        (", other slave while outstanding" if s.get("axi_xslave") else "") +
        (", back-to-back traffic" if s.get("axi_b2b") else "") + (", 2-bit ids" if s.get("idw", 1) > 1 else ""))


WIDE = {"idw": 2, "idvals": [1, 2]}      # 2-bit ids, the two values in use differ in the upper bit


def configs(tier):
    """-> dict of lists of (spec, cfg): 'all' = DUTs without arbitration (any traffic), 'arb' = DUTs with an
    arbiter (traffic with gaps, cfg gaps=1: back-to-back traffic starves a master, see the axi_b2b demonstrations),
    'demo' = one-DUT demonstrations of the listed findings (nofollowup)"""
    L = {"all": [], "arb": [], "demo": []}

    def add(group, **spec):
        L[group].append((spec, tla_cfg(spec)))
    for d in ("w", "r"):
        add("all", kind="axi_decoder", n=1, m=2, dir=d, k=1, sfree=[0, 1])
        # k=2: request and response in the same cycle (2-beat bursts only)
        add("all", kind="axi_decoder", n=1, m=2, dir=d, k=2, sfree=[1, 0], mlens=[1])
        add("arb", kind="axi_arbiter", n=2, m=1, dir=d, k=1, mfree=[1, 0])
        add("arb", kind="axi_shared", n=2, m=2, dir=d, k=1, mfree=[1, 0], sfree=[0, 1], mids=[1, 0])
    # the behaviours the property lists explicitly and the interconnect does not support
    add("demo", kind="axi_decoder", n=1, m=2, dir="w", k=1, sfree=[1, 0], axi_earlyw=1, nofollowup=True)     # data before address
    add("demo", kind="axi_decoder", n=1, m=2, dir="r", k=2, sfree=[1, 0], mlens=[2], mids=[2], axi_xslave=1,
        nofollowup=True)                                                                                     # other slave while outstanding
    add("demo", kind="axi_arbiter", n=2, m=1, dir="r", k=1, mfree=[0, 0], mlens=[1, 0], axi_b2b=1, nofollowup=True)  # starvation
    if tier == "thorough":
        # ports with 2-bit ids (values 1 and 2): the interconnect's internal interfaces keep the default id_width=1
        add("demo", kind="axi_shared", n=2, m=2, dir="r", k=1, mfree=[1, 0], sfree=[1, 0], axi_wideid=1, **WIDE, nofollowup=True)
        for d in ("w", "r"):
            add("all", kind="axi_p2p", n=1, m=1, dir=d, k=2, axi_earlyw=1, axi_xslave=1)
            add("all", kind="axi_decoder", n=1, m=2, dir=d, k=2, sfree=[1, 1])
            add("arb", kind="axi_shared", n=2, m=2, dir=d, k=1, mfree=[1, 0], sfree=[0, 1])
            add("all", kind="axi_decoder", n=1, m=3, dir=d, k=2 if d == "r" else 1, sfree=[1, 1, 0])
            add("all", kind="axi_decoder", n=1, m=2, dir=d, k=2, sfree=[0, 1], **WIDE)
            add("arb", kind="axi_arbiter", n=2, m=1, dir=d, k=2, mfree=[1, 0])
            add("arb", kind="axi_arbiter", n=2, m=1, dir=d, k=1, mfree=[1, 1], mlens=[2, 2], mids=[0, 1])
            add("arb", kind="axi_arbiter", n=3, m=1, dir=d, k=1, mfree=[1, 0, 0])
            add("arb", kind="axi_arbiter", n=2, m=1, dir=d, k=2, mfree=[0, 1], **WIDE)
            if d == "r":          # mirrored freedom (second master / first slave free): read direction only
                add("arb", kind="axi_shared", n=2, m=2, dir=d, k=1, mfree=[0, 1], sfree=[1, 0])
                add("arb", kind="axi_crossbar", n=2, m=2, dir=d, k=1, mfree=[0, 1], sfree=[1, 0])
            add("arb", kind="axi_shared", n=2, m=2, dir=d, k=2, mfree=[1, 0], sfree=[1, 0], mlens=[2, 1], mids=[1, 0])
            add("arb", kind="axi_shared", n=2, m=2, dir=d, k=1, mfree=[1, 1], sfree=[1, 0], mlens=[2, 1], mids=[0, 1])
            add("arb", kind="axi_shared", n=3, m=2, dir=d, k=1, mfree=[1, 0, 0], sfree=[0, 1], mids=[2 if d == "r" else 1, 0, 1])
            add("arb", kind="axi_crossbar", n=2, m=2, dir=d, k=1, mfree=[1, 0], sfree=[0, 1])
            add("arb", kind="axi_crossbar", n=2, m=2, dir=d, k=2, mfree=[1, 0], sfree=[1, 0], mlens=[2, 1], mids=[1, 0])
            add("arb", kind="axi_crossbar", n=2, m=2, dir=d, k=1, mfree=[1, 1], sfree=[1, 0], mlens=[1, 1], mids=[0, 1])
        add("demo", kind="axi_shared", n=2, m=2, dir="w", k=1, mfree=[1, 0], sfree=[1, 0], axi_earlyw=1, nofollowup=True)
        add("demo", kind="axi_crossbar", n=2, m=2, dir="w", k=1, mfree=[1, 0], sfree=[1, 0], axi_earlyw=1, nofollowup=True)
        add("demo", kind="axi_shared", n=2, m=2, dir="r", k=2, mfree=[1, 0], sfree=[1, 0], mlens=[2, 1], mids=[1, 0],
            axi_xslave=1, nofollowup=True)
        add("demo", kind="axi_shared", n=2, m=2, dir="w", k=1, mfree=[0, 0], sfree=[0, 0], mlens=[0, 1], axi_b2b=1,
            nofollowup=True)
        add("demo", kind="axi_crossbar", n=2, m=2, dir="w", k=1, mfree=[0, 0], sfree=[0, 0], mlens=[1, 0], axi_b2b=1,
            nofollowup=True)
        add("demo", kind="axi_crossbar", n=2, m=2, dir="w", k=1, mfree=[1, 0], sfree=[1, 0], axi_wideid=1, **WIDE, nofollowup=True)
    return L
