"""DUT factory for clock-domain crossings (C05): real AsyncFIFO / ClockDomainCrossing (also with_common_rst) /
BusSynchronizer / PulseSynchronizer / AXILiteClockDomainCrossing, two clocks with TLC-chosen edge interleaving and
metastability injection (Stepper.step_meta)."""
from migen import Module, Signal, Constant, ClockDomainsRenamer, ClockDomain

from litex.soc.interconnect import stream
from litex.gen.genlib.cdc import BusSynchronizer


def _cds(iv):
    return {1: ("write",), 2: ("read",), 3: ("write", "read")}[iv[0]]


def _strip(iv):
    return tuple(iv[1:])


def _layout(spec):
    """stream layout of a FIFO crossing.  spec["dw"] is the width of the whole token the contract sees; with
    spec["pw"] / spec["fl"] its upper bits travel as param field / first and last flags (the FIFO wrapper packs
    payload, param, first and last into one word: a mix-up of those fields must show as a changed token)"""
    pw, fl = spec.get("pw", 0), spec.get("fl", 0)
    dw = spec.get("dw", 1) - pw - 2 * fl
    assert dw >= 1
    if pw:
        return stream.EndpointDescription([("data", dw)], [("p", pw)])
    return [("data", dw)]


def _tok_io(top, f, spec):
    """-> (token input signal, token output expression) of the crossing f"""
    from migen import Cat
    pw, fl = spec.get("pw", 0), spec.get("fl", 0)
    if not pw and not fl:
        return f.sink.data, f.source.data
    dw = spec.get("dw", 1) - pw - 2 * fl
    din = Signal(dw + pw + 2 * fl, name="tok_in")
    top.comb += f.sink.data.eq(din[:dw])
    out = [f.source.data]
    if pw:
        top.comb += f.sink.p.eq(din[dw:dw + pw])
        out.append(f.source.p)
    if fl:
        top.comb += [f.sink.first.eq(din[dw + pw]), f.sink.last.eq(din[dw + pw + 1])]
        out += [f.source.first, f.source.last]
    return din, Cat(*out)


def make(spec):
    kind = spec["kind"]
    top = Module()
    opts = {"clocks": ("write", "read"), "meta": True, "cds_from_input": _cds, "strip_input": _strip}
    if kind == "asyncfifo":
        if spec.get("via") == "uart":
            # the crossing FIFO the UART core builds between its CSR side and a PHY in another clock domain
            # (litex/soc/cores/uart.py:_get_uart_fifo: AsyncFIFO of bytes renamed onto the two user domains)
            from litex.soc.cores.uart import _get_uart_fifo
            assert spec.get("dw", 8) == 8 and not spec.get("pw") and not spec.get("fl")
            f = _get_uart_fifo(spec.get("depth", 4), sink_cd="write", source_cd="read")
        else:
            f = stream.AsyncFIFO(_layout(spec), spec.get("depth", 4), buffered=spec.get("buffered", False))
        top.submodules.f = f
        ti, to = _tok_io(top, f, spec)
        ins = [f.sink.valid, ti, f.source.ready]
        outs = [f.sink.ready, f.source.valid, to]
    elif kind == "cdc" and spec.get("common_rst"):
        # the user domains need reset signals of their own: ResetSignal("write") / ResetSignal("read") are the
        # two environment inputs.  The crossing clocks its FIFO from two private domains "from<duid>"/"to<duid>"
        # whose clk is a combinational copy of the user clock; the repository's simulator only ticks domains named
        # in its clock list, so an edge of "write" is applied to both "write" and "from<duid>" (same for read).
        top.clock_domains.cd_write = ClockDomain("write")
        top.clock_domains.cd_read = ClockDomain("read")
        f = stream.ClockDomainCrossing([("data", spec.get("dw", 1))], cd_from="write", cd_to="read",
                                       depth=spec.get("depth", 4), buffered=spec.get("buffered", False),
                                       with_common_rst=True)
        top.submodules.f = f
        names = [cd.name for cd in f._fragment.clock_domains]
        cfrom = [n for n in names if n.startswith("from")]
        cto = [n for n in names if n.startswith("to")]
        if len(cfrom) != 1 or len(cto) != 1:
            raise ValueError("ClockDomainCrossing(with_common_rst) did not declare its two private domains: %r" % names)
        w, r = ("write", cfrom[0]), ("read", cto[0])
        table = {1: w, 2: r, 3: w + r}
        opts["clocks"] = ("write", "read", cfrom[0], cto[0])
        opts["cds_from_input"] = lambda iv: table[iv[0]]
        opts["domain_alias"] = {cfrom[0]: "write", cto[0]: "read"}
        ins = [f.sink.valid, f.sink.data, f.source.ready, top.cd_write.rst, top.cd_read.rst]
        outs = [f.sink.ready, f.source.valid, f.source.data]
    elif kind == "cdc" and spec.get("swapnames"):
        # a crossing FROM a user domain called "read" TO one called "write" (the names the FIFO inside uses, the other
        # way round): tk = 1 is still an edge of the producer's clock
        f = stream.ClockDomainCrossing([("data", spec.get("dw", 1))], cd_from="read", cd_to="write",
                                       depth=spec.get("depth", 4), buffered=spec.get("buffered", False))
        top.submodules.f = f
        table = {1: ("read",), 2: ("write",), 3: ("read", "write")}
        opts["cds_from_input"] = lambda iv: table[iv[0]]
        ins = [f.sink.valid, f.sink.data, f.source.ready]
        outs = [f.sink.ready, f.source.valid, f.source.data]
    elif kind == "cdc":
        f = stream.ClockDomainCrossing(_layout(spec), cd_from="write", cd_to="read",
                                       depth=spec.get("depth", 4), buffered=spec.get("buffered", False))
        top.submodules.f = f
        ti, to = _tok_io(top, f, spec)
        ins = [f.sink.valid, ti, f.source.ready]
        outs = [f.sink.ready, f.source.valid, to]
    elif kind == "bus":
        b = BusSynchronizer(spec["width"], "write", "read", timeout=spec["timeout"])
        top.submodules.b = b
        dummy1, dummy2 = Signal(), Signal()
        ins = [b.i, dummy1, dummy2]
        outs = [Constant(0), Constant(0), b.o]
    elif kind == "pulse":
        from migen.genlib.cdc import PulseSynchronizer
        p = PulseSynchronizer("write", "read")
        top.submodules.p = p
        dummy1, dummy2 = Signal(), Signal()
        ins = [p.i, dummy1, dummy2]
        outs = [Constant(0), Constant(0), p.o]
    elif kind == "axil":
        from litex.soc.interconnect.axi.axi_lite import AXILiteInterface, AXILiteClockDomainCrossing
        m = AXILiteInterface(data_width=32, address_width=32)
        s = AXILiteInterface(data_width=32, address_width=32)
        # user domains "cdm" (master side) / "cds" (slave side): NOT "write"/"read", the names the FIFO inside uses
        # (ClockDomainsRenamer applies its renames one after the other, see notes/C05b_findings.json)
        top.submodules.x = AXILiteClockDomainCrossing(m, s, cd_from="cdm", cd_to="cds")
        table = {1: ("cdm",), 2: ("cds",), 3: ("cdm", "cds")}
        opts["clocks"] = ("cdm", "cds")
        opts["cds_from_input"] = lambda iv: table[iv[0]]
        if spec["dir"] == "w":          # read channels tied off (valid = ready = 0)
            ins = [m.aw.valid, m.aw.addr, m.w.valid, m.w.data, m.b.ready, s.aw.ready, s.w.ready, s.b.valid, s.b.resp]
            outs = [m.aw.ready, m.w.ready, m.b.valid, m.b.resp, s.aw.valid, s.aw.addr, s.w.valid, s.w.data, s.b.ready]
        else:                           # write channels tied off
            ins = [m.ar.valid, m.ar.addr, m.r.ready, s.ar.ready, s.r.valid, s.r.data]
            outs = [m.ar.ready, m.r.valid, m.r.data, s.ar.valid, s.ar.addr, s.r.ready]
    else:
        raise ValueError(kind)
    return top, ins, outs, opts


_DEFAULTS = {"dmax": 0, "rst": 0, "rh": 0, "nrst": 0, "quiet": 0, "lat": 0}


def describe_axil(s):
    return "AXILiteClockDomainCrossing, %s channels (%s tied off), tags %r, one outstanding transaction, clock drift <= %d" % (
        "aw/w/b" if s["dir"] == "w" else "ar/r", "ar/r" if s["dir"] == "w" else "aw/w/b", list(s["tags"]), s["r"])


def tla_cfg(spec):
    if spec["kind"] == "axil":
        n = 2 if spec["dir"] == "w" else 1
        assert len(spec["tags"]) == n + 1
        return {"dir": spec["dir"], "nreq": n, "tags": list(spec["tags"]), "r": int(spec["r"])}
    c = dict(_DEFAULTS)
    if spec["kind"] == "bus":
        c.update({"kind": "bus", "cap": 1, "dset": list(spec.get("dset", (0, 3))), "r": spec["r"]})
        return c
    if spec["kind"] == "pulse":
        # lat: read edges that may follow an input pulse before the one carrying its output pulse (two synchroniser
        # stages); cap: pulses in flight, at most one per (quiet + 1) write edges during (lat + 1) read periods
        r, quiet = spec["r"], spec["quiet"]
        c.update({"kind": "pulse", "cap": 3 * (r + 1) + 2, "dset": [0, 1], "r": r, "quiet": quiet, "lat": 2})
        return c
    c.update({"kind": "fifo", "cap": spec.get("depth", 4) + 3 + (1 if spec.get("buffered") else 0),
              "dset": list(spec.get("dset", range(2 ** spec.get("dw", 1)))), "r": int(spec.get("r", 0))})
    if spec.get("common_rst"):
        c.update({"rst": int(spec.get("rst", 3)), "rh": int(spec["rh"]), "nrst": int(spec.get("nrst", 0))})
    return c


class Hint:
    """speculation hint mirroring the Env's input rules (inputs of a domain change only after its edge, drift
    bound, quiet cycles after a pulse, reset pulse rules).  An accelerator only: verdicts never depend on it."""
    def init(self, cfg):
        # hold, lastw, lastr, wfresh, rfresh, run_w, run_r, (rw, rr, write edges under reset, read edges, pulses)
        return (None, None, None, True, True, 0, 0, (0, 0, 0, 0, 0))

    def allowed(self, cfg, ctx, iv):
        hold, lastw, lastr, wf, rf, rw, rr, rs = ctx
        tk, a, b, r = iv[:4]
        if cfg["r"] > 0 and ((tk == 1 and rw >= cfg["r"]) or (tk == 2 and rr >= cfg["r"])):
            return False
        if not wf and (a, b) != lastw:
            return False
        if wf and cfg["kind"] == "fifo" and hold is not None and (a, b) != (1, hold):
            return False
        if wf and cfg["kind"] == "pulse" and hold is not None and a != 0:
            return False
        if cfg["kind"] == "fifo" and not rf and r != lastr:
            return False
        if cfg["rst"]:
            x, y = iv[4], iv[5]
            done = rs[2] >= cfg["rh"] and rs[3] >= cfg["rh"]
            more = cfg["nrst"] == 0 or rs[4] < cfg["nrst"]
            if x and y:
                return False
            if not wf:
                if x != rs[0]:
                    return False
            elif rs[0] == 1:
                if x == 0 and not done:
                    return False
            elif x == 1 and not (cfg["rst"] in (1, 3) and rs[1] == 0 and more):
                return False
            if not rf:
                if y != rs[1]:
                    return False
            elif rs[1] == 1:
                if y == 0 and not done:
                    return False
            elif y == 1 and not (cfg["rst"] in (2, 3) and rs[0] == 0 and more):
                return False
        return True

    def next(self, cfg, ctx, iv, o):
        tk, a, b, r = iv[:4]
        hold = None
        if cfg["kind"] == "fifo" and a == 1 and not (tk in (1, 3) and o[0] == 1):
            hold = b
        if cfg["kind"] == "pulse":
            owed = ctx[0] or 0
            if tk in (1, 3) and a == 1:
                owed = cfg["quiet"]
            elif tk in (1, 3) and owed > 0:
                owed -= 1
            hold = owed or None
        rw, rr = ctx[5], ctx[6]
        rw, rr = (rw + 1, 0) if tk == 1 else ((0, rr + 1) if tk == 2 else (0, 0))
        if cfg["r"] == 0:
            rw = rr = 0
        rs = ctx[7]
        if cfg["rst"]:
            x, y = iv[4], iv[5]
            R = x == 1 or y == 1
            was = rs[0] == 1 or rs[1] == 1
            rs = (x, y,
                  min(cfg["rh"], rs[2] + (1 if tk in (1, 3) else 0)) if R else 0,
                  min(cfg["rh"], rs[3] + (1 if tk in (2, 3) else 0)) if R else 0,
                  rs[4] + 1 if (R and not was and cfg["nrst"] > 0) else rs[4])
        # inputs of a domain that has just had its edge are free: their last values are irrelevant (fewer contexts)
        wf, rf = tk in (1, 3), tk in (2, 3)
        return (hold, None if wf else (a, b), None if rf else r, wf, rf, rw, rr, rs)


class AxilHint:
    """speculation hint for AxilCdcContract's environment (K = 1 master and slave, sequence tags)"""
    def init(self, cfg):
        n = cfg["nreq"]
        # mhold, mdone, shold, sgot, lastm, lasts, wfresh, rfresh, run_w, run_r, seq
        return ((None,) * n, frozenset(), None, frozenset(), None, None, True, True, 0, 0, (0,) * (n + 1))

    def allowed(self, cfg, ctx, iv):
        mhold, mdone, shold, sgot, lastm, lasts, wf, rf, rw, rr, seq = ctx
        n = cfg["nreq"]
        tk = iv[0]
        m, s = tuple(iv[1:2 * n + 2]), tuple(iv[2 * n + 2:])
        if cfg["r"] > 0 and ((tk == 1 and rw >= cfg["r"]) or (tk == 2 and rr >= cfg["r"])):
            return False
        if not wf:
            if m != lastm:
                return False
        else:
            for i in range(n):
                v, t = m[2 * i], m[2 * i + 1]
                if mhold[i] is not None:
                    if (v, t) != (1, mhold[i]):
                        return False
                elif v == 1 and (i in mdone or t != seq[i]):
                    return False
                elif v == 0 and t != 0:
                    return False
        if not rf:
            if s != lasts:
                return False
        else:
            v, t = s[n], s[n + 1]
            if shold is not None:
                if (v, t) != (1, shold):
                    return False
            elif v == 1 and (len(sgot) != n or t != seq[n]):
                return False
            elif v == 0 and t != 0:
                return False
        return True

    def next(self, cfg, ctx, iv, o):
        mhold, mdone, shold, sgot, lastm, lasts, wf, rf, rw, rr, seq = ctx
        n = cfg["nreq"]
        tk = iv[0]
        m, s = tuple(iv[1:2 * n + 2]), tuple(iv[2 * n + 2:])
        hw, hr = tk in (1, 3), tk in (2, 3)
        mfire = [hw and m[2 * i] == 1 and o[i] == 1 for i in range(n)]
        sfire = [hr and o[n + 2 + 2 * i] == 1 and s[i] == 1 for i in range(n)]
        rsfire = hr and s[n] == 1 and o[3 * n + 2] == 1
        rmfire = hw and o[n] == 1 and m[2 * n] == 1
        mhold = tuple(m[2 * i + 1] if (m[2 * i] == 1 and not mfire[i]) else None for i in range(n))
        mdone = frozenset() if rmfire else mdone | frozenset(i for i in range(n) if mfire[i])
        shold = s[n + 1] if (s[n] == 1 and not rsfire) else None
        sgot = frozenset() if rsfire else sgot | frozenset(i for i in range(n) if sfire[i])
        seq = tuple((seq[i] + 1) % cfg["tags"][i] if (mfire[i] if i < n else rsfire) else seq[i] for i in range(n + 1))
        rw, rr = (rw + 1, 0) if tk == 1 else ((0, rr + 1) if tk == 2 else (0, 0))
        if cfg["r"] == 0:
            rw = rr = 0
        return (mhold, mdone, shold, sgot, None if hw else m, None if hr else s, hw, hr, rw, rr, seq)


def lanes(tier):
    """the work of one tier as independent lanes (run side by side in child processes, merged in this order).
    lane = (label, [job]); job = ("g", spec, options) | ("canary", spec, clause that must fail) | ("t",)
    options: props (temporal clauses, default all), demo (configuration in which a recorded defect of the unchanged
    tree shows: explored once, no follow-up run), spec_budget, workers, heap"""
    thorough = tier == "thorough"
    L = []
    nolive = {"props": []}
    # ---- small synchronisers and the canaries (premise broken: MUST fail)
    agree = {"agree": True}      # also check that the constructive Env and the predicate used by T-mode agree
    small = [("g", dict(kind="bus", width=2, timeout=12, r=1), agree),
             ("g", dict(kind="pulse", r=1, quiet=2), agree),
             ("g", dict(kind="pulse", r=2, quiet=3), agree)]
    if thorough:
        small += [("g", dict(kind="pulse", r=3, quiet=4), {}),
                  ("g", dict(kind="bus", width=2, timeout=24, r=2), {}),
                  ("g", dict(kind="bus", width=3, timeout=12, r=1, dset=(0, 7, 5)), {})]
    small += [("canary", dict(kind="bus", width=2, timeout=8, r=1), "OnlyRealWords"),
              # the toggle may flip again at the only read edge that could have seen it
              ("canary", dict(kind="pulse", r=1, quiet=1), "EveryPulseOnce")]
    L.append(("sync", small))
    # ---- stream crossings (spec_budget: about 1.7 x the edges of the unchanged netlist, so that a changed netlist
    # whose state space explodes is handed to TLC early instead of being expanded speculatively)
    L.append(("fifo-r2", [("g", dict(kind="asyncfifo", depth=4, dw=1, r=2), {"workers": 8, "spec_budget": 700000})]))
    if thorough:
        L.append(("fifo-r3", [("g", dict(kind="asyncfifo", depth=4, dw=1, r=3), {"workers": 8, "heap": "10g", "spec_budget": 750000})]))
        L.append(("fifo-buffered", [("g", dict(kind="asyncfifo", depth=4, dw=1, buffered=True, r=2),
                                     {"workers": 6, "spec_budget": 1300000})]))
        L.append(("cdc-r2", [("g", dict(kind="cdc", depth=4, dw=1, r=2), {"workers": 6, "spec_budget": 700000})]))
    # ---- ClockDomainCrossing(with_common_rst): any number of reset pulses of either domain, each held for r + 3 edges
    # of each clock (the shortest hold for which the contract holds under the simulator's reset stand-in); shorter
    # pulses: recorded finding (short_reset configurations)
    def crst(**kw):
        d = dict(kind="cdc", common_rst=1, depth=4, dw=1, dset=(1,), rst=3, nrst=0)
        d.update(kw)
        return d
    L.append(("common-rst", [
        ("g", crst(r=2, rh=5), dict(nolive, workers=6, agree=True)),
        ("g", crst(r=1, rh=1, nrst=1, short_reset=1), dict(nolive, demo=True, spec_budget=20000))]))
    if thorough:
        L.append(("common-rst-live", [
            ("g", crst(r=1, rh=4), {"props": ["Progress"], "workers": 6}),
            ("g", crst(r=1, rh=3, nrst=1, short_reset=1), dict(nolive, demo=True, spec_budget=20000))]))
        L.append(("common-rst-data", [("g", crst(r=1, rh=4, dset=(0, 1)), dict(nolive, workers=6, spec_budget=1700000))]))
        L.append(("common-rst-r3", [
            ("g", crst(r=3, rh=6), dict(nolive, workers=6)),
            ("g", crst(r=2, rh=5, buffered=True), dict(nolive, workers=6)),
            ("g", crst(r=2, rh=5, rst=1), dict(nolive, workers=6)),
            ("g", crst(r=2, rh=5, rst=2), dict(nolive, workers=6))]))
        # user domains literally named "read" -> "write": the sequential renaming collapses the crossing (recorded finding)
        L.append(("cdc-names", [("g", dict(kind="cdc", depth=4, dw=1, r=1, swapnames=1), dict(nolive, demo=True, spec_budget=20000))]))
        # ---- AXILiteClockDomainCrossing as a composition, one direction per configuration
        L.append(("axil-read", [("g", dict(kind="axil", dir="r", tags=(3, 3), r=3), {"workers": 4})]))
        L.append(("axil-write", [("g", dict(kind="axil", dir="w", tags=(3, 3, 3), r=2), {"workers": 8, "heap": "10g", "spec_budget": 500000})]))
    L.append(("tmode", [("t",)]))
    return L
