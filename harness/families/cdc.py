"""DUT factory for clock-domain crossings (C05): real AsyncFIFO / ClockDomainCrossing / BusSynchronizer,
two clocks with TLC-chosen edge interleaving and metastability injection (Stepper.step_meta)."""
from migen import Module, Signal, Constant, ClockDomainsRenamer, ClockDomain

from litex.soc.interconnect import stream
from litex.gen.genlib.cdc import BusSynchronizer


def _cds(iv):
    return {1: ("write",), 2: ("read",), 3: ("write", "read")}[iv[0]]


def make(spec):
    kind = spec["kind"]
    top = Module()
    opts = {"clocks": ("write", "read"), "meta": True, "cds_from_input": _cds, "strip_input": lambda iv: tuple(iv[1:])}
    if kind == "asyncfifo":
        f = stream.AsyncFIFO([("data", spec.get("dw", 1))], spec.get("depth", 4), buffered=spec.get("buffered", False))
        top.submodules.f = f
        ins = [f.sink.valid, f.sink.data, f.source.ready]
        outs = [f.sink.ready, f.source.valid, f.source.data]
    elif kind == "cdc":
        f = stream.ClockDomainCrossing([("data", spec.get("dw", 1))], cd_from="write", cd_to="read",
                                       depth=spec.get("depth", 4), buffered=spec.get("buffered", False))
        top.submodules.f = f
        ins = [f.sink.valid, f.sink.data, f.source.ready]
        outs = [f.sink.ready, f.source.valid, f.source.data]
    elif kind == "bus":
        b = BusSynchronizer(spec["width"], "write", "read", timeout=spec["timeout"])
        top.submodules.b = b
        dummy1, dummy2 = Signal(), Signal()
        ins = [b.i, dummy1, dummy2]
        outs = [Constant(0), Constant(0), b.o]
    else:
        raise ValueError(kind)
    return top, ins, outs, opts


def tla_cfg(spec):
    if spec["kind"] == "bus":
        return {"kind": "bus", "cap": 1, "dset": list(spec.get("dset", (0, 3))), "r": spec["r"]}
    return {"kind": "fifo", "cap": spec.get("depth", 4) + 3 + (1 if spec.get("buffered") else 0),
            "dset": list(range(2 ** spec.get("dw", 1))), "r": int(spec.get("r", 0))}


class Hint:
    """speculation hint mirroring the Env's input rule (inputs of a domain change only after its edge)"""
    def init(self, cfg):
        return (None, (0, 0), 0, True, True, 0, 0)      # hold, lastw, lastr, wfresh, rfresh, run_w, run_r

    def allowed(self, cfg, ctx, iv):
        hold, lastw, lastr, wf, rf, rw, rr = ctx
        tk, a, b, r = iv
        if cfg["r"] > 0 and ((tk == 1 and rw >= cfg["r"]) or (tk == 2 and rr >= cfg["r"])):
            return False
        if not wf and (a, b) != lastw:
            return False
        if wf and cfg["kind"] == "fifo" and hold is not None and (a, b) != (1, hold):
            return False
        if cfg["kind"] == "fifo" and not rf and r != lastr:
            return False
        return True

    def next(self, cfg, ctx, iv, o):
        tk, a, b, r = iv
        hold = None
        if cfg["kind"] == "fifo" and a == 1 and not (tk in (1, 3) and o[0] == 1):
            hold = b
        rw, rr = ctx[5], ctx[6]
        rw, rr = (rw + 1, 0) if tk == 1 else ((0, rr + 1) if tk == 2 else (0, 0))
        if cfg["r"] == 0:
            rw = rr = 0
        return (hold, (a, b), r, tk in (1, 3), tk in (2, 3), rw, rr)


def configs(tier):
    L = []

    def add(**spec):
        L.append((spec, tla_cfg(spec)))
    add(kind="bus", width=2, timeout=12, r=1)
    add(kind="asyncfifo", depth=4, dw=1, r=2)
    if tier == "thorough":
        add(kind="asyncfifo", depth=4, dw=1, r=3)
        add(kind="bus", width=2, timeout=24, r=2)
        add(kind="bus", width=3, timeout=12, r=1, dset=(0, 7, 5))
        add(kind="asyncfifo", depth=4, dw=1, buffered=True, r=2)
        add(kind="cdc", depth=4, dw=1, r=2)
    return L


def canaries(tier):
    """configurations that MUST violate the contract (premise of the property broken): witnesses that
    the check is sensitive to exactly the race the mechanism exists for"""
    spec = dict(kind="bus", width=2, timeout=8, r=1)
    return [(spec, tla_cfg(spec))]
