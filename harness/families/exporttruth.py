"""C14 family: exported software maps (csr.h / soc.h / mem.h / csr.json / csr.csv / soc.svd) versus the
hardware of a REAL, finalized, CPU-less LiteX SoC, plus memory-initialisation images (get_mem_data).

This module only builds, publishes, parses, drives and records.  What the recorded facts have to look
like is written in specs/exporttruth/ExportTruth.tla and nowhere else.

A configuration (printed by TLC from specs/exporttruth/SocConfigs.tla) is a dict

  std "wishbone"|"axi-lite"|"axi", dw 32|64, ic "shared"|"crossbar", cdw 8|32, paging, ord "big"|"little",
  caw 14..16, cpu "none"|"stub", ctrl 0|1, timer 0|1, ident 0|1, rsv0 0|1,
  csrb (CSR origin in 64 KiB blocks), mems [[name, block, offset, size, kind "ram"|"rom"], ...],
  ps [[loc, irq, memw, memd, memro, const, [[kind, size, fields, atomic, n], ...]], ...]
  romsrc "words"|"file"|"init" (how the ROM region gets its contents), rome "little"|"big" (endianness of the
  CPU the ROM image is packed for)

Values wider than 31 bits are recorded as little-endian byte lists, bus addresses as [hi16, lo16].
The access model (hw/common.h): csr_read_simple / csr_write_simple are 32-bit accesses at 4-byte aligned
addresses, little-endian byte lanes, made by the SoC's own bus master.
"""
import json
import logging
import os
import random
import re
import shutil
import tempfile
import xml.etree.ElementTree as ET

RESP_OK, RESP_ERR, RESP_HANG = 0, 1, 2
BUS_TIMEOUT = 96          # SoC bus time-out (cycles) used for every SoC built here
HANG_CYCLES = 250         # the master gives up after this many cycles without an answer
BLOCK = 0x10000


# --------------------------------------------------------------------------------- data movers
def to_bytes(v, nbytes):
    return [(v >> (8 * i)) & 0xff for i in range(nbytes)]


def from_bytes(b):
    return sum(x << (8 * i) for i, x in enumerate(b))


def A(addr):
    """bus address -> [hi16, lo16] (TLC integers are 32-bit signed)"""
    if addr is None:
        return [-1, -1]
    return [(addr >> 16) & 0xffff, addr & 0xffff]


def unA(a):
    return (a[0] << 16) | a[1]


def nbytes_of(bits):
    return (bits + 7) // 8


# --------------------------------------------------------------------------------- SoC construction
def _quiet():
    logging.disable(logging.CRITICAL)


def _make_periph(desc, cdw):
    """an AutoCSR module created on the fly from a TLC peripheral descriptor"""
    from migen import Memory, Signal
    from litex.gen import LiteXModule
    from litex.soc.interconnect.csr import CSRStorage, CSRStatus, CSRField, CSRConstant
    from litex.soc.interconnect.csr_eventmanager import EventManager, EventSourcePulse

    loc, irq, memw, memd, memro, const, regs = desc
    m = LiteXModule()
    m.verif_regs = []
    for i, (kind, size, fields, atomic, n) in enumerate(regs):
        name = "r%d" % i
        kw = {"name": name}
        if n >= 0:
            kw["n"] = n
        flds = []
        if fields:
            # three fields: [0, a), gap of one bit when there is room, rest
            a = max(1, size // 3)
            b = max(1, (size - a) // 2)
            parts = [("fa", 0, a)]
            if a + b <= size - 1 and size >= 4:
                parts.append(("fb", a + 1, b))
                if a + 1 + b < size:
                    parts.append(("fc", a + 1 + b, size - (a + 1 + b)))
            elif a < size:
                parts.append(("fb", a, size - a))
            flds = [CSRField(fn, size=fs, offset=fo) for fn, fo, fs in parts]
            kw["fields"] = flds
        else:
            kw["size"] = size
        if kind == "sto":
            c = CSRStorage(atomic_write=bool(atomic), **kw)
        else:
            c = CSRStatus(**kw)
        setattr(m, "_" + name, c)
        m.verif_regs.append((name, kind, c))
    if memw:
        mem = Memory(memw, memd, init=[(0x5a + 7 * i) % (1 << memw) for i in range(memd)] if memro else None)
        mem.bus_read_only = bool(memro)
        m.win = mem
        m.specials += mem
    if const >= 0:
        m.kc = CSRConstant(const, name="kc")
    if irq:
        m.ev = EventManager()
        m.ev.trig = EventSourcePulse()
        m.ev.finalize()
    return m


def _stub_cpu_cls(csr_origin, endian="little"):
    from migen import Signal
    from litex.soc.cores.cpu import CPU

    class VerifStubCPU(CPU):
        """no instruction set, no bus master: only what SoC.finalize needs to wire interrupts"""
        category = "softcore"
        family = "verifstub"
        name = "verifstub"
        human_name = "verification stub"
        variants = ["standard"]
        data_width = 32
        endianness = endian
        gcc_triple = "none"
        gcc_flags = ""
        linker_output_format = "none"
        nop = "nop"
        io_regions = {0x8000_0000: 0x8000_0000}
        mem_map = {"csr": csr_origin}
        reset_address_check = False
        interrupts = {}

        def __init__(self, platform, variant="standard"):
            self.platform = platform
            self.variant = variant
            self.reset = Signal()
            self.interrupt = Signal(32)
            self.periph_buses = []
            self.memory_buses = []

        def set_reset_address(self, reset_address):
            self.reset_address = reset_address

    return VerifStubCPU


class Built:
    pass


def build_soc(cfg, scratch=None):
    """-> Built (soc, master, peripherals ...); raises whatever LiteX raises for a configuration it refuses"""
    _quiet()
    from migen import Signal
    from litex.build.generic_platform import GenericPlatform
    from litex.soc.integration.soc_core import SoCCore
    from litex.soc.interconnect import wishbone, axi
    from litex.soc.cores import cpu as cpumod

    csr_origin = cfg["csrb"] * BLOCK
    mem_map = dict(SoCCore.mem_map)
    mem_map["csr"] = csr_origin
    for name, block, off, size, kind in cfg["mems"]:
        mem_map[name] = block * BLOCK + off
    csr_map = {"absent0": 0} if cfg["rsv0"] else {}

    class _SoC(SoCCore):
        pass
    _SoC.mem_map = dict(mem_map)
    _SoC.csr_map = dict(csr_map)
    _SoC.interrupt_map = {}

    cpu_type = None
    if cfg["cpu"] == "stub":
        cpumod.CPUS["verifstub"] = _stub_cpu_cls(csr_origin, cfg.get("rome", "little"))
        cpu_type = "verifstub"
    plat = GenericPlatform("verif", io=[], name="verif")
    sram = [m for m in cfg["mems"] if m[0] == "sram"]
    soc = _SoC(plat, int(1e6),
               bus_standard=cfg["std"], bus_data_width=cfg["dw"], bus_address_width=32, bus_timeout=BUS_TIMEOUT,
               bus_interconnect=cfg["ic"],
               cpu_type=cpu_type,
               integrated_rom_size=0,
               integrated_sram_size=sram[0][3] if sram else 0,
               csr_data_width=cfg["cdw"], csr_address_width=cfg["caw"], csr_paging=cfg["paging"],
               csr_ordering=cfg["ord"],
               ident="verif %d" % cfg["csrb"] if cfg["ident"] else "", ident_version=False,
               with_uart=False, with_timer=bool(cfg["timer"]), with_ctrl=bool(cfg["ctrl"]))
    b = Built()
    b.cfg = cfg
    b.soc = soc
    b.rom_init = {}
    b.rom_file = {}
    rnd = random.Random(cfg.get("id", 0) * 7919 + 14)
    romsrc = cfg.get("romsrc", "words")
    for name, block, off, size, kind in cfg["mems"]:
        if name == "sram":
            continue
        if kind == "rom":
            nwords = size // (cfg["dw"] // 8)
            init = [rnd.getrandbits(cfg["dw"]) | 1 for _ in range(nwords)]
            if romsrc != "words":
                # a binary file (its length is usually not a multiple of the bus word) packed as the Builder packs
                # the BIOS: get_mem_data(file, data_width = bus data width, endianness = the CPU's)
                from litex.soc.integration.common import get_mem_data
                data = bytes(rnd.randrange(1, 256) for _ in range(rnd.randint(size // 2, size)))
                fd, path = tempfile.mkstemp(prefix="rom", suffix=".bin", dir=scratch or os.environ.get("VERIF_SCRATCH", "/var/tmp"))
                try:
                    with os.fdopen(fd, "wb") as f:
                        f.write(data)
                    init = get_mem_data(path, data_width=soc.bus.data_width, endianness=soc.cpu.endianness)
                finally:
                    os.unlink(path)
                b.rom_file[name] = list(data)
            b.rom_init[name] = init
            if romsrc == "init":
                soc.add_rom(name, origin=block * BLOCK + off, size=size)
                soc.init_rom(name, contents=init, auto_size=False)
            else:
                soc.add_rom(name, origin=block * BLOCK + off, size=size, contents=init)
        else:
            soc.add_ram(name, origin=block * BLOCK + off, size=size)
    b.periphs = []
    for i, desc in enumerate(cfg["ps"]):
        name = "p%d" % i
        m = _make_periph(desc, cfg["cdw"])
        setattr(soc, name, m)
        if desc[0] >= 0:
            soc.add_csr(name, desc[0])
        if desc[1]:
            soc.irq.add(name)
        b.periphs.append((name, m))
    # the external bus master of the SoC's own standard
    if cfg["std"] == "wishbone":
        master = wishbone.Interface(data_width=cfg["dw"], address_width=32, addressing="word")
    elif cfg["std"] == "axi-lite":
        master = axi.AXILiteInterface(data_width=cfg["dw"], address_width=32)
    else:
        master = axi.AXIInterface(data_width=cfg["dw"], address_width=32, id_width=1)
    soc.bus.add_master("verifmaster", master=master)
    b.master = master
    import contextlib
    import io
    with contextlib.redirect_stdout(io.StringIO()):      # csr_bus.SRAM prints a remark about paged memories
        soc.finalize()
    return b


# --------------------------------------------------------------------------------- publishing
def publish(b, scratch):
    """run the real Builder's export steps (no toolchain, no gateware) -> dict of file texts"""
    import contextlib
    import io
    from litex.soc.integration.builder import Builder
    out = tempfile.mkdtemp(prefix="pub", dir=scratch)
    try:
        bld = Builder(b.soc, output_dir=out, compile_software=False, compile_gateware=False,
                      csr_json=os.path.join(out, "csr.json"), csr_csv=os.path.join(out, "csr.csv"),
                      csr_svd=os.path.join(out, "soc.svd"))
        with contextlib.redirect_stdout(io.StringIO()):      # the SVD exporter prints remarks about memories
            bld._generate_includes(with_bios=False)
            bld._generate_csr_map()
        gen = bld.generated_dir
        texts = {}
        for key, path in (("csr_h", os.path.join(gen, "csr.h")), ("soc_h", os.path.join(gen, "soc.h")),
                          ("mem_h", os.path.join(gen, "mem.h")), ("json", os.path.join(out, "csr.json")),
                          ("csv", os.path.join(out, "csr.csv")), ("svd", os.path.join(out, "soc.svd"))):
            with open(path) as f:
                texts[key] = f.read()
        return texts
    finally:
        shutil.rmtree(out, ignore_errors=True)


# --------------------------------------------------------------------------------- parsers
class ParseError(Exception):
    pass


_ADDR = r"(?:\(CSR_BASE \+ (0x[0-9a-fA-F]+)L\)|(0x[0-9a-fA-F]+)L)"


def _addr(m, i, base):
    if m.group(i) is not None:
        return base + int(m.group(i), 16)
    return int(m.group(i + 1), 16)


def parse_csr_header(text):
    """-> dict(base, regs {name: {addr, size}}, bases {region: addr}, fields {(reg, field): (off, size)},
              racc {name: (ctype_bytes, ops)}, wacc {name: (ctype_bytes, ops)})
    The accessor bodies are parsed statement by statement (they are NOT compiled)."""
    m = re.search(r"#define CSR_BASE (0x[0-9a-fA-F]+)L", text)
    if not m:
        raise ParseError("no CSR_BASE")
    base = int(m.group(1), 16)
    res = {"base": base, "regs": {}, "bases": {}, "fields": {}, "racc": {}, "wacc": {}, "order": []}
    for m in re.finditer(r"(?m)^#define CSR_(\w+)_BASE " + _ADDR + r"\s*$", text):
        res["bases"][m.group(1).lower()] = _addr(m, 2, base)
    for m in re.finditer(r"(?m)^#define CSR_(\w+)_ADDR " + _ADDR + r"\s*\n#define CSR_(\w+)_SIZE (\d+)\s*$", text):
        if m.group(1) != m.group(4):
            raise ParseError("ADDR/SIZE pair mismatch %s %s" % (m.group(1), m.group(4)))
        name = m.group(1).lower()
        res["regs"][name] = {"addr": _addr(m, 2, base), "size": int(m.group(5))}
        res["order"].append(name)
    for m in re.finditer(r"(?m)^#define CSR_(\w+)_OFFSET (\d+)\s*\n#define CSR_(\w+)_SIZE (\d+)\s*$", text):
        if m.group(1) != m.group(3):
            raise ParseError("field OFFSET/SIZE pair mismatch")
        res["fields"][m.group(1).lower()] = (int(m.group(2)), int(m.group(4)))
    ctb = {"uint8_t": 1, "uint16_t": 2, "uint32_t": 4, "uint64_t": 8}
    for m in re.finditer(r"(?m)^static inline (\w+) (\w+)_(read|write)\((void|\w+ v)\) \{\n((?:\t.*\n)*)\}\n", text):
        rt, name, rw, arg, body = m.groups()
        stmts = [s.strip() for s in body.strip().split("\n") if s.strip()]
        if rw == "read":
            if rt not in ctb:
                raise ParseError("read accessor of %s returns %s" % (name, rt))
            ops = []
            for s in stmts:
                m2 = re.fullmatch(r"return csr_read_simple\(" + _ADDR + r"\);", s)
                if m2:
                    ops.append(["ld", A(_addr(m2, 1, base))])
                    continue
                m2 = re.fullmatch(r"(\w+) r = csr_read_simple\(" + _ADDR + r"\);", s)
                if m2:
                    if m2.group(1) != rt:
                        raise ParseError("accumulator type differs from return type in " + name)
                    ops.append(["ld", A(_addr(m2, 2, base))])
                    continue
                m2 = re.fullmatch(r"r <<= (\d+);", s)
                if m2:
                    ops.append(["shl", [int(m2.group(1)), 0]])
                    continue
                m2 = re.fullmatch(r"r \|= csr_read_simple\(" + _ADDR + r"\);", s)
                if m2:
                    ops.append(["or", A(_addr(m2, 1, base))])
                    continue
                if s == "return r;":
                    continue
                raise ParseError("unknown statement in %s_read: %r" % (name, s))
            res["racc"][name] = (ctb[rt], ops)
        else:
            ct = arg.split()[0]
            if rt != "void" or ct not in ctb:
                raise ParseError("write accessor signature of " + name)
            ops = []
            for s in stmts:
                m2 = re.fullmatch(r"csr_write_simple\(v(?: >> (\d+))?, " + _ADDR + r"\);", s)
                if not m2:
                    raise ParseError("unknown statement in %s_write: %r" % (name, s))
                ops.append([int(m2.group(1) or 0), A(_addr(m2, 2, base))])
            res["wacc"][name] = (ctb[ct], ops)
    return res


def parse_soc_header(text):
    """-> (defines {name: value text or None}, access functions {name: returned text})"""
    res, fns = {}, {}
    for m in re.finditer(r"(?m)^#define (\w+)(?: (.*))?$", text):
        name, val = m.group(1), m.group(2)
        if name == "__GENERATED_SOC_H":
            continue
        res[name.lower()] = val
    for m in re.finditer(r"(?m)^static inline (?:int|const char \*) (\w+)_read\(void\) \{\n\treturn (.*);\n\}$", text):
        fns[m.group(1).lower()] = m.group(2)
    return res, fns


def parse_mem_header(text):
    res = {}
    for m in re.finditer(r"(?m)^#define (\w+)_BASE (0x[0-9a-fA-F]+)L\n#define (\w+)_SIZE (0x[0-9a-fA-F]+)$", text):
        if m.group(1) != m.group(3):
            raise ParseError("mem.h BASE/SIZE pair mismatch")
        res[m.group(1).lower()] = (int(m.group(2), 16), int(m.group(4), 16))
    m = re.search(r'#define MEM_REGIONS "(.*)"', text)
    table = {}
    if m:
        for row in m.group(1).split("\\n"):
            f = row.split()
            if len(f) == 3:
                table[f[0].lower()] = (int(f[1], 16), int(f[2], 16))
    return res, table


def parse_csv(text):
    res = {"csr_base": {}, "csr_register": {}, "constant": {}, "memory_region": {}}
    for ln in text.splitlines():
        if not ln or ln.startswith("#"):
            continue
        f = ln.split(",")
        if f[0] not in res or len(f) != 5:
            raise ParseError("csv line %r" % ln)
        res[f[0]][f[1]] = f[2:]
    return res


def parse_svd(text):
    """-> dict(periph {NAME: {base, regs [(name, offset, description)], irq}}, mems {name: (base, size)}, consts)"""
    root = ET.fromstring(text)
    res = {"periph": {}, "mems": {}, "consts": {}}
    for p in root.iter("peripheral"):
        name = p.findtext("name")
        regs = []
        for r in p.iter("register"):
            flds = []
            for f in r.iter("field"):
                m = re.fullmatch(r"\[(-?\d+):(-?\d+)\]", f.findtext("bitRange") or "")
                if not m:
                    raise ParseError("SVD field without bitRange in %s" % r.findtext("name"))
                flds.append([(f.findtext("name") or "").lower(), int(f.findtext("lsb")), int(f.findtext("msb")),
                             int(m.group(2)), int(m.group(1))])
            regs.append((r.findtext("name"), int(r.findtext("addressOffset"), 16), r.findtext("description") or "", flds))
        irq = None
        it = p.find("interrupt")
        if it is not None:
            irq = (it.findtext("name"), int(it.findtext("value")))
        res["periph"][name.lower()] = {"base": int(p.findtext("baseAddress"), 16), "regs": regs, "irq": irq}
    for r in root.iter("memoryRegion"):
        res["mems"][r.findtext("name").lower()] = (int(r.findtext("baseAddress"), 16), int(r.findtext("size"), 16))
    for c in root.iter("constant"):
        res["consts"][c.get("name").lower()] = c.get("value")
    return res


# --------------------------------------------------------------------------------- bus master drivers
class Driver:
    """32-bit / byte accesses of a little-endian CPU through the SoC's bus master (generators for the
    Migen simulator).  `access` returns (resp, data) with data = the addressed lanes shifted down."""

    def __init__(self, std, master, dw):
        self.std, self.m, self.dw = std, master, dw
        self.nb = dw // 8
        self.dead = False          # AXI: five accesses in a row got no answer: the bus is not used any more
        self.hangs = 0             # accesses without an answer so far
        self.streak = 0

    def access(self, we, addr, data=0, size=4):
        if self.dead:
            return RESP_HANG, 0
        lane = addr % self.nb
        sel = ((1 << size) - 1) << lane
        wdata = (data & ((1 << (8 * size)) - 1)) << (8 * lane)
        if self.std == "wishbone":
            resp, rd = yield from self._wb(we, addr // self.nb, wdata, sel)
        elif self.std == "axi-lite":
            # like LiteX's own masters (Wishbone2AXILite ...): bus-word aligned address, lanes chosen by strb
            resp, rd = yield from self._axil(we, addr - lane, wdata, sel)
        else:
            resp, rd = yield from self._axi(we, addr - lane, wdata, sel, self.nb)
        if resp == RESP_HANG:
            # give up this request (drop every valid / cyc), let the interconnect drain, try to go on
            self.hangs += 1
            self.streak += 1
            if self.streak >= 5 and self.std != "wishbone":      # a Wishbone master gives up cleanly (drops cyc)
                self.dead = True
            yield from self._abandon()
        else:
            self.streak = 0
        return resp, (rd >> (8 * lane)) & ((1 << (8 * size)) - 1)

    def _abandon(self):
        m = self.m
        if self.std == "wishbone":
            yield m.cyc.eq(0)
            yield m.stb.eq(0)
            yield m.we.eq(0)
        else:
            for ch in (m.aw, m.w, m.ar):
                yield ch.valid.eq(0)
        for _ in range(24):
            yield

    def _wait(self, sig):
        n = 0
        while not (yield sig):
            yield
            n += 1
            if n > HANG_CYCLES:
                return False
        return True

    def _wb(self, we, adr, wdata, sel):
        m = self.m
        yield m.adr.eq(adr)
        yield m.dat_w.eq(wdata)
        yield m.sel.eq(sel)
        yield m.we.eq(we)
        yield m.cyc.eq(1)
        yield m.stb.eq(1)
        yield
        n = 0
        while not ((yield m.ack) or (yield m.err)):
            yield
            n += 1
            if n > HANG_CYCLES:
                yield m.cyc.eq(0)
                yield m.stb.eq(0)
                yield
                return RESP_HANG, 0
        err = (yield m.err)
        rd = (yield m.dat_r)
        yield m.cyc.eq(0)
        yield m.stb.eq(0)
        yield m.we.eq(0)
        yield
        return (RESP_ERR if err else RESP_OK), rd

    def _axil(self, we, addr, wdata, strb, full=None):
        m = self.m
        yield m.b.ready.eq(1)
        yield m.r.ready.eq(1)
        n = 0
        if we:
            yield m.aw.addr.eq(addr)
            yield m.aw.valid.eq(1)
            yield m.w.data.eq(wdata)
            yield m.w.strb.eq(strb)
            yield m.w.valid.eq(1)
            if full is not None:
                yield from full(m.aw)
                yield m.w.last.eq(1)
            yield
            awd = wd = False
            while True:
                # a channel whose ready is seen high transfers at the coming edge: drop its valid there
                if not awd and (yield m.aw.ready):
                    awd = True
                    yield m.aw.valid.eq(0)
                if not wd and (yield m.w.ready):
                    wd = True
                    yield m.w.valid.eq(0)
                if awd and wd and (yield m.b.valid):
                    resp = (yield m.b.resp)
                    yield
                    return (RESP_OK if resp == 0 else RESP_ERR), 0
                yield
                n += 1
                if n > HANG_CYCLES:
                    return RESP_HANG, 0
        yield m.ar.addr.eq(addr)
        yield m.ar.valid.eq(1)
        if full is not None:
            yield from full(m.ar)
        yield
        ard = False
        while True:
            if not ard and (yield m.ar.ready):
                ard = True
                yield m.ar.valid.eq(0)
            if ard and (yield m.r.valid):
                rd = (yield m.r.data)
                resp = (yield m.r.resp)
                yield
                return (RESP_OK if resp == 0 else RESP_ERR), rd
            yield
            n += 1
            if n > HANG_CYCLES:
                return RESP_HANG, 0

    def _axi(self, we, addr, wdata, strb, size):
        lg = {1: 0, 2: 1, 4: 2, 8: 3}[size]

        def full(ax):
            yield ax.burst.eq(1)       # INCR
            yield ax.len.eq(0)         # one beat
            yield ax.size.eq(lg)
            yield ax.id.eq(0)
        return (yield from self._axil(we, addr, wdata, strb, full=full))


# --------------------------------------------------------------------------------- hardware registry
def hw_registry(b):
    """name -> CSR object, found by walking the SoC's sub-modules (independent of any address
    computation); windows: name -> Memory"""
    from migen.util.misc import xdir
    from migen.fhdl.specials import Memory
    regs, wins = {}, {}
    for name, obj in xdir(b.soc, True):
        if name in ("csr_bankarray",):
            continue
        if hasattr(obj, "get_csrs"):
            for c in obj.get_csrs():
                regs[name + "_" + c.name] = c
        if hasattr(obj, "get_memories"):
            for mem in obj.get_memories():
                ro = False
                if isinstance(mem, tuple):
                    ro, mem = mem
                mem.verif_ro = bool(ro) or bool(getattr(mem, "bus_read_only", False))
                wins[name + "_" + mem.name_override] = mem
    # the <mem>_page register LiteX adds for a CSR memory deeper than a page belongs to the memory's bank
    for name, memory, mapaddr, mmap in b.soc.csr_bankarray.srams:
        for c in mmap.get_csrs():
            regs[name + "_" + c.name] = c
            wins[name + "_" + memory.name_override].verif_page = c
    return regs, wins


def _kind(c):
    from litex.soc.interconnect.csr import CSRStorage, CSRStatus
    if isinstance(c, CSRStorage):
        return "sto"
    if isinstance(c, CSRStatus):
        return "sta"
    return "raw"


def _distinct_value(rnd, size, avoid=None):
    """a value < 2**size with its top bit set and all bytes different and non-zero (when there is room)"""
    nb = nbytes_of(size)
    for _ in range(16):
        bs = rnd.sample(range(1, 256), nb)
        v = from_bytes(bs) & ((1 << size) - 1)
        v |= 1 << (size - 1)
        if v != avoid:
            return v
    return (avoid ^ 1) & ((1 << size) - 1)      # a one-bit register that already holds 1


# --------------------------------------------------------------------------------- the experiment
REFUSALS = ("SoCError", "ValueError", "IndexError", "AssertionError", "NotImplementedError", "KeyError")


def experiment(cfg, scratch, engine="compiled"):
    """build, publish, access, record -> facts (JSON-ready dict).  engine "compiled": the harness's
    compiled FHDL stepper; "ref": litex.gen.sim.run_simulation (the repository's reference simulator)"""
    from litex.gen.sim import run_simulation
    cfg.setdefault("romsrc", "words")
    cfg.setdefault("rome", "little")
    facts = {"id": cfg["id"], "cfg": cfg, "built": 1, "err": ""}
    try:
        b = build_soc(cfg, scratch)
    except BaseException as ex:
        import sys as _sys
        import traceback as _tb
        last = _tb.extract_tb(ex.__traceback__)[-1].filename
        if type(ex).__name__ not in REFUSALS or not ("/litex/" in last or "/migen/" in last):
            raise
        facts["built"] = 0
        facts["err"] = "%s: %s" % (type(ex).__name__, str(ex)[:120])
        if _sys.stderr is None:          # SoCError silences stderr
            _sys.stderr = _sys.__stderr__
        return facts
    soc = b.soc
    texts = publish(b, scratch)
    hdr = parse_csr_header(texts["csr_h"])
    soch, sochfn = parse_soc_header(texts["soc_h"])
    from litex.soc.integration import export as _export
    ld = {m.group(1): (int(m.group(2), 16), int(m.group(3), 16)) for m in re.finditer(
        r"(\w+) : ORIGIN = (0x[0-9a-fA-F]+), LENGTH = (0x[0-9a-fA-F]+)", _export.get_linker_regions(soc.mem_regions))}
    memh, memtab = parse_mem_header(texts["mem_h"])
    js = json.loads(texts["json"])
    csv = parse_csv(texts["csv"])
    svd = parse_svd(texts["svd"])
    hwregs, hwwins = hw_registry(b)
    rnd = random.Random(cfg["id"] * 104729 + 1400)
    cdw = cfg["cdw"]

    # ---- registers as published (csr.h order, then anything only another format knows)
    names = list(hdr["order"])
    for n in list(js["csr_registers"]) + list(csv["csr_register"]):
        if n not in names:
            names.append(n)
    svdwords = {}      # reg name -> [[word index or -1, A]]
    svdflds = {}       # reg name -> [[first bit of the word, field name, lsb, msb, bitRange lsb, bitRange msb]]
    for pname, p in svd["periph"].items():
        for rname, off, desc, sflds in p["regs"]:
            full = pname + "_" + rname.lower()
            m = re.match(r"Bits? (\d+)(?:-\d+)? of `(\w+)`", desc)
            if m:
                # numbered word of a compound register: <REG><i>, "Bits s-e of `<REGION>_<REG>`"
                reg = m.group(2).lower()
                if not reg.startswith(pname + "_"):
                    reg = pname + "_" + reg
                short = reg[len(pname) + 1:]
                tail = rname.lower()[len(short):] if rname.lower().startswith(short) else ""
                svdwords.setdefault(reg, []).append([int(tail) if tail.isdigit() else -1, int(m.group(1)),
                                                     A(p["base"] + off)])
                svdflds.setdefault(reg, []).extend([int(m.group(1))] + f for f in sflds)
            else:
                svdwords.setdefault(full, []).append([0, 0, A(p["base"] + off)])
                svdflds.setdefault(full, []).extend([0] + f for f in sflds)
    own = {}
    for pname, m in b.periphs:
        for rname, kind, c in m.verif_regs:
            own[pname + "_" + rname] = c
    regs = []
    watch = []         # watch set: [("reg", csr) | ("cell", mem, index, lane)]
    for n in names:
        c = hwregs.get(n)
        r = {"name": n, "hw": 1 if c is not None else 0, "kind": _kind(c) if c is not None else "none",
             "filler": 1 if re.search(r"_reserved\d+$", n) else 0,
             "size": c.size if c is not None else 0, "own": 1 if n in own else 0, "bw": cdw,
             "atomic": int(bool(getattr(c, "atomic_write", False))),
             "a": {"h": A(hdr["regs"][n]["addr"]) if n in hdr["regs"] else A(None),
                   "json": A(js["csr_registers"][n]["addr"]) if n in js["csr_registers"] else A(None),
                   "csv": A(int(csv["csr_register"][n][0], 16)) if n in csv["csr_register"] else A(None)},
             "nw": {"h": hdr["regs"][n]["size"] if n in hdr["regs"] else -1,
                    "json": js["csr_registers"][n]["size"] if n in js["csr_registers"] else -1,
                    "csv": int(csv["csr_register"][n][1]) if n in csv["csr_register"] else -1},
             "ty": {"json": js["csr_registers"][n]["type"] if n in js["csr_registers"] else "",
                    "csv": csv["csr_register"][n][2] if n in csv["csr_register"] else ""},
             "svd": sorted(svdwords.get(n, [])),
             "svdf": sorted(svdflds.get(n, [])),
             "W": 0, "racc": [], "wacc": [], "hasw": 0,
             "want": [], "v": [], "wops": [], "before": [], "after": [], "changed": [], "wdone": 0,
             "rops": [], "truth": [], "rdone": 0, "flds": [], "skip": 0}
        if n in hdr["racc"]:
            r["W"], r["racc"] = hdr["racc"][n]
        if n in hdr["wacc"]:
            w, r["wacc"] = hdr["wacc"][n]
            r["hasw"] = 1
            if r["W"] and w != r["W"]:
                raise ParseError("read and write accessors of %s use different C types" % n)
        if c is not None and hasattr(c, "fields"):
            for f in c.fields.fields:
                if f.pulse:
                    continue          # high for one cycle only: its level says nothing about the macros
                key = n + "_" + f.name
                po, ps = hdr["fields"].get(key, (-1, -1))
                r["flds"].append({"name": f.name, "off": po, "size": ps, "sig": []})
        r["wid"] = -1
        if c is not None and r["kind"] == "sto":
            watch.append(("reg", c))
            r["wid"] = len(watch)
        regs.append(r)
    facts["regs"] = regs
    facts["hwnames"] = sorted(hwregs)
    facts["csr_base"] = A(hdr["base"])

    # ---- CSR memory windows
    wins = []
    for n in sorted(set(list(hwwins) + [k for k in js["csr_bases"] if k in hwwins])):
        mem = hwwins.get(n)
        w = {"name": n, "hw": 1 if mem is not None else 0, "width": mem.width if mem is not None else 0,
             "depth": mem.depth if mem is not None else 0,
             "ro": int(mem.verif_ro) if mem is not None else 0,
             "a": {"h": A(hdr["bases"].get(n)), "json": A(js["csr_bases"].get(n)),
                   "csv": A(int(csv["csr_base"][n][0], 16)) if n in csv["csr_base"] else A(None),
                   "svd": A(svd["periph"][n]["base"]) if n in svd["periph"] else A(None)},
             "probes": [], "skip": 0}
        wins.append(w)
    facts["wins"] = wins

    # ---- bank bases (CSR_<NAME>_BASE) of register banks
    banks = []
    for n in js["csr_bases"]:
        if n in hwwins:
            continue
        banks.append({"name": n, "a": {"h": A(hdr["bases"].get(n)), "json": A(js["csr_bases"].get(n)),
                                       "csv": A(int(csv["csr_base"][n][0], 16)) if n in csv["csr_base"] else A(None),
                                       "svd": A(svd["periph"][n]["base"]) if n in svd["periph"] else A(None)}})
    facts["banks"] = banks

    # ---- memory regions
    regions = []
    for n in list(memh) + [k for k in js["memories"] if k not in memh]:
        hwm = getattr(soc, n, None)
        mem = getattr(hwm, "mem", None) if n != "csr" else None
        g = {"name": n, "kind": "csr" if n == "csr" else ("rom" if n in b.rom_init else ("ram" if mem is not None else "none")),
             "base": {"memh": A(memh[n][0]) if n in memh else A(None),
                      "tab": A(memtab[n][0]) if n in memtab else A(None),
                      "json": A(js["memories"][n]["base"]) if n in js["memories"] else A(None),
                      "csv": A(int(csv["memory_region"][n][0], 16)) if n in csv["memory_region"] else A(None),
                      "svd": A(svd["mems"][n][0]) if n in svd["mems"] else A(None),
                      "ld": A(ld[n][0]) if n in ld else A(None)},
             "size": {"memh": A(memh[n][1]) if n in memh else A(None),
                      "tab": A(memtab[n][1]) if n in memtab else A(None),
                      "json": A(js["memories"][n]["size"]) if n in js["memories"] else A(None),
                      "csv": A(int(csv["memory_region"][n][1])) if n in csv["memory_region"] else A(None),
                      "svd": A(svd["mems"][n][1]) if n in svd["mems"] else A(None),
                      "ld": A(ld[n][1]) if n in ld else A(None)},
             "probes": [],
             "img": {"src": cfg["romsrc"] if n in b.rom_file else "none", "e": cfg["rome"],
                     "file": b.rom_file.get(n, []), "rd": []}}
        g["_mem"] = mem
        regions.append(g)
    facts["regions"] = regions
    nbus = cfg["dw"] // 8
    # watch cells: first and last 32-bit word of every RAM/ROM and of every CSR window
    for g in regions:
        mem = g["_mem"]
        g["cells"] = []
        if mem is not None:
            for off in (0, mem.depth * nbus - 4):
                watch.append(("cell", mem, off // nbus, off % nbus, 4))
                g["cells"].append(len(watch))
    for w in wins:
        mem = hwwins.get(w["name"])
        w["cells"] = []
        if mem is not None:
            w["ks"] = sorted({0, mem.depth // 2 + (1 if mem.depth > 4 else 0), mem.depth - 1})
            for k in w["ks"]:
                watch.append(("cell", mem, k, 0, nbytes_of(mem.width)))
                w["cells"].append(len(watch))

    # ---- constants and interrupts
    consts = []
    cnames = list(soch)
    for n in list(js["constants"]) + list(csv["constant"]) + list(svd["consts"]):
        if n not in cnames:
            cnames.append(n)

    def _s(x):
        if x is None:
            return ""
        return str(x).strip('"').lower()
    for n in cnames:
        consts.append({"name": n, "v": {"soch": _s(soch.get(n)) if n in soch else "<absent>",
                                        "sochfn": _s(sochfn.get(n)) if n in sochfn else "<absent>",
                                        "json": _s(js["constants"].get(n)) if n in js["constants"] else "<absent>",
                                        "csv": _s(csv["constant"][n][0]) if n in csv["constant"] else "<absent>",
                                        "svd": _s(svd["consts"].get(n)) if n in svd["consts"] else "<absent>"}})
    for c in consts:      # JSON null / python None / empty define all mean "defined without a value"
        for k in c["v"]:
            if c["v"][k] == "none":
                c["v"][k] = ""
    facts["consts"] = consts
    irqs = []
    irq_mods = []
    if hasattr(soc.cpu, "interrupt"):
        from migen.util.misc import xdir
        for name, obj in xdir(soc, True):
            ev = getattr(obj, "ev", None)
            if ev is not None and hasattr(ev, "irq") and hasattr(ev, "enable"):
                irq_mods.append((name, ev))
    for name, ev in irq_mods:
        key = name + "_interrupt"
        sp = svd["periph"].get(name, {}).get("irq")
        irqs.append({"name": name, "num": {"soch": int(soch[key]) if key in soch and soch[key] is not None else -1,
                                           "json": js["constants"].get(key, -1),
                                           "csv": int(csv["constant"][key][0]) if key in csv["constant"] else -1,
                                           "svd": sp[1] if sp else -1},
                     "seen": [], "idle": []})
    facts["irqs"] = irqs

    # ---- simulation
    drv = Driver(cfg["std"], b.master, cfg["dw"])

    def peek_watch():
        vals = []
        for w in watch:
            if w[0] == "reg":
                vals.append((yield w[1].storage))
            else:
                _, mem, idx, lane, n = w
                vals.append(((yield mem[idx]) >> (8 * lane)) & ((1 << (8 * n)) - 1))
        return vals

    def diff(a, c):
        return [i + 1 for i in range(len(a)) if a[i] != c[i]]

    def simple(we, addr_a, data=0):
        resp, rd = yield from drv.access(we, unA(addr_a), data, 4)
        return resp, rd

    def settle(n=3):
        for _ in range(n):
            yield

    def value_of(c, kind):
        if kind == "sto":
            return (yield c.storage)
        if kind == "sta":
            return (yield c.status)
        return (yield c.w)

    def generic_ops(r):
        n = r["nw"]["h"]
        base = unA(r["a"]["h"])
        return [[cdw * (n - 1 - j), A(base + 4 * j)] for j in range(n)]

    def gen():
        yield from settle(4)
        # drive the status registers the harness owns
        for r in regs:
            c = hwregs.get(r["name"])
            if c is None or not r["own"] or r["kind"] != "sta":
                continue
            if hasattr(c, "fields"):
                for f in c.fields.fields:
                    yield getattr(c.fields, f.name).eq(_distinct_value(rnd, f.size))
            else:
                yield c.status.eq(_distinct_value(rnd, c.size))
        yield from settle(2)
        # memory regions: inside probes
        for g in regions:
            mem = g["_mem"]
            if mem is None or g["base"]["memh"] == A(None):
                continue
            base, size = unA(g["base"]["memh"]), unA(g["size"]["memh"])
            for which, off in (("first", 0), ("last", size - 4)):
                p = {"which": which, "addr": A(base + off), "we": 0, "data": [], "resp": -1, "cell": [],
                     "changed": [], "rd": [], "rresp": -1, "own": -1}
                idx, lane = off // nbus, off % nbus
                inside = 0 <= idx < mem.depth
                if g["kind"] == "ram":
                    before = yield from peek_watch()
                    d = _distinct_value(rnd, 32)
                    resp, _ = yield from simple(1, p["addr"], d)
                    yield from settle(3)
                    after = yield from peek_watch()
                    p.update({"we": 1, "data": to_bytes(d, 4), "resp": resp, "changed": diff(before, after)})
                if inside:
                    p["cell"] = to_bytes(((yield mem[idx]) >> (8 * lane)) & 0xffffffff, 4)
                    p["own"] = g["cells"][0 if which == "first" else 1] if off in (0, mem.depth * nbus - 4) else 0
                resp, rd = yield from simple(0, p["addr"])
                p["rd"], p["rresp"] = to_bytes(rd, 4), resp
                g["probes"].append(p)
        # writes
        for r in regs:
            c = hwregs.get(r["name"])
            if c is None or r["kind"] != "sto" or r["a"]["h"] == A(None):
                continue
            ops = r["wacc"] if r["hasw"] else generic_ops(r)
            if not r["hasw"]:
                r["wacc"] = ops
            if drv.dead:
                r["skip"] = 1
                continue
            W = r["W"] or 4 * max(1, r["nw"]["h"])
            before = yield from peek_watch()
            cur = before[r["wid"] - 1]
            want = _distinct_value(rnd, c.size, avoid=cur)
            r["want"] = to_bytes(want, nbytes_of(c.size))
            v = want & ((1 << (8 * W)) - 1)          # the argument of <reg>_write(): converted to its C type
            r["v"] = to_bytes(v, W)
            r["before"] = to_bytes(cur, nbytes_of(c.size))
            for shift, addr_a in ops:
                d = (v >> shift) & 0xffffffff
                resp, _ = yield from simple(1, addr_a, d)
                r["wops"].append([addr_a, to_bytes(d, 4), resp])
            yield from settle(3)
            after = yield from peek_watch()
            r["after"] = to_bytes(after[r["wid"] - 1], nbytes_of(c.size))
            r["changed"] = diff(before, after)
            r["wdone"] = 1
            for f in r["flds"]:
                sig = getattr(c.fields, f["name"])
                f["sig"] = to_bytes((yield sig), nbytes_of(len(sig)))
        # reads
        for r in regs:
            c = hwregs.get(r["name"])
            if c is None or r["a"]["h"] == A(None):
                continue
            if r["W"]:
                ops = r["racc"]
            else:
                n = r["nw"]["h"]
                base = unA(r["a"]["h"])
                ops = []
                for j in range(n):
                    if j:
                        ops.append(["shl", [cdw, 0]])
                    ops.append(["or" if j else "ld", A(base + 4 * j)])
                r["racc"] = ops
            if drv.dead:
                r["skip"] = 1
                continue
            truth = yield from value_of(c, r["kind"])
            r["truth"] = to_bytes(truth, nbytes_of(c.size))
            for op, arg in ops:
                if op == "shl":
                    continue
                resp, rd = yield from simple(0, arg)
                r["rops"].append([arg, to_bytes(rd, 4), resp])
            truth2 = yield from value_of(c, r["kind"])
            r["rdone"] = 1 if truth2 == truth else 2      # 2: the register moved while it was read
            if r["kind"] == "sta" and r["flds"]:
                for f in r["flds"]:
                    sig = getattr(c.fields, f["name"])
                    f["sig"] = to_bytes((yield sig), nbytes_of(len(sig)))
        # CSR memory windows: memory word k = n consecutive CSR words (most significant first) from CSR word k*n
        # of the window; CSR word x at base + 4*(x mod page words), page x div page words in <mem>_page
        for w in wins:
            mem = hwwins.get(w["name"])
            if mem is None or w["a"]["h"] == A(None):
                continue
            base = unA(w["a"]["h"])
            if drv.dead:
                w["skip"] = 1
                continue
            n = (mem.width + cdw - 1) // cdw
            pw = cfg["paging"] // 4
            pagecsr = getattr(mem, "verif_page", None)
            pagereg = None
            if pagecsr is not None:
                pagereg = [r for r in regs if hwregs.get(r["name"]) is pagecsr]
                pagereg = pagereg[0] if pagereg else None
            nbw = nbytes_of(mem.width)
            for k, own in zip(w["ks"], w["cells"]):
                x = k * n
                p = {"k": k, "own": own, "page": -1, "pagereg": -1, "we": 0, "data": [], "wops": [],
                     "cell": [], "changed": [], "rops": []}
                if mem.depth * n > pw:
                    p["page"] = x // pw
                    if pagereg is not None and pagereg["hasw"] and len(pagereg["wacc"]) == 1:
                        # the page is chosen through the published accessor of the page register
                        yield from simple(1, pagereg["wacc"][0][1], p["page"])
                        yield from settle(3)
                if pagecsr is not None:
                    p["pagereg"] = (yield pagecsr.storage)
                a0 = base + 4 * (x % pw)
                if not w["ro"]:
                    before = yield from peek_watch()
                    d = _distinct_value(rnd, mem.width, avoid=before[own - 1])
                    for m in range(n):
                        chunk = (d >> (cdw * (n - 1 - m))) & 0xffffffff
                        resp, _ = yield from simple(1, A(a0 + 4 * m), chunk)
                        p["wops"].append([A(a0 + 4 * m), to_bytes(chunk, 4), resp])
                    yield from settle(3)
                    after = yield from peek_watch()
                    p.update({"we": 1, "data": to_bytes(d, nbw), "changed": diff(before, after)})
                p["cell"] = to_bytes((yield mem[k]), nbw)
                for m in range(n):
                    resp, rd = yield from simple(0, A(a0 + 4 * m))
                    p["rops"].append([A(a0 + 4 * m), to_bytes(rd, 4), resp])
                w["probes"].append(p)
        # ROM images: byte k of the file at base + k for a CPU of the image's endianness
        for g in regions:
            img = g["img"]
            if img["src"] == "none" or g["base"]["memh"] == A(None) or drv.dead:
                continue
            base = unA(g["base"]["memh"])
            L = len(img["file"])
            ks = sorted(set(list(range(min(L, 9))) + list(range(max(0, L - 9), L)) + [rnd.randrange(L) for _ in range(10)]))
            for k in ks:
                pk = k if img["e"] == "little" else (k - k % nbus) + (nbus - 1 - k % nbus)
                resp, rd = yield from drv.access(0, base + pk, 0, 1)
                img["rd"].append({"k": k, "pa": A(base + pk), "b": rd, "resp": resp})
        # interrupts: enable everything in one event manager, set its sources pending, read the vector
        if irqs:
            from migen.util.misc import xdir
            from litex.soc.interconnect.csr_eventmanager import _EventSource, EventSourceLevel
            for name, ev in irq_mods:
                yield ev.enable.storage.eq(0)
            for name, ev in irq_mods:
                for k, s in xdir(ev, True):
                    if isinstance(s, _EventSource) and not isinstance(s, EventSourceLevel):
                        yield s.pending.eq(0)
            yield from settle(3)
            for (name, ev), q in zip(irq_mods, irqs):
                vec = (yield soc.cpu.interrupt)
                q["idle"] = [i for i in range(32) if (vec >> i) & 1]
                yield ev.enable.storage.eq((1 << len(ev.enable.storage)) - 1)
                for k, s in xdir(ev, True):
                    if isinstance(s, _EventSource):
                        if isinstance(s, EventSourceLevel):
                            yield s.trigger.eq(1)
                        else:
                            yield s.pending.eq(1)
                yield from settle(3)
                vec = (yield soc.cpu.interrupt)
                q["seen"] = [i for i in range(32) if (vec >> i) & 1]
                yield ev.enable.storage.eq(0)
                for k, s in xdir(ev, True):
                    if isinstance(s, _EventSource):
                        if isinstance(s, EventSourceLevel):
                            yield s.trigger.eq(0)
                        else:
                            yield s.pending.eq(0)
                yield from settle(3)
        # memory regions: just outside (writes; may hang on interconnects without a time-out: done last)
        hangs_before = drv.hangs
        for g in regions:
            if g["base"]["memh"] == A(None) or g["kind"] == "none":
                continue
            base, size = unA(g["base"]["memh"]), unA(g["size"]["memh"])
            for which, addr in (("below", base - 4), ("above", base + size)):
                # after an access without an answer only Wishbone masters can give up cleanly (drop cyc): on
                # AXI nothing that follows would be trustworthy
                if addr < 0 or addr > 0xfffffffc or drv.dead or hangs_before or \
                        (drv.hangs and cfg["std"] != "wishbone"):
                    continue
                p = {"which": which, "addr": A(addr), "we": 1, "data": [], "resp": -1, "cell": [],
                     "changed": [], "rd": [], "rresp": -1, "own": -1}
                before = yield from peek_watch()
                d = _distinct_value(rnd, 32)
                resp, _ = yield from simple(1, p["addr"], d)
                yield from settle(3)
                after = yield from peek_watch()
                p.update({"data": to_bytes(d, 4), "resp": resp, "changed": diff(before, after)})
                g["probes"].append(p)

    if engine == "ref":
        run_simulation(soc, gen())
    else:
        FastSim(soc).run(gen())
    for g in regions:
        del g["_mem"]
    facts["nwatch"] = len(watch)
    facts["dead"] = int(drv.dead)
    bases = [v for v in js["csr_bases"].values()]
    facts["gap0"] = int(bool(bases) and "csr" in js["memories"] and min(bases) != js["memories"]["csr"]["base"])
    facts["accesses"] = sum(len(r["wops"]) + len(r["rops"]) for r in regs) + \
        sum(len(p["wops"]) + len(p["rops"]) for w in wins for p in w["probes"]) + sum(2 * len(g["probes"]) for g in regions) + \
        sum(len(g["img"]["rd"]) for g in regions)
    return facts


# --------------------------------------------------------------------------------- fast simulation
class FastSim:
    """Runs one Migen test-bench generator on the harness's compiled FHDL stepper with the scheduling of
    litex.gen.sim.core.Simulator.run: at every rising edge the sync statements are executed on the
    pre-edge values, then the generator runs until its next bare `yield` (reads see pre-edge values, its
    writes override), then everything commits and the combinational logic settles."""

    def __init__(self, dut):
        from ..fhdl_step import Stepper
        self.st = Stepper(dut, [], [], clocks=("sys",), engine="compiled")
        self.side = {}
        self.cycles = 0

    def _read(self, x):
        from migen.fhdl.structure import Signal
        from migen.fhdl.specials import _MemoryLocation
        st = self.st
        if isinstance(x, _MemoryLocation):
            arr = st.ev.replaced_memories[x.memory]
            idx = x.index if isinstance(x.index, int) else x.index.value
            return self._read(arr[idx])
        if isinstance(x, Signal):
            i = st.sigidx.get(x)
            if i is None:
                return self.side.get(x, x.reset.value)
            return st.v[i]
        raise TypeError("unsupported test-bench read %r" % (x,))

    def _write(self, a):
        from migen.fhdl.structure import Signal, Constant
        st = self.st
        if not isinstance(a.l, Signal) or not isinstance(a.r, Constant):
            raise TypeError("unsupported test-bench write")
        val = a.r.value & ((1 << a.l.nbits) - 1)
        i = st.sigidx.get(a.l)
        if i is None:
            self.side[a.l] = val          # nobody in the netlist reads it
        else:
            st.n[i] = val

    def run(self, gen):
        from migen.fhdl.structure import _Assign
        st = self.st
        st.settle()
        reply = None
        while True:
            for cd in st.clocks:
                f = st._sync.get(cd)
                if f is not None:
                    f(st.v, st.n)
            done = False
            while True:
                try:
                    req = gen.send(reply)
                except StopIteration:
                    done = True
                    break
                reply = None
                if req is None:
                    break
                if isinstance(req, _Assign):
                    self._write(req)
                else:
                    reply = self._read(req)
            st._commit()
            st.settle()
            self.cycles += 1
            if done:
                return


# --------------------------------------------------------------------------------- memory images
def image_case(case, scratch):
    """case = [id, dw, endianness, mode, offset, [[relative base, length], ...]] -> facts.
    get_mem_data's words are loaded into a REAL wishbone.SRAM of that width; every byte lane of every
    word is then read through the bus with a one-hot sel."""
    _quiet()
    from litex.soc.integration.common import get_mem_data
    from litex.soc.interconnect import wishbone
    from litex.gen.sim import run_simulation
    cid, dw, e, mode, off, files = case
    rnd = random.Random(cid * 31337 + 77)
    nb = dw // 8
    d = tempfile.mkdtemp(prefix="img", dir=scratch)
    try:
        pool = rnd.sample(range(1, 256), sum(n for _, n in files)) if files else []
        recs, regions = [], {}
        for k, (rel, n) in enumerate(files):
            data = [pool.pop() for _ in range(n)]
            path = os.path.join(d, "f%d.bin" % k)
            with open(path, "wb") as f:
                f.write(bytes(data))
            recs.append([rel, data])
            regions[path] = "0x%08x" % (off + rel)
        if mode == "file":
            arg = next(iter(regions))
        elif mode == "dict":
            arg = regions
        else:
            arg = os.path.join(d, "regions.json")
            with open(arg, "w") as f:
                json.dump({os.path.basename(p): b for p, b in regions.items()}, f)
        facts = {"id": cid, "dw": dw, "e": e, "mode": mode, "off": off, "files": recs, "refused": 0, "err": "",
                 "words": [], "lanes": []}
        try:
            words = get_mem_data(arg, data_width=dw, endianness=e, offset=off)
        except (AssertionError, IndexError, ValueError) as ex:      # refusing is judged too (ImgLanes)
            facts["refused"] = 1
            facts["err"] = type(ex).__name__
            return facts
        facts["words"] = [to_bytes(w, nb) for w in words]
        if any(w >> dw for w in words):
            facts["err"] = "word wider than the data width"
        bus = wishbone.Interface(data_width=dw, address_width=32, addressing="word")
        depth = max(2, len(words))
        sram = wishbone.SRAM(depth * nb, init=words, bus=bus)
        lanes = []

        def gen():
            for w in range(len(words)):
                row = []
                for l in range(nb):
                    yield bus.adr.eq(w)
                    yield bus.sel.eq(1 << l)
                    yield bus.we.eq(0)
                    yield bus.cyc.eq(1)
                    yield bus.stb.eq(1)
                    yield
                    n = 0
                    while not (yield bus.ack):
                        yield
                        n += 1
                        if n > 50:
                            raise RuntimeError("SRAM does not answer")
                    row.append(((yield bus.dat_r) >> (8 * l)) & 0xff)
                    yield bus.cyc.eq(0)
                    yield bus.stb.eq(0)
                    yield
                lanes.append(row)
        run_simulation(sram, gen())
        facts["lanes"] = lanes
        return facts
    finally:
        shutil.rmtree(d, ignore_errors=True)


def preload():
    """import everything the workers need before the pool forks"""
    _quiet()
    import litex.soc.integration.soc_core       # noqa
    import litex.soc.integration.builder        # noqa
    import litex.soc.integration.common         # noqa
    import litex.soc.interconnect.axi           # noqa
    import litex.soc.interconnect.wishbone      # noqa
    import litex.soc.interconnect.csr_eventmanager   # noqa
    import litex.soc.cores.timer                # noqa
    import litex.soc.cores.identifier           # noqa
    import litex.build.generic_platform         # noqa
    import litex.gen.sim                        # noqa
    from .. import fhdl_step                    # noqa
