"""L2 lane of the Wishbone interconnect family (C06, Wishbone part of C11): model configurations, register
projections, M-mode sweeps, random legal runs of large instances
(specs/wbic/WbIcModel.tla, WbIcModelM.tla, WbIcModelConf.tla)."""
from . import wbic as fam
from ..l2 import Lane

ADDRESS_WIDTH = fam.ADRW + 2        # byte address width of the 32-bit test buses


def model_cfg(spec, cfg=None):
    """python spec of harness.families.wbic -> model configuration of WbIcModel (every DUT of the family has one)"""
    regs, hole = fam._regions(spec)
    bases = fam.tla_cfg(spec)["bases"]
    adrs = [0] + list(bases) + [(hole >> 2) if hole is not None else 0]     # Array the test master indexes with tgt
    regions = []
    for org, size in regs:
        if spec.get("decoder", "region") == "region":
            # SoCRegion.decoder: origin / size_pow2 in words, compare of the address bits above log2(size);
            # a region covering the whole address space decodes to True
            p2 = 1 << (size - 1).bit_length()
            if org == 0 and p2 == 2 ** ADDRESS_WIDTH:
                regions.append({"k": "true", "lo": 0, "size": 1})
            else:
                regions.append({"k": "mask", "lo": org >> 2, "size": p2 >> 2})
        else:
            regions.append({"k": "range", "lo": org >> 2, "size": size >> 2})
    return {"kind": spec["kind"], "n": spec["n"], "ns": spec["m"], "register": int(bool(spec.get("register", False))),
            "timeout": int(spec.get("timeout") or 0), "minlat": int(spec.get("minlat", 0)), "dw": 32,
            "adrs": adrs, "regions": regions}


def _named(st, *path):
    """registers of the netlist whose tracer back-trace ends in path[-1] and contains `path` in this order
    (modules and variables as the LiteX source names them), in creation order"""
    hits = []
    for s in st.regs:
        names = [b[0] for b in (s.backtrace or [])]
        if not names or names[-1] != path[-1]:
            continue
        k = 0
        for nm in names:
            if k < len(path) and nm == path[k]:
                k += 1
        if k == len(path):
            hits.append(s)
    return sorted(hits, key=lambda s: s.duid)


def _want(st, count, *path):
    hits = _named(st, *path)
    if len(hits) != count:
        raise KeyError("register %s: %d found in the netlist, the model has %d" % (".".join(path), len(hits), count))
    return hits


def proj(spec, st):
    """{register name of WbIcModel: [Signals]} for the DUT built by harness.families.wbic.make"""
    n, m, kind = spec["n"], spec["m"], spec["kind"]
    reg = bool(spec.get("register", False))
    r = {"seen": _want(st, m if spec.get("minlat", 0) else 0, "make", "seen")}
    if kind == "shared":
        r["grant"] = _want(st, 1 if n > 1 else 0, "ic", "arbiter", "rr", "grant")
        r["selr"] = _want(st, 1 if reg else 0, "ic", "decoder", "slave_sel_r")
        r["count"] = _want(st, 1 if spec.get("timeout") else 0, "ic", "timeout", "timer", "count")
    elif kind == "crossbar":
        r["grant"] = _want(st, m if n > 1 else 0, "ic", "arbiter", "rr", "grant")        # one arbiter per slave
        r["selr"] = _want(st, n if reg else 0, "ic", "decoder", "slave_sel_r")           # one decoder per master
        r["count"] = _want(st, 0, "ic", "count")
    elif kind == "p2p":
        r["grant"], r["selr"], r["count"] = [], [], []
    else:
        raise ValueError(kind)
    known = {id(s) for v in r.values() for s in v}
    extra = [s for s in st.regs if id(s) not in known]
    if extra:
        raise KeyError("the netlist has %d register(s) the model does not know: %s" % (
            len(extra), ", ".join(".".join(b[0] for b in (s.backtrace or [])) for s in extra[:4])))
    return r


LANE = Lane("wbic", "wbic/WbIcModelConf", model_cfg, "harness.families.wbic_l2:proj", m_module="wbic/WbIcModelM")


# ------------------------------------------------------------------------------ M-mode sweeps
def _entry(**spec):
    return {"spec": spec, "c": fam.tla_cfg(spec), "m": model_cfg(spec)}


def mmode_configs(tier, prop):
    """[spec, c |-> WbIcContract configuration, m |-> WbIcModel configuration] beyond the G-mode sizes
    (G-mode: at most 3x3 in the thorough tier, 2x2/2x3/3x1 in the quick tier, time-outs up to 4).
    Registered decoders run with minlat=1 (the Env flag under which G-mode proves the clause that the listed finding
    C06-registered-decode-zero-latency-slave violates); the crossbar has no time-out (listed finding
    C11-wishbone-crossbar-has-no-timeout) and is swept for C06 only."""
    th = tier == "thorough"
    L = []
    S = dict(map="small", rw=0, errs=0)
    if prop == "C06":
        L.append(_entry(kind="shared", n=3, m=3, **S))
        L.append(_entry(kind="shared", n=3, m=3, register=True, minlat=1, **S))
        L.append(_entry(kind="shared", n=4, m=2, hole=False, **S))
        L.append(_entry(kind="crossbar", n=3, m=3, hole=False, register=True, minlat=1, **S))
        if th:
            L.append(_entry(kind="shared", n=4, m=4, hole=False, **S))
            L.append(_entry(kind="shared", n=4, m=4, hole=False, register=True, minlat=1, **S))
            L.append(_entry(kind="shared", n=4, m=3, register=True, minlat=1, **S))
            L.append(_entry(kind="shared", n=3, m=3, map="small", waitstates=1))
            L.append(_entry(kind="crossbar", n=3, m=3, **S))
            L.append(_entry(kind="crossbar", n=4, m=2, hole=False, **S))
            L.append(_entry(kind="crossbar", n=3, m=4, hole=False, **S))
            L.append(_entry(kind="crossbar", n=4, m=3, hole=False, register=True, minlat=1, **S))
    if prop == "C11":
        T = dict(faulty=1, slack=2)
        L.append(_entry(kind="shared", n=2, m=2, map="small", timeout=8, **T))
        L.append(_entry(kind="shared", n=3, m=2, timeout=6, hole=False, **S, **T))
        L.append(_entry(kind="shared", n=2, m=3, timeout=8, register=True, minlat=1, **S, **T))
        if th:
            L.append(_entry(kind="shared", n=3, m=3, timeout=8, **S, **T))
            L.append(_entry(kind="shared", n=3, m=3, timeout=8, register=True, minlat=1, **S, **T))
            L.append(_entry(kind="shared", n=4, m=3, timeout=6, hole=False, **S, **T))
            L.append(_entry(kind="shared", n=4, m=4, timeout=8, hole=False, **S, **T))
            L.append(_entry(kind="shared", n=3, m=4, map="small", timeout=7, rw=0, **T))
    return L


# ------------------------------------------------------------------------------ random legal runs
def run_configs(tier, prop):
    """instances larger than any G-mode graph, run cycle by cycle on the real netlist under a random environment that
    obeys WbIcContract's Env; every cycle is judged by the model (conformance) and by the L1 trace module"""
    # (alphabets sized so that WbIcTrace's EnvLegal, which builds Inputs(c) in every step, stays below ~40 k input vectors)
    L = []
    if prop == "C06":
        L.append(_entry(kind="shared", n=4, m=4, map="small", rw=0, errs=0))
        L.append(_entry(kind="shared", n=4, m=4, map="small", rw=0, errs=0, hole=False, register=True, minlat=1))
        L.append(_entry(kind="crossbar", n=4, m=4, map="small", rw=0, errs=0))
        L.append(_entry(kind="crossbar", n=4, m=4, map="small", rw=0, errs=0, hole=False, register=True, minlat=1))
        L.append(_entry(kind="shared", n=3, m=4, map="small", decoder="range", rw=0, errs=0, waitstates=1))
        L.append(_entry(kind="crossbar", n=2, m=4, map="small", waitstates=1))
    if prop == "C11":
        L.append(_entry(kind="shared", n=4, m=4, map="small", timeout=8, faulty=1, slack=2, rw=0, errs=0))
        L.append(_entry(kind="shared", n=4, m=3, map="small", timeout=5, faulty=1, slack=2, rw=0, register=True, minlat=1))
        L.append(_entry(kind="shared", n=2, m=4, map="small", timeout=1, faulty=1, slack=2, waitstates=1))
    return L


def random_run(spec, cfg, ncycles, rnd, shim=True):
    """-> (ev = [[iv, o], ...], reset projection, cases = [[r, iv, o, r2], ...]).  The environment is WbIcContract's:
    a strobed request is repeated unchanged until it is terminated (an unmapped one may be given up when there is no
    time-out), slaves answer by policy; here the policies are random with a per-run bias."""
    from ..fhdl_step import Stepper
    from .. import l2
    if shim:
        from .. import py312_tracer
        py312_tracer.install()
    dut, ins, outs = fam.make(spec)
    st = Stepper(dut, ins, outs, engine="ref")
    ix = l2.proj_index(st, LANE.proj_path, spec)
    st.load(st.reset_state, tuple(0 for _ in ins))
    reset = l2.project(ix, st.state())
    n, m = cfg["n"], cfg["m"]
    targets = list(range(1, m + 1 + (1 if cfg["hole"] else 0)))
    reqs = [1, 2] if cfg["waitstates"] else [1]
    wes = [0, 1] if cfg["rw"] else [0]
    pols = [0, 1, 2] if cfg["errs"] else [0, 1]
    pidle = rnd.choice([0.1, 0.4, 0.7])
    pans = rnd.choice([0.9, 0.5, 0.15]) if not cfg["faulty"] else rnd.choice([0.6, 0.2, 0.05])
    held = [None] * n
    ev, cases = [], []
    for _ in range(ncycles):
        iv = []
        for i in range(n):
            if held[i] is not None:
                if held[i][1] == m + 1 and cfg["timeout"] == 0 and rnd.random() < 0.5:
                    mv = (0, 0, 0)
                else:
                    mv = held[i]
            elif rnd.random() < pidle:
                mv = (0, 0, 0)
            else:
                mv = (rnd.choice(reqs), rnd.choice(targets), rnd.choice(wes))
            iv += list(mv)
        for j in range(m):
            iv.append(rnd.choice([p for p in pols if p]) if rnd.random() < pans else 0)
        pre = l2.project(ix, st.state())
        st.load(st.state(), tuple(iv))
        o = [int(x) for x in st.peek()]
        st.tick()
        ev.append([iv, o])
        cases.append([pre, iv, o, l2.project(ix, st.state())])
        for i in range(n):
            stb = iv[3 * i] == 1
            term = o[3 * i] == 1 or o[3 * i + 1] == 1
            held[i] = (1, iv[3 * i + 1], iv[3 * i + 2]) if stb and not term else None
    return ev, reset, cases
