"""L2 lane of the event-manager family (C15): model configurations, register projections, long runs of managers
with 3 - 6 sources, M-mode sweeps (specs/event/EventModel.tla, EventModelM.tla, EventModelConf.tla; the CSR part of
a manager is specs/csrbank/CsrBankModel.tla)."""
import os

from . import event as fam
from ..l2 import Lane
from .csrbank_l2 import conform           # chunked, never-failing l2.conformance  # noqa: F401
from ..tlc import SPECS

MAXSRC = 6          # MaxSrc of specs/event/EventContract.tla


def model_cfg(spec, cfg=None):
    """python spec of harness.families.event -> model configuration of EventModel"""
    if len(spec["kinds"]) > MAXSRC or max(spec["mgr"]) > 2:
        return None
    return {"kinds": list(spec["kinds"]), "mgr": list(spec["mgr"]), "nm": max(spec["mgr"])}


def contract_cfg(spec):
    return {"kinds": list(spec["kinds"]), "mgr": list(spec["mgr"]), "nm": max(spec["mgr"])}


# ------------------------------------------------------------------------------ projections
def _leaf(s):
    return s.backtrace[-1] if s.backtrace else (s.name_override, 0)


def _objs(st, cls):
    """registers created inside the objects of class `cls`, one list per object, objects in creation order (the Migen
    tracer numbers the objects of a class in creation order)"""
    out = {}
    for s in st.regs:
        for name, idx in (s.backtrace or [])[:-1]:
            if name == cls:
                out.setdefault(idx, [])
                if s not in out[idx]:
                    out[idx].append(s)
    return [out[k] for k in sorted(out)]


def _pick(sigs, leaf, attr=None):
    hits = [s for s in sigs if _leaf(s)[0] == leaf and (attr is None or any(n == attr for n, _ in s.backtrace[:-1]))]
    if len(hits) != 1:
        raise KeyError("register %s%s: %d candidates" % (attr + "." if attr else "", leaf, len(hits)))
    return hits[0]


def proj(spec, st):
    """{name: Signal | [Signals]} of the DUT built by harness.families.event.make: registers are found by the names the
    tracer recorded (class of the owning object in creation order, attribute, variable).  Flat; see reshape."""
    kinds, mgr = spec["kinds"], spec["mgr"]
    nm = max(mgr)
    order = [i for m in range(1, nm + 1) for i in range(len(kinds)) if mgr[i] == m]       # creation order (factory)
    pulses = _objs(st, "eventsourcepulse")
    procs = _objs(st, "eventsourceprocess")
    if len(pulses) != kinds.count("pulse") or len(procs) != sum(k in ("rising", "falling") for k in kinds):
        raise KeyError("event sources: %d pulse, %d process objects found" % (len(pulses), len(procs)))
    pend, td = {}, {}
    pi = qi = 0
    for i in order:
        if kinds[i] == "pulse":
            pend[i] = _pick(pulses[pi], "pending")
            pi += 1
        elif kinds[i] in ("rising", "falling"):
            pend[i] = _pick(procs[qi], "pending")
            td[i] = _pick(procs[qi], "trigger_d")
            qi += 1
    r = {"pend": [pend[i] for i in sorted(pend)], "td": [td[i] for i in sorted(td)]}
    mgrs = _objs(st, "eventmanager")
    datr = [s for _, s in sorted((_leaf(s)[1], s) for s in st.regs if _leaf(s)[0] == "dat_r")]
    if len(mgrs) != nm or len(datr) != nm:
        raise KeyError("event managers: %d objects, %d bank dat_r registers" % (len(mgrs), len(datr)))
    for k in range(nm):
        sigs = mgrs[k]
        r["b%d" % (k + 1)] = [datr[k], _pick(sigs, "storage", "enable"), _pick(sigs, "re", "status"),
                              _pick(sigs, "re", "pending"), _pick(sigs, "re", "enable"), _pick(sigs, "r", "pending")]
    return r


def reshape(spec, flat):
    """flat projection -> register record of EventModel (bank = register record of CsrBankModel for the register
    list <<status, pending, enable>>)"""
    kinds = spec["kinds"]
    ip, it = iter(flat["pend"]), iter(flat["td"])
    out = {"pend": [0 if k == "level" else next(ip) for k in kinds],
           "td": [next(it) if k in ("rising", "falling") else 0 for k in kinds], "bank": []}
    for k in range(max(spec["mgr"])):
        datr, sto, re_s, re_p, re_e, r = flat["b%d" % (k + 1)]
        out["bank"].append({"datr": [datr], "sto": [0, 0, sto], "re": [re_s, re_p, re_e], "back": [0, 0, 0], "r2": [0, r, 0]})
    return out


def reshape_duts(duts):
    for d in duts:
        d["reset"] = reshape(d["spec"], d["reset"])
        for c in d["cases"]:
            c[0] = reshape(d["spec"], c[0])
            c[3] = reshape(d["spec"], c[3])
    return duts


INCLUDE = (os.path.join(SPECS, "csrbank"),)
LANE = Lane("event", "event/EventModelConf", model_cfg, "harness.families.event_l2:proj", m_module="event/EventModelM",
            include=INCLUDE)


# ------------------------------------------------------------------------------ long runs of larger managers
def run_configs(tier):
    """managers with 3 - 6 sources of mixed kinds (one or two managers): beyond the exhaustive G-mode graphs (a
    3-source manager already has > 10^6 edges), run cycle by cycle on the real netlist"""
    L = [(["falling", "pulse", "level"], [1, 1, 1]),
         (["rising", "falling", "pulse"], [1, 1, 1]),
         (["pulse", "level", "rising"], [1, 2, 1]),
         (["falling", "falling", "level"], [2, 1, 2]),
         (["pulse", "rising", "falling", "level"], [1, 1, 1, 1]),
         (["pulse", "rising", "falling", "level", "pulse", "falling"], [1, 1, 1, 1, 1, 1])]
    if tier == "thorough":
        L += [(["rising", "pulse", "level", "falling", "rising"], [1, 2, 1, 2, 2]),
              (["level", "level", "pulse", "pulse", "rising", "rising"], [2, 1, 2, 1, 2, 1]),
              (["falling", "pulse", "falling", "pulse"], [1, 1, 2, 2]),
              (["pulse", "pulse", "pulse", "rising", "falling"], [1, 1, 1, 1, 1])]
    return [{"kinds": k, "mgr": m} for k, m in L]


def random_schedule(rnd, spec, n, pflip, pidle):
    """n input vectors of EventContract!Inputs: every trigger line toggles with probability pflip per cycle, software
    idles with probability pidle and otherwise issues any CSR operation (W1C patterns biased to single bits / all ones)"""
    kinds, mgr = spec["kinds"], spec["mgr"]
    nm = max(mgr)
    nb = {m: mgr.count(m) for m in range(1, nm + 1)}
    trig = 0
    out = []
    for _ in range(n):
        for i in range(len(kinds)):
            if rnd.random() < pflip:
                trig ^= 1 << i
        if rnd.random() < pidle:
            out.append([trig, 0, 1, 0, 0])
            continue
        m = rnd.randint(1, nm)
        full = (1 << nb[m]) - 1
        x = rnd.random()
        if x < 0.4:
            out.append([trig, 1, m, 1, rnd.choice([full, 1 << rnd.randrange(nb[m]), rnd.randint(0, full)])])
        elif x < 0.6:
            out.append([trig, 1, m, 2, rnd.choice([full, 0, rnd.randint(0, full), rnd.randint(0, full)])])
        elif x < 0.65:
            out.append([trig, 1, m, 0, 7])
        elif x < 0.7:
            out.append([trig, 1, m, 3, 1])
        else:
            out.append([trig, 2, m, rnd.randint(0, 3), 0])
    return out


# ------------------------------------------------------------------------------ M-mode sweeps
def mmode_configs(tier):
    """[c, m, env, spec]: managers with 4 - 6 sources of mixed kinds.  The environment is Inputs(c) of the contract
    narrowed to the listed trigger patterns and W1C / enable data (EventModelM): with all 2^n patterns and all 2^n
    data values a 4-source manager alone has > 10^9 transitions."""
    L = []

    def add(kinds, mgr, trigs, datas, maxflip=None):
        spec = {"kinds": kinds, "mgr": mgr}
        L.append({"c": contract_cfg(spec), "m": model_cfg(spec), "spec": spec,
                  "env": {"trigs": list(trigs), "datas": list(datas), "maxflip": len(kinds) if maxflip is None else maxflip}})
    # four sources, one of each kind, in one manager: each non-level source alone, all together, none
    add(["pulse", "rising", "falling", "level"], [1, 1, 1, 1], [0, 1, 2, 4, 8, 15], [15, 5])
    if tier == "thorough":
        # every trigger pattern, one line changing per cycle (all orders of edges), W1C / enable of everything
        add(["pulse", "rising", "falling", "level"], [1, 1, 1, 1], [], [15], maxflip=1)
        # six sources in one manager: pulse + rising / level + falling / everything
        add(["pulse", "rising", "falling", "level", "pulse", "falling"], [1, 1, 1, 1, 1, 1],
            [0, 0b000011, 0b101000, 0b111111], [63])
        # five sources in two managers (3 + 2); data 3 is legal for both managers (W1C / enable of their bits 0, 1)
        add(["rising", "pulse", "level", "falling", "rising"], [1, 2, 1, 2, 2], [0, 31], [3])
    return L
