"""C11 for AXI4 (full): real axi_full.AXIInterconnectShared(1 master, 1 slave, timeout_cycles=T) (and AXICrossbar)
with a faulty slave / an unmapped address (see specs/axilto/AxiTimeoutContract.tla).

The python spec keys differ from those of the AXI-Lite family ("axi_late" ...) so that the signatures of the
AXI-Lite findings never match an AXI4 DUT."""
from migen import Module, Signal, Constant, Mux, Array

from litex.soc.interconnect.axi import axi_full
from litex.soc.interconnect.axi.axi_common import BURST_INCR, RESP_SLVERR
from litex.soc.integration.soc import SoCRegion

AW = 8


def make(spec):
    wr = spec["dir"] == "w"
    top = Module()
    m = axi_full.AXIInterface(data_width=32, address_width=AW, id_width=1)
    s = axi_full.AXIInterface(data_width=32, address_width=AW, id_width=1)
    # master: av + 2*tgt + 8*len + 16*id + 32*wv + 64*wl + 128*rr;  slave: ar + 2*wr + 4*rv + 8*rid + 16*rl
    mc, sc = Signal(8), Signal(5)
    av, tgt, ln, aid, wv, wl, rr = mc[0], mc[1:3], mc[3], mc[4], mc[5], mc[6], mc[7]
    sa_, sw_, sr_, srid, srl = sc[0], sc[1], sc[2], sc[3], sc[4]
    addr = Mux(tgt == 1, 0x04, 0x84)          # slave region 0x00-0x3f, everything else unmapped
    ax = m.aw if wr else m.ar
    top.comb += [ax.valid.eq(av), ax.addr.eq(Mux(av, addr, 0)), ax.len.eq(ln), ax.id.eq(aid),
                 ax.burst.eq(BURST_INCR), ax.size.eq(2)]
    if wr:
        top.comb += [m.w.valid.eq(wv), m.w.data.eq(1), m.w.strb.eq(0xf), m.w.last.eq(wl), m.b.ready.eq(rr),
                     s.aw.ready.eq(sa_), s.w.ready.eq(sw_), s.b.valid.eq(sr_), s.b.resp.eq(1), s.b.id.eq(srid)]
    else:
        top.comb += [m.r.ready.eq(rr),
                     s.ar.ready.eq(sa_), s.r.valid.eq(sr_), s.r.resp.eq(1), s.r.data.eq(1), s.r.id.eq(srid), s.r.last.eq(srl)]
    dec = SoCRegion(origin=0x00, size=0x40).decoder(m)
    if spec.get("kind", "axi_shared_to") == "axi_crossbar_to":
        ic = axi_full.AXICrossbar([m], [(dec, s)], timeout_cycles=spec["t"])
    else:
        ic = axi_full.AXIInterconnectShared([m], [(dec, s)], timeout_cycles=spec["t"])
    top.submodules.ic = ic
    err = getattr(getattr(ic, "timeout", None), "error", None)
    err = err if err is not None else Constant(0)
    if wr:
        code = Mux(m.b.resp == 1, 1, Mux(m.b.resp == RESP_SLVERR, 2, 7))
        outs = [m.aw.ready, m.w.ready, m.b.valid, code, m.b.id, Constant(0), err, s.aw.valid, s.w.valid, s.b.ready]
    else:
        code = Mux((m.r.resp == 1) & (m.r.data == 1), 1,
                   Mux((m.r.resp == RESP_SLVERR) & (m.r.data == 0xffffffff), 2, 7))
        outs = [m.ar.ready, Constant(0), m.r.valid, code, m.r.id, m.r.last, err, s.ar.valid, Constant(0), s.r.ready]
    return top, [mc, sc], outs


FLAGS = ("late", "wsplit", "partial", "mute")


def _pair(d, t, kind="axi_shared_to", **flags):
    spec = {"kind": kind, "dir": d, "t": t}
    cfg = {"dir": d, "t": t, "slack": 3}
    for f in FLAGS:
        spec["axi_" + f] = cfg[f] = int(flags.pop(f, 0))
    spec.update(flags)
    return spec, cfg


def configs(tier):
    """-> (main, demos): main = faulty slave that stays silent once the time-out has expired and answers what it
    has accepted (every clause must hold), demos = one-DUT demonstrations of the listed findings"""
    main, demo = [], []
    for d in ("w", "r"):
        for t in ((1, 2) if tier == "quick" else (1, 2, 3, 4, 8)):
            main.append(_pair(d, t))
    # a slave that accepts a burst and then never answers it
    demo.append(_pair("r", 2, mute=1, nofollowup=True))
    # the slave accepts the request in the cycles in which the interconnect is already terminating it
    demo.append(_pair("r", 2, late=1, nofollowup=True))
    # write data sent after its address has been force-accepted / with gaps between the beats
    demo.append(_pair("w", 2, wsplit=1, nofollowup=True))
    # the slave took a part of a write burst before falling silent
    demo.append(_pair("w", 2, partial=1, nofollowup=True))
    # the crossbar accepts timeout_cycles but has no time-out
    demo.append(_pair("r", 2, kind="axi_crossbar_to", nofollowup=True))
    if tier == "thorough":
        demo.append(_pair("w", 2, mute=1, nofollowup=True))
        demo.append(_pair("w", 2, late=1, nofollowup=True))
        demo.append(_pair("w", 2, kind="axi_crossbar_to", nofollowup=True))
    return main, demo


def describe(s):
    cls = "AXICrossbar" if s.get("kind") == "axi_crossbar_to" else "AXIInterconnectShared"
    fl = [f for f in FLAGS if s.get("axi_" + f)]
    return "axi_full.%s(1x1, timeout=%d, %s%s)" % (cls, s["t"], "write" if s["dir"] == "w" else "read",
                                                   (", " + "+".join(fl)) if fl else "")


class Hint:
    """held offers are repeated (accelerator only)"""
    def init(self, cfg):
        return (0, 0)

    def allowed(self, cfg, ctx, iv):
        a, w = ctx
        if a and iv[0] & 31 != a:
            return False
        if w and iv[0] & 96 != w:
            return False
        return True

    def next(self, cfg, ctx, iv, o):
        return (iv[0] & 31 if iv[0] & 1 and not o[0] else 0, iv[0] & 96 if iv[0] & 32 and not o[1] else 0)
