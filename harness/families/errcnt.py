"""SoCController bus-error counter (C11 ErrorCounter clause)."""
from migen import Module, Signal, Mux, Constant

from litex.soc.integration.soc import SoCController


def make(spec):
    top = Module()
    ctrl = SoCController(with_reset=False, with_scratch=False, with_errors=True)
    top.submodules.ctrl = ctrl
    # the CSRStatus must be finalized to exist as a netlist; no bus is attached (not needed here)
    for c in ctrl.get_csrs():
        c.finalize(32, "big")
    pulse = Signal()
    top.comb += ctrl.bus_error.eq(pulse)
    cnt = ctrl._bus_errors.status
    dist = Signal(33)
    top.comb += dist.eq(0xffffffff - cnt)
    outs = [Mux(cnt > 7, 7, cnt[:3]), Mux(dist > 7, 7, dist[:3])]
    opts = {}
    if spec.get("seeded"):
        opts["init_override"] = {"bus_errors": 0xffffffff - 4}
    return top, [pulse], outs, opts


def configs(tier):
    return [({"seeded": 0}, {"seeded": 0}), ({"seeded": 1}, {"seeded": 1})]
