"""DUT factory for the AXI-Lite interconnect family (C08, C11): real AXILiteInterconnectShared /
AXILiteCrossbar / Arbiter / Decoder with tagged masters and wish-driven slaves
(see specs/axilic/AxiLiteIcContract.tla)."""
from migen import Module, Signal, Array, Constant, If, Mux

from litex.soc.interconnect.axi import axi_lite
from litex.soc.integration.soc import SoCRegion

AW = 8


def _regions(spec):
    m = spec["m"]
    regs = [(0x40 * j, 0x40) for j in range(m)]
    return regs


def make(spec):
    n, m = spec["n"], spec["m"]
    wr = spec["dir"] == "w"
    regs = _regions(spec)
    top = Module()
    masters = [axi_lite.AXILiteInterface(data_width=32, address_width=AW) for _ in range(n)]
    slaves = [axi_lite.AXILiteInterface(data_width=32, address_width=AW) for _ in range(m)]
    ins, outs = [], []
    for i, mi in enumerate(masters):
        av, tgt, wv, rr = Signal(), Signal(max=m + 2), Signal(), Signal()
        ins += [av, tgt, wv, rr]
        arr = Array([Constant(0, AW)] + [Constant(org + 4 * (i + 1), AW) for org, _ in regs])
        if wr:
            top.comb += [mi.aw.valid.eq(av), mi.aw.addr.eq(Mux(av, arr[tgt], spec.get("idle_addr", 0))),
                         mi.w.valid.eq(wv), mi.w.data.eq(i + 1), mi.w.strb.eq(0xf), mi.b.ready.eq(rr)]
        else:
            top.comb += [mi.ar.valid.eq(av), mi.ar.addr.eq(Mux(av, arr[tgt], spec.get("idle_addr", 0))),
                         mi.r.ready.eq(rr)]
    tb_regs = top.tb_regs = []
    for j, sj in enumerate(slaves):
        ar_, wr_, rv = Signal(), Signal(), Signal()
        ins += [ar_, wr_, rv]
        ca, cw, hold = Signal(3), Signal(3), Signal()
        if wr:
            afire = sj.aw.valid & sj.aw.ready
            wfire = sj.w.valid & sj.w.ready
            rvalid, rready = sj.b.valid, sj.b.ready
            top.comb += [sj.aw.ready.eq(ar_), sj.w.ready.eq(wr_), sj.b.resp.eq(j + 1),
                         sj.b.valid.eq(rv & (((ca != 0) & (cw != 0)) | hold))]
        else:
            afire = sj.ar.valid & sj.ar.ready
            wfire = Constant(0)
            rvalid, rready = sj.r.valid, sj.r.ready
            top.comb += [sj.ar.ready.eq(ar_), sj.r.resp.eq(j + 1), sj.r.data.eq(j + 1),
                         sj.r.valid.eq(rv & ((ca != 0) | hold))]
        rfire = rvalid & rready
        top.sync += [
            ca.eq(ca + afire - rfire),
            hold.eq(rvalid & ~rready),
        ]
        if wr:
            top.sync += cw.eq(cw + wfire - rfire)
        # the test bench registers of this slave, for the L2 lane's projection (harness/families/axilic_l2.py)
        tb_regs.append({"ca": ca, "cw": cw if wr else None, "hold": hold})
    decoders = []
    for (org, size), sj in zip(regs, slaves):
        r = SoCRegion(origin=org, size=size)
        decoders.append((r.decoder(masters[0]), sj))
    kind = spec["kind"]
    timeout = spec.get("timeout") or None
    if kind == "shared":
        ic = axi_lite.AXILiteInterconnectShared(masters, decoders, timeout_cycles=timeout)
    elif kind == "crossbar":
        ic = axi_lite.AXILiteCrossbar(masters, decoders, timeout_cycles=timeout)
    elif kind == "arbiter":
        assert m == 1
        ic = axi_lite.AXILiteArbiter(masters, slaves[0])
    elif kind == "decoder":
        assert n == 1
        ic = axi_lite.AXILiteDecoder(masters[0], decoders)
    elif kind == "p2p":
        ic = axi_lite.AXILiteInterconnectPointToPoint(masters[0], slaves[0])
    else:
        raise ValueError(kind)
    top.submodules.ic = ic
    for mi in masters:
        if wr:
            outs += [mi.aw.ready, mi.w.ready, mi.b.valid, mi.b.resp]
        else:
            outs += [mi.ar.ready, Constant(0), mi.r.valid, Mux(mi.r.resp == mi.r.data[:2], mi.r.resp, 7)]
    for sj in slaves:
        if wr:
            outs += [sj.aw.valid, sj.aw.addr, sj.w.valid, sj.w.data[:4], sj.b.ready]
        else:
            outs += [sj.ar.valid, sj.ar.addr, Constant(0), Constant(0), sj.r.ready]
    err = getattr(getattr(ic, "timeout", None), "error", None)
    outs.append(err if err is not None else Constant(0))
    return top, ins, outs


def tla_cfg(spec):
    regs = _regions(spec)
    n, m = spec["n"], spec["m"]
    mfree = list(spec.get("mfree", [1] + [0] * (n - 1))) + [0] * 3
    sfree = list(spec.get("sfree", [1] + [0] * (m - 1))) + [0] * 3
    return {"n": n, "m": m, "k": spec.get("k", 1), "bases": [org for org, _ in regs], "dir": spec["dir"],
            "cbar": int(spec["kind"] == "crossbar"), "mfree": mfree[:3], "sfree": sfree[:3],
            "earlyw": int(spec.get("earlyw", 0)), "xslave": int(spec.get("xslave", 0)),
            "timeout": int(spec.get("timeout") or 0)}


class Hint:
    """speculation hint: held offers are repeated"""
    def init(self, cfg):
        return ()

    def allowed(self, cfg, ctx, iv):
        for kind, idx, val in ctx:
            if kind == "a":
                if iv[4 * idx] != 1 or iv[4 * idx + 1] != val:
                    return False
            elif kind == "w":
                if iv[4 * idx + 2] != 1:
                    return False
            elif kind == "r":
                if iv[4 * cfg["n"] + 3 * idx + 2] != 1:
                    return False
        return True

    def next(self, cfg, ctx, iv, o):
        n, m = cfg["n"], cfg["m"]
        held = []
        for i in range(n):
            av, tgt, wv, rr = iv[4 * i:4 * i + 4]
            aready, wready = o[4 * i], o[4 * i + 1]
            if av and not aready:
                held.append(("a", i, tgt))
            if wv and not wready:
                held.append(("w", i, 1))
        return tuple(held)


def configs(tier, prop="C08"):
    L = []

    def add(**spec):
        L.append((spec, tla_cfg(spec)))
    if prop == "C08":
        for d in ("w", "r"):
            add(kind="decoder", n=1, m=2, dir=d, k=2, sfree=[1, 1])
            add(kind="arbiter", n=2, m=1, dir=d, k=2, mfree=[1, 1])
            add(kind="shared", n=2, m=2, dir=d, k=1)
            if tier == "thorough":
                add(kind="p2p", n=1, m=1, dir=d, k=2, earlyw=1, xslave=1)
                add(kind="crossbar", n=2, m=2, dir=d, k=1, mfree=[0, 1], sfree=[0, 1])
        # the two behaviours the property lists explicitly and the interconnect does not support
        add(kind="decoder", n=1, m=2, dir="w", k=1, sfree=[1, 0], earlyw=1, nofollowup=True)          # data before address
        add(kind="decoder", n=1, m=2, dir="r", k=2, sfree=[1, 0], xslave=1, nofollowup=True)          # other slave while outstanding
        if tier == "thorough":
            for d in ("w", "r"):
                add(kind="shared", n=2, m=2, dir=d, k=2)
                add(kind="shared", n=2, m=2, dir=d, k=1, mfree=[0, 1], sfree=[0, 1])
                add(kind="crossbar", n=2, m=2, dir=d, k=1)
                add(kind="crossbar", n=2, m=2, dir=d, k=2, mfree=[0, 1], sfree=[1, 0])
                add(kind="shared", n=2, m=2, dir=d, k=1, mfree=[1, 1], sfree=[1, 0])
                add(kind="shared", n=3, m=2, dir=d, k=1)
                add(kind="crossbar", n=3, m=3, dir=d, k=1, mfree=[0, 0, 0], sfree=[1, 0, 0])
                add(kind="arbiter", n=3, m=1, dir=d, k=2, mfree=[1, 0, 1])
                add(kind="decoder", n=1, m=3, dir=d, k=2, sfree=[1, 1, 0])
            add(kind="shared", n=2, m=2, dir="w", k=1, earlyw=1, nofollowup=True)
            add(kind="crossbar", n=2, m=2, dir="w", k=1, earlyw=1, mfree=[1, 0], sfree=[1, 0], nofollowup=True)
            add(kind="shared", n=2, m=2, dir="r", k=2, xslave=1, nofollowup=True)
    return L
