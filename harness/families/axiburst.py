"""DUT factories, environments and recorders for the AXI burst family (C10).

* AXIBurst2Beat as a stream element (G-mode factory `make`, linear recorder `b2b_record`)
* AXIUpConverter / AXIDownConverter / AXIConverter between two AXIInterfaces with a harness
  written AXI master and AXI slave environment (`conv_record`)

Nothing in this file decides what is correct: it drives the real netlists (FHDL stepper, used
linearly from reset) and writes down what they did.  The judges are specs/axiburst/*.tla.
"""
import random

from migen import Module, Signal

PAGE = 4096


# ================================================================================ AXIBurst2Beat
def _b2b(spec):
    from litex.soc.interconnect.axi.axi_full import AXIBurst2Beat, ax_description
    from litex.soc.interconnect.axi.axi_stream import AXIStreamInterface
    aw = spec.get("aw", 32)
    idw = spec.get("idw", 2)
    ax_burst = AXIStreamInterface(layout=ax_description(aw), id_width=idw)
    ax_beat = AXIStreamInterface(layout=ax_description(aw), id_width=idw)
    kw = {}
    if "caps" in spec:
        kw["capabilities"] = set(spec["caps"])
    core = AXIBurst2Beat(ax_burst, ax_beat, **kw)
    top = Module()
    top.submodules.core = core
    ins = [ax_burst.valid, ax_burst.addr, ax_burst.len, ax_burst.size, ax_burst.burst, ax_burst.id, ax_beat.ready]
    outs = [ax_burst.ready, ax_beat.valid, ax_beat.addr, ax_beat.first, ax_beat.last, ax_beat.id]
    return top, ins, outs


def make(spec):
    """G-mode factory -> (dut, inputs, outputs)
       inputs  = valid, addr, len, size, burst, id, ready
       outputs = sink_ready, valid, addr, first, last, id"""
    if spec["cls"] == "B2B":
        return _b2b(spec)
    raise ValueError(spec["cls"])


class Hint:
    """speculation hint for GraphLoop: a producer repeats an unaccepted request"""
    def init(self, cfg):
        return None

    def allowed(self, cfg, ctx, iv):
        return ctx is None or tuple(iv[:6]) == ctx

    def next(self, cfg, ctx, iv, o):
        if iv[0] == 1 and o[0] == 0:
            return tuple(iv[:6])
        return None


def gconfigs(tier):
    """(python spec, TLA+ cfg) for the G-mode runs: short bursts, every stall pattern"""
    L = []
    # 32-bit bus: sizes 0..2, addresses around a 16-byte wrap window and just below 64
    # (GraphLoop keys its graphs by the spec: equal netlists explored under different request sets get a tag)
    L.append(({"cls": "B2B", "tag": "bus32"}, {"bus": 4, "addrs": [0, 1, 2, 3, 4, 6, 8, 12, 13, 60, 62, 63], "lens": [0, 1, 2, 3],
                               "maxsize": 2, "bursts": [0, 1, 2], "ids": [1]}))
    # 64-bit bus: sizes 0..3
    L.append(({"cls": "B2B", "tag": "bus64"}, {"bus": 8, "addrs": [0, 5, 8, 16, 24, 28, 31, 56], "lens": [0, 1, 3],
                               "maxsize": 3, "bursts": [0, 1, 2], "ids": [0, 2]}))
    # idle junk: while the producer offers nothing (valid low) the request lines carry the payload of other requests
    # or values that are no request at all (cfg field `junk`, AxiB2BContract!JunkLines); every stall pattern
    L.append(({"cls": "B2B", "tag": "bus32-idlejunk"}, {"bus": 4, "addrs": [0, 2, 13, 60], "lens": [0, 1, 3],
                               "maxsize": 2, "bursts": [0, 1, 2], "ids": [1],
                               "junk": [[5, 255, 7, 3, 3], [4095, 16, 1, 2, 0]]}))
    # an expander built for FIXED and INCR only (capabilities={FIXED, INCR}, what an AXI slave without WRAP support
    # instantiates): INCR and FIXED bursts must be expanded exactly as by the full expander
    L.append(({"cls": "B2B", "caps": [0, 1]}, {"bus": 4, "addrs": [0, 1, 6, 13, 62], "lens": [0, 1, 2, 3], "maxsize": 2,
                                                  "bursts": [0, 1], "ids": [2]}))
    if tier == "thorough":
        L.append(({"cls": "B2B", "tag": "bus64-idlejunk"}, {"bus": 8, "addrs": [0, 5, 8, 24, 31, 56], "lens": [0, 1, 3],
                                   "maxsize": 3, "bursts": [0, 1, 2], "ids": [0, 2],
                                   "junk": [[7, 255, 7, 3, 1], [0, 200, 0, 1, 3]]}))
        L.append(({"cls": "B2B", "caps": [0, 1], "tag": "bus64"}, {"bus": 8, "addrs": [0, 5, 8, 16, 28, 31, 56, 4088],
                                   "lens": [0, 1, 3, 7], "maxsize": 3, "bursts": [0, 1], "ids": [0, 3]}))
        L.append(({"cls": "B2B", "tag": "bus32-dense"}, {"bus": 4, "addrs": list(range(0, 32)) + [4088, 4092], "lens": [0, 1, 2, 3],
                                   "maxsize": 2, "bursts": [0, 1, 2], "ids": [3]}))
        L.append(({"cls": "B2B", "tag": "bus128"}, {"bus": 16, "addrs": [0, 7, 16, 32, 48, 96, 112, 120], "lens": [0, 1, 3, 7],
                                   "maxsize": 4, "bursts": [1, 2], "ids": [0]}))
        # a FIXED-only expander (capabilities) must still expand FIXED bursts correctly
        L.append(({"cls": "B2B", "caps": [0]}, {"bus": 4, "addrs": [0, 3, 61], "lens": [0, 1, 3], "maxsize": 2,
                                               "bursts": [0], "ids": [1]}))
    return L


_B2B_ST = {}


def _b2b_stepper(engine="compiled"):
    from ..fhdl_step import Stepper
    st = _B2B_ST.get(engine)
    if st is None:
        dut, ins, outs = _b2b({"cls": "B2B", "idw": 4})
        st = Stepper(dut, ins, outs, engine=engine)
        _B2B_ST[engine] = st
    return st


def b2b_record(job):
    """Run a list of requests back to back on ONE AXIBurst2Beat instance, linearly from reset.

    job = (requests, stallmode, seed, engine); request = (page, off, len, size, burst, id);
    stallmode 0: consumer always ready, no gap between requests; 1: seeded random ready and gaps;
    2: heavy stalls; 3: as 1, but every request is preceded by idle cycles and the request lines carry junk while
    nothing is offered (the payload of the next or of the previous request, or random bits - a stream producer
    defines its payload only under valid).  -> one case per request (mode 3: with "junk" = number of idle cycles
    with a non-zero payload):
       {"req": [...], "cyc": [[offered, ready, sink_ready, valid, page, off, first, last, id], ...]}
    The cycle list of a case starts after the previous request was consumed (so it contains the idle
    cycles in front of the request) and ends with the cycle in which the request is consumed, or
    after a generous time-out."""
    reqs, stallmode, seed, engine = job
    rnd = random.Random(seed)
    st = _b2b_stepper(engine)
    st.load(st.reset_state, (0, 0, 0, 0, 0, 0, 0))
    pready = {0: 1.0, 1: 0.6, 2: 0.25, 3: 0.6}[stallmode]
    out = []
    prev = (0, 0, 0, 0, 0)
    for (page, off, ln, size, burst, rid) in reqs:
        cyc = []
        gap = 0 if stallmode == 0 else rnd.choice((1, 1, 2, 3)) if stallmode == 3 else rnd.choice((0, 0, 1, 2))
        addr = page * PAGE + off
        njunk = 0
        budget = (ln + 2) * (1 if stallmode == 0 else 40) + 50
        done = False
        while not done and budget > 0:
            budget -= 1
            offered = 0 if gap > 0 else 1
            gap -= 1 if gap > 0 else 0
            ready = 1 if rnd.random() < pready else 0
            if offered:
                iv = (1, addr, ln, size, burst, rid, ready)
            elif stallmode == 3:
                k = rnd.randrange(3)
                lines = ((addr, ln, size, burst, rid), prev,
                         (rnd.getrandbits(32), rnd.randrange(256), rnd.randrange(8), rnd.randrange(4), rnd.randrange(16)))[k]
                iv = (0,) + tuple(lines) + (ready,)
                njunk += 1 if any(lines) else 0
            else:
                iv = (0, 0, 0, 0, 0, 0, ready)
            st.load(st.state(), iv)
            o = st.peek()
            st.tick()
            cyc.append([offered, ready, o[0], o[1], o[2] // PAGE, o[2] % PAGE, o[3], o[4], o[5]])
            if offered and o[0] == 1:
                done = True
        prev = (addr, ln, size, burst, rid)
        out.append({"req": [page, off, ln, size, burst, rid], "cyc": cyc})
        if stallmode == 3:
            out[-1]["junk"] = njunk
    return out


# ================================================================================ AXI data-width converters
POISON = 255          # what the Env slave drives on byte lanes that are not active in a read beat
JUNK = 238            # what the Env master drives on write lanes whose strobe is low


def mem_byte(a):
    """content of the Env slave's memory (the judge has the same definition: AxiConvCases!MemByte)"""
    return 1 + (a % 251)


def _conv(spec):
    from litex.soc.interconnect.axi.axi_full import AXIInterface, AXIConverter, AXIUpConverter, AXIDownConverter
    fw, tw = spec["from"], spec["to"]
    idw = spec.get("idw", 4)
    a = AXIInterface(data_width=fw, address_width=32, id_width=idw)
    b = AXIInterface(data_width=tw, address_width=32, id_width=idw)
    top = Module()
    cls = {"conv": AXIConverter, "up": AXIUpConverter, "down": AXIDownConverter}[spec.get("via", "conv")]
    top.submodules.core = cls(a, b)
    ins = [a.aw.valid, a.aw.addr, a.aw.len, a.aw.size, a.aw.burst, a.aw.id,
           a.w.valid, a.w.data, a.w.strb, a.w.last,
           a.b.ready,
           a.ar.valid, a.ar.addr, a.ar.len, a.ar.size, a.ar.burst, a.ar.id,
           a.r.ready,
           b.aw.ready, b.w.ready,
           b.b.valid, b.b.id, b.b.resp,
           b.ar.ready,
           b.r.valid, b.r.data, b.r.resp, b.r.id, b.r.last]
    outs = [a.aw.ready, a.w.ready,
            a.b.valid, a.b.id, a.b.resp,
            a.ar.ready,
            a.r.valid, a.r.data, a.r.resp, a.r.id, a.r.last,
            b.aw.valid, b.aw.addr, b.aw.len, b.aw.size, b.aw.burst, b.aw.id,
            b.w.valid, b.w.data, b.w.strb, b.w.last,
            b.b.ready,
            b.ar.valid, b.ar.addr, b.ar.len, b.ar.size, b.ar.burst, b.ar.id,
            b.r.ready]
    return top, ins, outs


_CONV_ST = {}


def _conv_stepper(spec, engine):
    from ..fhdl_step import Stepper
    key = (spec["from"], spec["to"], spec.get("via", "conv"), engine)
    st = _CONV_ST.get(key)
    if st is None:
        dut, ins, outs = _conv(spec)
        st = Stepper(dut, ins, outs, engine=engine)
        _CONV_ST[key] = st
    return st


# --- the Env's own AXI arithmetic (used to DRIVE legal stimuli; the judge re-derives everything from AxiBurst.tla
#     and checks the Env against it in EnvLegal)
def _beat_addr(addr, ln, size, burst, n):
    nb = 1 << size
    if n == 0 or burst == 0:
        return addr
    a = (addr // nb) * nb + n * nb
    if burst == 2:
        wb = nb * (ln + 1)
        lo = (addr // wb) * wb
        if a >= lo + wb:
            a -= wb
    return a


def _beat_lanes(addr, ln, size, burst, n, bus):
    nb = 1 << size
    a = _beat_addr(addr, ln, size, burst, n)
    hi = (a // nb) * nb + nb - 1
    return [x % bus for x in range(a, hi + 1)], (a // bus) * bus


def _bytes_of(x, nbytes):
    return [(x >> (8 * i)) & 255 for i in range(nbytes)]


def _bits_of(x, n):
    return [(x >> i) & 1 for i in range(n)]


def conv_record(job):
    """job = (spec, cases, engine).  Every case is run from the reset state of the converter:
    case = {"writes": [[addr, len, size, burst, id, resp], ...], "reads": [...], "seed", "stall", ...}
    The master issues the writes (AW and W independently) and the reads in order, pipelined; the slave answers
    in order.  Recorded: every transfer (valid & ready) of every channel on both sides, with its cycle number.
    case["junk"]: while the valid of a channel driven by the Env (master AW/W/AR, slave B/R) is low, its payload
    lines and `last` carry seeded random bits instead of zeros (AXI defines them only under valid); the junk comes
    from a generator of its own, so the schedule of the run is the one the same seed gives without junk.
    Recorded as well: junk_cycles (channel-cycles with valid low and non-zero lines) and junk_last (those of W/R
    with `last` high)."""
    spec, cases, engine = job
    idw = spec.get("idw", 4)
    st = _conv_stepper(spec, engine)
    fb, tb = spec["from"] // 8, spec["to"] // 8
    out = []
    for case in cases:
        rnd = random.Random(case["seed"])
        mode = case["stall"]
        pgo = {0: 1.0, 1: 0.65, 2: 0.3}[mode]      # probability that a ready / a new valid is granted in a cycle

        def go():
            return mode == 0 or rnd.random() < pgo
        writes, reads = case["writes"], case["reads"]
        jr = random.Random(case["seed"] ^ 0x6a756e6b) if case.get("junk") else None
        njunk = [0, 0]

        def idle(widths, has_last=False):
            """lines of a channel whose valid is low"""
            if jr is None:
                return (0,) * (len(widths) + 1)
            v = tuple(jr.getrandbits(w) for w in widths)
            njunk[0] += 1 if any(v) else 0
            njunk[1] += 1 if has_last and v[-1] else 0
            return (0,) + v
        # master W beats
        wbeats = []
        for k, (addr, ln, size, burst, wid, resp) in enumerate(writes):
            for n in range(ln + 1):
                lanes, base = _beat_lanes(addr, ln, size, burst, n, fb)
                data = [JUNK] * fb
                strb = [0] * fb
                for l in lanes:
                    if case.get("sparse") and rnd.random() < 0.25:
                        continue
                    strb[l] = 1
                    data[l] = 1 + ((base + l) * 3 + k * 17 + n * 5) % 250
                wbeats.append((sum(d << (8 * i) for i, d in enumerate(data)), sum(s << i for i, s in enumerate(strb)),
                               1 if n == ln else 0))
        rec = {k: [] for k in ("f_aw", "f_w", "f_b", "f_ar", "f_r", "t_aw", "t_w", "t_b", "t_ar", "t_r")}
        i_aw = i_w = i_ar = 0
        v_aw = v_w = v_ar = False
        s_aw, s_ar = [], []
        s_wbursts = 0
        b_done = 0
        b_cur = None
        r_k, r_n = 0, 0
        r_cur = None
        n_fb = n_fr = 0
        want_r = sum(r[1] + 1 for r in reads)
        nbeats = len(wbeats) * max(1, fb // tb) + want_r * max(1, fb // tb) + len(writes) + len(reads)
        budget = nbeats * (3 if mode == 0 else 14) + 120
        drain = 12
        st.load(st.reset_state, tuple(0 for _ in st.inputs))
        cyc = 0
        while budget > 0 and drain > 0:
            budget -= 1
            # ---- choose this cycle's inputs from the Env state only
            if not v_aw and i_aw < len(writes) and go():
                v_aw = True
            if not v_w and i_w < len(wbeats) and go():
                v_w = True
            if not v_ar and i_ar < len(reads) and go():
                v_ar = True
            if b_cur is None and b_done < min(len(s_aw), s_wbursts) and go():
                b_cur = (s_aw[b_done][5], writes[b_done][5] if b_done < len(writes) else 0)
            if r_cur is None and r_k < len(s_ar) and go():
                addr, ln, size, burst, rid = s_ar[r_k][1:6]
                lanes, base = _beat_lanes(addr, ln, min(size, tb.bit_length() - 1), burst if burst in (0, 1, 2) else 1, r_n, tb)
                data = [POISON] * tb
                for l in lanes:
                    data[l] = mem_byte(base + l)
                r_cur = (sum(d << (8 * i) for i, d in enumerate(data)), reads[r_k][5] if r_k < len(reads) else 0, rid,
                         1 if r_n == ln else 0)
            aw = writes[i_aw] if v_aw else None
            wb = wbeats[i_w] if v_w else None
            ar = reads[i_ar] if v_ar else None
            iv = ((1, aw[0], aw[1], aw[2], aw[3], aw[4]) if aw else idle((32, 8, 3, 2, idw))) + \
                 ((1, wb[0], wb[1], wb[2]) if wb else idle((8 * fb, fb, 1), True)) + \
                 (1 if go() else 0,) + \
                 ((1, ar[0], ar[1], ar[2], ar[3], ar[4]) if ar else idle((32, 8, 3, 2, idw))) + \
                 (1 if go() else 0,) + \
                 (1 if go() else 0, 1 if go() else 0) + \
                 ((1, b_cur[0], b_cur[1]) if b_cur else idle((idw, 2))) + \
                 (1 if go() else 0,) + \
                 ((1, r_cur[0], r_cur[1], r_cur[2], r_cur[3]) if r_cur else idle((8 * tb, 2, idw, 1), True))
            st.load(st.state(), iv)
            o = st.peek()
            st.tick()
            (f_aw_rdy, f_w_rdy, f_b_v, f_b_id, f_b_resp, f_ar_rdy, f_r_v, f_r_data, f_r_resp, f_r_id, f_r_last,
             t_aw_v, t_aw_addr, t_aw_len, t_aw_size, t_aw_burst, t_aw_id, t_w_v, t_w_data, t_w_strb, t_w_last,
             t_b_rdy, t_ar_v, t_ar_addr, t_ar_len, t_ar_size, t_ar_burst, t_ar_id, t_r_rdy) = o
            b_rdy, r_rdy, s_aw_rdy, s_w_rdy, s_ar_rdy = iv[10], iv[17], iv[18], iv[19], iv[23]
            # ---- transfers of this cycle
            if v_aw and f_aw_rdy:
                rec["f_aw"].append([cyc] + list(aw[:5]))
                v_aw = False
                i_aw += 1
            if v_w and f_w_rdy:
                rec["f_w"].append([cyc, _bytes_of(wb[0], fb), _bits_of(wb[1], fb), wb[2]])
                v_w = False
                i_w += 1
            if f_b_v and b_rdy:
                rec["f_b"].append([cyc, f_b_id, f_b_resp])
                n_fb += 1
            if v_ar and f_ar_rdy:
                rec["f_ar"].append([cyc] + list(ar[:5]))
                v_ar = False
                i_ar += 1
            if f_r_v and r_rdy:
                rec["f_r"].append([cyc, _bytes_of(f_r_data, fb), f_r_resp, f_r_id, f_r_last])
                n_fr += 1
            if t_aw_v and s_aw_rdy:
                e = [cyc, t_aw_addr, t_aw_len, t_aw_size, t_aw_burst, t_aw_id]
                rec["t_aw"].append(e)
                s_aw.append(e)
            if t_w_v and s_w_rdy:
                rec["t_w"].append([cyc, _bytes_of(t_w_data, tb), _bits_of(t_w_strb, tb), t_w_last])
                if t_w_last:
                    s_wbursts += 1
            if b_cur is not None and t_b_rdy:
                rec["t_b"].append([cyc, b_cur[0], b_cur[1]])
                b_cur = None
                b_done += 1
            if t_ar_v and s_ar_rdy:
                e = [cyc, t_ar_addr, t_ar_len, t_ar_size, t_ar_burst, t_ar_id]
                rec["t_ar"].append(e)
                s_ar.append(e)
            if r_cur is not None and t_r_rdy:
                rec["t_r"].append([cyc, _bytes_of(r_cur[0], tb), r_cur[1], r_cur[2], r_cur[3]])
                if r_cur[3]:
                    r_k += 1
                    r_n = 0
                else:
                    r_n += 1
                r_cur = None
            cyc += 1
            if n_fb >= len(writes) and n_fr >= want_r and i_aw == len(writes) and i_w == len(wbeats) \
                    and i_ar == len(reads) and b_cur is None and r_cur is None:
                drain -= 1
        rec["cycles"] = cyc
        rec["done"] = 1 if drain == 0 else 0
        rec["writes"] = [list(w) for w in writes]
        rec["reads"] = [list(r) for r in reads]
        rec["cfg"] = {"fb": fb, "tb": tb}
        rec["cls"] = case.get("cls", "supported")
        rec["junk"] = 1 if jr is not None else 0
        rec["junk_cycles"], rec["junk_last"] = njunk
        out.append(rec)
    return out
