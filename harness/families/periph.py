"""DUT factory for the serial-peripheral / timer family (C19): real LiteX cores, the ones with
CSRs behind a real CSRBank on a 32-bit CSR bus (every register is one bus word).

make(spec) -> (top module, input signals, output expressions[, opts]); spec["core"] selects the core.
The TLA+ contracts (specs/periph/*.tla) document the meaning of every input/output tuple.
"""
from migen import Module, Signal, Cat, If, Constant, Mux, Record, Replicate
from migen.fhdl.specials import Tristate

from litex.soc.interconnect import csr_bus


# ------------------------------------------------------------------------------------- helpers
def _bank(top, core, datamap=None):
    """real CSRBank in front of `core`; returns (op, reg, data) input signals.  op 1 = write,
    2 = read.  `datamap(reg, data)` optionally spreads a compact data value over the 32-bit word."""
    bank = csr_bus.CSRBank(core.get_csrs(), address=0, bus=csr_bus.Interface(data_width=32, address_width=14))
    top.submodules += bank
    op, reg, data = Signal(2), Signal(4), Signal(32)
    top.comb += [bank.bus.adr.eq(reg), bank.bus.we.eq(op == 1), bank.bus.re.eq(op == 2)]
    if datamap is None:
        top.comb += bank.bus.dat_w.eq(data)
    else:
        top.comb += datamap(bank.bus.dat_w, reg, data)
    top.bank = bank
    return op, reg, data


def _names(core):
    return [c.name for c in core.get_csrs()]


# ------------------------------------------------------------------------------------- timers
def _timer(spec):
    from litex.soc.cores.timer import Timer
    top = Module()
    t = Timer(width=spec["w"])
    top.submodules.timer = t
    assert _names(t) == ["load", "reload", "en", "update_value", "value", "ev_status", "ev_pending", "ev_enable"]
    op, reg, data = _bank(top, t)
    outs = [t._load.storage, t._reload.storage, t._en.storage, t._value.status,
            t.ev.status.status, t.ev.pending.status, t.ev.enable.storage, t.ev.irq]
    return top, [op, reg, data], outs


def _wdt(spec):
    from litex.soc.cores.watchdog import Watchdog
    top = Module()
    rd = spec["rd"]
    crg_rst = Signal()
    halted = Signal()
    w = Watchdog(width=spec["w"], crg_rst=crg_rst if rd >= 0 else None, reset_delay=max(rd, 0),
                 halted=halted if spec["halt"] else None)
    top.submodules.wdt = w
    assert _names(w) == ["control", "cycles", "remaining", "ev_status", "ev_pending", "ev_enable"]

    def datamap(dat_w, reg, data):
        # compact control value: bit0 feed, bit1 enable, bit2 reset, bit3 pause_halted
        ctl = Cat(data[0], Constant(0, 7), data[1], Constant(0, 7), data[2], Constant(0, 7), data[3])
        return [dat_w.eq(Mux(reg == 0, ctl, data))]
    op, reg, data = _bank(top, w, datamap)
    st = w._control.storage
    outs = [w._cycles.storage, w._remaining.status, Cat(st[0], st[8], st[16], st[24]),
            w.ev.status.status, w.ev.pending.status, w.ev.enable.storage, w.ev.irq, crg_rst]
    return top, [op, reg, data, halted], outs


def _wait(spec):
    from litex.gen.genlib.misc import WaitTimer
    top = Module()
    wt = WaitTimer(spec["t"])
    top.submodules.wt = wt
    return top, [wt.wait], [wt.done]


def _tline(spec):
    from litex.gen.genlib.misc import timeline
    top = Module()
    trig = Signal()
    ev = spec["ev"]
    pulses = [Signal(name="p%d" % k) for k in range(len(ev))]
    top.sync += [p.eq(0) for p in pulses]
    top.sync += timeline(trig, [(e, [pulses[k].eq(1)]) for k, e in enumerate(ev)])
    return top, [trig], [Cat(*pulses)]


def _pwm(spec):
    from litex.soc.cores.pwm import PWM
    top = Module()
    p = PWM(with_csr=False)
    top.submodules.pwm = p
    en, rst = Signal(), Signal()
    width, period = Signal(32), Signal(32)
    top.comb += [p.enable.eq(en), p.reset.eq(rst), p.width.eq(width), p.period.eq(period)]
    opts = {}
    if spec.get("seed") is not None:
        # the period counter is reset_less: any power-up value is possible
        p.counter.reset = Constant(spec["seed"], 32)
    return top, [en, rst, width, period], [p.pwm], opts


# ------------------------------------------------------------------------------------- UART
def tuning_word(pn, pd, rs):
    """tuning word for a bit period of pn/pd cycles: (pd*2^32 + r)/pn with sign(r) = rs
    (rs = 0 requires an exact division), see specs/periph/Uart.tla"""
    num = pd << 32
    if rs == 0:
        assert num % pn == 0
        return num // pn
    if rs > 0:
        tw = -(-num // pn)
        if tw * pn == num:
            tw += 1
        return tw
    tw = num // pn
    if tw * pn == num:
        tw -= 1
    return tw


def _uarttx(spec):
    from litex.soc.cores.uart import RS232PHYTX, UARTPads
    top = Module()
    pads = UARTPads()
    tx = RS232PHYTX(pads, tuning_word(spec["pn"], spec["pd"], spec["rs"]))
    top.submodules.tx = tx
    return top, [tx.sink.valid, tx.sink.data], [tx.sink.ready, pads.tx]


def _uartrx(spec):
    from litex.soc.cores.uart import RS232PHYRX, UARTPads
    top = Module()
    pads = UARTPads()
    pads.rx.reset = 1            # the line idles high (also before the first sample)
    rx = RS232PHYRX(pads, tuning_word(spec["pn"], spec["pd"], spec["rs"]))
    top.submodules.rx = rx
    ghost = Signal(16)           # the environment's choice at a frame start (not connected to the DUT)
    return top, [pads.rx, ghost], [rx.source.valid, rx.source.data]


def _uartphy(spec):
    """the RS232PHY wrapper as a SoC instantiates it (clock frequency and baud rate -> tuning word, with
    dyn = 1 the tuning word comes out of the CSR, left at its reset value); dir selects the half
    that is exercised, the interface is the one of _uarttx / _uartrx"""
    from litex.soc.cores.uart import RS232PHY, UARTPads
    top = Module()
    pads = UARTPads()
    pads.rx.reset = 1
    phy = RS232PHY(pads, clk_freq=spec["clk"], baudrate=spec["baud"], with_dynamic_baudrate=bool(spec["dyn"]))
    top.submodules.phy = phy
    if spec["dyn"]:
        assert _names(phy) == ["tuning_word"]
        top.submodules.bank = csr_bus.CSRBank(phy.get_csrs(), address=0,
                                              bus=csr_bus.Interface(data_width=32, address_width=14))
    if spec["dir"] == "tx":
        return top, [phy.sink.valid, phy.sink.data], [phy.sink.ready, pads.tx]
    ghost = Signal(16)
    return top, [pads.rx, ghost], [phy.source.valid, phy.source.data]


class UartHint:
    """speculation hint (GraphLoop._speculate): mirrors the environments of Uart.tla so that the
    harness follows a frame to its end without asking TLC after every cycle.  Accelerator only:
    verdicts never depend on it (a wrong hint costs extra TLC rounds).
    ctx (tx) = byte on offer or -1;  ctx (rx) = (frame or None, hi) with frame = (levels, e, stop):
    levels = the line level of every cycle of the frame."""
    def __init__(self):
        self._lv = {}

    def init(self, cfg):
        return -1 if cfg["kind"] == "tx" else (None, -2)

    def _levels(self, cfg, byte, stop, phi):
        key = (cfg["tn"], cfg["td"], byte, stop, phi)
        lv = self._lv.get(key)
        if lv is None:
            tb = [(k * cfg["tn"] - phi + cfg["td"] - 1) // cfg["td"] for k in range(11)]
            lv = []
            for k in range(10):
                bit = 0 if k == 0 else stop if k == 9 else (byte >> (k - 1)) & 1
                lv += [bit] * (tb[k + 1] - tb[k])
            lv = self._lv[key] = tuple(lv)
        return lv

    def allowed(self, cfg, ctx, iv):
        if cfg["kind"] == "tx":
            return ctx < 0 or (iv[0] == 1 and iv[1] == ctx)
        t, hi = ctx
        if iv[1] > 0:                       # a frame start
            if iv[0] != 0:
                return False
            if t is None:
                return hi >= 1
            return t[2] == 1 and t[1] + 1 >= len(t[0])
        if t is None:
            return iv[0] == 1
        lv, e, stop = t
        if e + 1 < len(lv):
            return iv[0] == lv[e + 1]
        return iv[0] == 1

    def next(self, cfg, ctx, iv, o):
        if cfg["kind"] == "tx":
            return -1 if o[0] == 1 else (iv[1] if iv[0] == 1 else ctx)
        t, hi = ctx
        nhi = min(hi + 1, 1) if iv[0] == 1 else 0
        if iv[1] > 0:
            g = iv[1] - 1
            nb = len(cfg["bytes"])
            stop = (g // nb) % 2
            return ((self._levels(cfg, cfg["bytes"][g % nb], stop, cfg["phis"][g // (2 * nb)]), 0, stop), nhi)
        if t is None:
            return (None, nhi)
        lv, e, stop = t
        if e + 1 < len(lv):
            return ((lv, e + 1, stop), nhi)
        return (None, nhi)


# ------------------------------------------------------------------------------------- SPI
def _spim(spec):
    from litex.soc.cores.spi.spi_master import SPIMaster
    top = Module()
    spi = SPIMaster(None, data_width=spec["dw"], sys_clk_freq=spec["div"], spi_clk_freq=1, with_csr=False,
                    mode=spec["mode"])
    top.submodules.spi = spi
    start, length, mosi = Signal(), Signal(8), Signal(spec["dw"])
    cs, cs_mode, miso = Signal(), Signal(), Signal()
    top.comb += [spi.start.eq(start), spi.length.eq(length), spi.mosi.eq(mosi), spi.cs.eq(cs),
                 spi.cs_mode.eq(cs_mode), spi.loopback.eq(spec["loop"]), spi.pads.miso.eq(miso)]
    outs = [spi.done, spi.irq, spi.miso, spi.pads.clk, spi.pads.cs_n, spi.pads.mosi]
    return top, [start, length, mosi, cs, cs_mode, miso], outs


def _spis(spec):
    from litex.soc.cores.spi.spi_slave import SPISlave
    top = Module()
    spi = SPISlave(None, data_width=spec["dw"])
    top.submodules.spi = spi
    clk, cs_n, mosi, txw, ghost = Signal(), Signal(reset=1), Signal(), Signal(spec["dw"]), Signal(16)
    top.comb += [spi.pads.clk.eq(clk), spi.pads.cs_n.eq(cs_n), spi.pads.mosi.eq(mosi), spi.miso.eq(txw),
                 spi.loopback.eq(0)]
    outs = [spi.start, spi.length, spi.done, spi.irq, spi.mosi, spi.pads.miso]
    return top, [clk, cs_n, mosi, txw, ghost], outs


class SpiSlaveHint:
    """speculation hint for the SPI slave: mirrors the master of SpiSlave.tla (a transfer is a fixed
    waveform once its code is chosen).  ctx = (waveform or None, position, idle count, report owed)"""
    def __init__(self):
        self._wf = {}

    def init(self, cfg):
        return (None, 0, 0, 0)

    def _wave(self, cfg, g, txw):
        key = (cfg["h"], cfg["dw"], tuple(cfg["lens"]), tuple(cfg["words"]), g, txw)
        wf = self._wf.get(key)
        if wf is None:
            nl = len(cfg["lens"])
            nc = nl * len(cfg["words"])
            csn = 1 if g > nc else 0            # codes above the own ones: the master talks to another slave
            L = cfg["lens"][((g - 1) % nc) % nl]
            X = cfg["words"][((g - 1) % nc) // nl]
            h, dw = cfg["h"], cfg["dw"]
            wf = []
            for p in range(h + 2 * h * L):
                if p < h:
                    clk, bit = 0, 1
                else:
                    j = (p - h) // h
                    clk = 1 if j % 2 == 0 else 0
                    bit = min((p - h) // (2 * h) + 1 + (1 if j % 2 == 1 else 0), L)
                wf.append((clk, csn, (X >> (dw - bit)) & 1 if bit <= dw else 0, txw, g if p == 0 else 0))
            wf = self._wf[key] = tuple(wf)
        return wf

    def allowed(self, cfg, ctx, iv):
        wf, p, idle, owed = ctx
        iv = tuple(iv)
        if wf is None:
            if iv[4] == 0:
                return iv == (0, 1, 0, 0, 0)
            nc = len(cfg["lens"]) * len(cfg["words"])
            if iv[4] > nc and cfg.get("other") != 1:
                return False
            return idle >= cfg["gap"] and not owed and iv[0] == 0 and iv[1] == (1 if iv[4] > nc else 0)
        if p + 1 < len(wf):
            return iv == wf[p + 1]
        return iv == (0, 1, 0, 0, 0)

    def next(self, cfg, ctx, iv, o):
        wf, p, idle, owed = ctx
        nidle = min(idle + 1, cfg["gap"]) if iv[1] == 1 else 0
        if iv[4] > 0:
            return (self._wave(cfg, iv[4], iv[3]), 0, nidle, 0)
        if wf is None:
            return (None, 0, nidle, 0 if (o[3] == 1 or owed == 0 or owed > 4) else owed + 1)
        if p + 1 < len(wf):
            return (wf, p + 1, nidle, 0)
        return (None, 0, nidle, 0 if (o[3] == 1 or wf[0][1] == 1) else 1)


class SpiHint:
    """speculation hint for the SPI master: software holds its command during a transfer and the
    chip-select setting while busy (SpiMaster.tla Inputs); a miso level that breaks the slave rule
    (Consistent) leads to the dead context, from which nothing is speculated."""
    DEAD = "dead"

    def init(self, cfg):
        return (0, 0, 0, 1, 0, 0, 1, 0)     # busy, len, word, cs, cs_mode, pclk, pcsn, pmiso

    def allowed(self, cfg, ctx, iv):
        if ctx == self.DEAD:
            return False
        busy, hl, hw, cs, csm = ctx[:5]
        if not busy:
            if iv[0] == 0:
                return iv[1] == 0 and iv[2] == 0
            return iv[3] == cs and iv[4] == csm
        if iv[3] != cs or iv[4] != csm:
            return False
        if iv[2] != hw and not (cfg.get("mosichg") == 1 and iv[0] == 0 and iv[2] in cfg["words"]):
            return False
        if iv[0] == 0:
            return iv[1] == hl
        return cfg["overlap"] == 2 or (cfg["overlap"] == 1 and iv[1] == hl)

    def next(self, cfg, ctx, iv, o):
        busy, hl, hw, cs, csm, pclk, pcsn, pmiso = ctx
        clk, csn, miso = o[3], o[4], iv[5]
        if csn == 1:
            if miso != cfg["idle"]:
                return self.DEAD
        elif miso != pmiso and not ((clk == 0 and pclk == 1) or pcsn == 1):
            return self.DEAD
        pins = (clk, csn, miso)
        if not busy:
            if iv[0] == 1:
                return (1, iv[1], iv[2], cs, csm) + pins
            return (0, 0, 0, iv[3], iv[4]) + pins
        if o[1] == 1:
            return (0, 0, 0, cs, csm) + pins
        return (1, iv[1] if iv[0] == 1 else hl, iv[2], cs, csm) + pins


def _i2c(spec):
    """I2CMaster with its Tristate specials replaced by an open-drain bus model: the master pulls a
    line low through oe (o is constant 0), the slave pulls SDA low through `sl`, pull-ups otherwise.
    Returns the fragment (the stepper elaborates fragments as well as modules)."""
    from litex.soc.cores.i2c import I2CMaster
    from migen.fhdl.specials import Tristate

    class _Pads:
        def __init__(self):
            self.scl = Signal(name="pad_scl")
            self.sda = Signal(name="pad_sda")
    top = Module()
    dut = I2CMaster(_Pads())
    top.submodules.dut = dut
    # clock generator reload value as if software had written the config register
    dut.i2c.cg.load.reset = Constant(spec["load"], 20)
    # req: 1 = write, 2 = read of the xfer register (data = what the master leaves on its write data lines)
    req, data, sl, ghost = Signal(2), Signal(13), Signal(reset=1), Signal(8)
    bus = dut.bus
    top.comb += [bus.cyc.eq(req != 0), bus.stb.eq(req != 0), bus.we.eq(req == 1), bus.adr.eq(0), bus.dat_w.eq(data),
                 bus.sel.eq(0xf)]
    frag = top.get_fragment()
    tri = [x for x in frag.specials if isinstance(x, Tristate)]
    assert len(tri) == 2
    for t in tri:
        frag.specials.remove(t)
        ext = sl if t.oe is dut.sda_t.oe else Constant(1)
        frag.comb += [t.i.eq(Mux(t.oe, t.o, ext)), t.target.eq(Mux(t.oe, t.o, ext))]
    outs = [bus.ack, dut.scl_t.oe, dut.sda_t.oe, dut.i2c.data, dut.i2c.ack, dut.i2c.idle, bus.dat_r[:14]]
    return frag, [req, data, sl, ghost], outs


class I2cHint:
    """speculation hint for the I2C master: mirrors the hold rule of the Wishbone write, the transaction
    grammar and the slave's SDA rule of I2c.tla (a level that breaks it leads to the dead context).
    ctx = (wb, cmd, pscl, done, bus) with wb = None or (word, g, is a read), cmd = None or (kind, d, a, r)"""
    DEAD = "dead"
    JUNK = 2048 + 4096 + 1024 + 512 + 60

    def init(self, cfg):
        return (None, None, 1, 2, "free")

    @staticmethod
    def _kind(w):
        return "start" if w & 2048 else "stop" if w & 4096 else "write" if w & 1024 else "read"

    def allowed(self, cfg, ctx, iv):
        if ctx == self.DEAD:
            return False
        wb, cmd, pscl, done, bus = ctx
        if wb is not None:
            return iv[0] == (2 if wb[2] else 1) and (iv[1], iv[3]) == wb[:2]
        if iv[0] == 0:
            return iv[1] == 0 and iv[3] == 0
        if iv[0] == 2:
            return cfg.get("poll") == 1 and iv[1] == self.JUNK and iv[3] == 0
        if cmd is None:
            k = self._kind(iv[1])
            # incl. the condition commands with nothing to do (I2c.tla "nop"): STOP without an open byte
            # phase, START straight after a START
            ok = k in ("start", "stop") if bus == "free" else k in ("write", "stop", "start") if bus == "start" else True
            return done >= 1 and ok and k in cfg["cmds"]
        return cfg["early"] == 1 and cmd[0] == "write" and iv[1] == 1024 + cfg["bytes"][0] and iv[3] == 1

    def next(self, cfg, ctx, iv, o):
        wb, cmd, pscl, done, bus = ctx
        scl = 1 - o[1]
        lvl = 1
        if cmd is not None:
            kind, d, a, r = cmd
            r2 = r + (1 if scl == 1 and pscl == 0 else 0)
            if kind == "write":
                if (r2 == 8 and scl == 0) or (r2 == 9 and scl == 1):
                    lvl = a
            elif kind == "read":
                k = r2 + 1 if scl == 0 else r2
                if 1 <= k <= 8:
                    lvl = (d >> (8 - k)) & 1
            cmd = (kind, d, a, min(r2, 10))
        if iv[2] != lvl:
            return self.DEAD
        issue = wb is not None and not wb[2] and o[0] == 1 and cmd is None
        finish = cmd is not None and o[5] == 1
        if issue:
            w, g = wb[:2]
            kind = self._kind(w)
            if (kind == "stop" and bus != "low") or (kind == "start" and bus == "start"):
                kind = "nop"
            ncmd = (kind, cfg["sbytes"][g - 1] if kind == "read" else w & 255,
                    g - 1 if kind == "write" else (w >> 8) & 1, 0)
        elif cmd is None or finish:
            ncmd = None
        else:
            ncmd = cmd
        if finish:
            bus = "start" if cmd[0] == "start" else "free" if cmd[0] == "stop" else bus if cmd[0] == "nop" else "low"
        nwb = (None if o[0] == 1 else wb) if wb is not None else ((iv[1], iv[3], iv[0] == 2) if iv[0] >= 1 else None)
        ndone = 0 if (cmd is not None or issue) else min(done + 1, 2)
        return (nwb, ncmd, scl, ndone, bus)


MAKERS = {"timer": _timer, "wdt": _wdt, "wait": _wait, "tline": _tline, "pwm": _pwm,
          "uarttx": _uarttx, "uartrx": _uartrx, "uartphy": _uartphy, "spim": _spim, "spis": _spis, "i2c": _i2c}


def make(spec):
    return MAKERS[spec["core"]](spec)


# ------------------------------------------------------------------------------------- configurations
class _Cfgs:
    def __init__(self):
        self.L = []

    def add(self, spec, **cfg):
        cfg = dict(cfg)
        cfg["wi"] = len(self.L)
        cfg.setdefault("kind", spec["core"])
        self.L.append((spec, cfg))


def timer_configs(tier):
    """cfg flags understood by the check: solo = own TLC batch (expected to hit a known finding),
    live = 1: the liveness property is model-checked for this DUT (small products only)"""
    c = _Cfgs()
    q = tier == "quick"

    # Timer scenarios: (count) load/reload/en sequences, (latch) update_value, (event) pending/enable
    def timer(w, lv, rv, regs, period=0, **kw):
        wit = (["one-shot expired"] if max(lv) > 1 else []) + (["periodic reload"] if max(rv) > 1 else []) + \
              (["running count latched"] if 3 in regs else []) + (["event cleared"] if 6 in regs else [])
        c.add({"core": "timer", "w": w, "scen": "%s/%s/%s" % (lv, rv, regs), "period": period},
              w=w, lv=lv, rv=rv, regs=regs, period=period, wit=wit, **kw)
    timer(2, [0], [2, 3], [2], period=1, canary=1)
    timer(2, [0, 2], [0, 3], [2], live=1)
    timer(2, [0, 1, 2, 3], [0, 1, 2, 3], [2])
    timer(2, [3], [0, 2], [2, 3])
    timer(2, [0, 2], [0], [2, 6, 7])
    if not q:
        timer(3, [0, 5], [6], [2], period=1, canary=1)
        timer(3, [0, 1, 5, 7], [0, 1, 6, 7], [2], live=1)
        timer(3, [6], [0, 3], [2, 3])
        timer(2, [0, 3], [0, 2], [2, 3, 6, 7])

    # Watchdog scenarios; ctl = control words software writes (bit0 feed, 1 enable, 2 reset, 3 pause_halted)
    def wdt(w, rd, halt, vals, ctl, strict=0, **kw):
        c.add({"core": "wdt", "w": w, "rd": rd, "halt": halt, "scen": "%s/%s" % (vals, ctl), "strict": strict},
              w=w, rd=rd, halt=halt, vals=vals, ctl=ctl, strict=strict, **kw)
    W0 = ["watchdog timed out", "remaining saturated at zero", "fed while counting"]
    wdt(2, -1, 0, [2], [0, 1, 2], strict=1, canary=1, live=1, wit=W0)
    wdt(2, 0, 0, [2], [1, 6], strict=0, canary=1, wit=[])
    wdt(2, -1, 0, [0, 2, 3], [0, 1, 2, 3], wit=W0)
    wdt(2, 2, 0, [2], [1, 2, 6, 7], wit=W0 + ["reset asserted"])
    wdt(2, -1, 1, [2], [2, 3, 10, 11], wit=W0 + ["paused by halt"])
    if not q:
        wdt(3, -1, 0, [0, 5, 7], [0, 1, 2, 3], strict=1, followup=1, grp="w3", wit=W0)
        wdt(2, 1, 0, [2], [1, 2, 4, 6, 7], wit=W0 + ["reset asserted"])
        wdt(2, 3, 1, [2], [2, 6, 7, 14, 15], strict=1, followup=1, grp="w2", wit=W0 + ["reset asserted", "paused by halt"])
    for t in ([0, 1, 3] if q else [0, 1, 2, 3, 5, 8]):
        c.add({"core": "wait", "t": t}, t=t, live=1)
    for ev in ([[0, 2, 3], [1, 4]] if q else [[0, 2, 3], [1, 4], [0, 5], [2, 2, 6], [1], [7]]):
        c.add({"core": "tline", "ev": ev}, ev=ev, live=1)
    c.add({"core": "pwm"}, pmax=3 if q else 4, wmax=4 if q else 5, grp="pwm")
    c.add({"core": "pwm", "seed": 0xffffffff}, pmax=3, wmax=3, grp="pwm")
    return c.L


def uart_configs(tier):
    c = _Cfgs()
    q = tier == "quick"
    B16 = [0x00, 0xff, 0x55, 0xaa, 0x01, 0x80, 0x7f, 0xfe, 0xa6, 0x3c, 0x0f, 0xf0, 0x81, 0x18, 0xc5, 0x13]
    ALL = list(range(256))

    def tx(pn, pd, rs, bytes_, **kw):
        c.add({"core": "uarttx", "pn": pn, "pd": pd, "rs": rs, "nb": len(bytes_)}, kind="tx", pn=pn, pd=pd, rs=rs,
              bytes=bytes_, **kw)
    tx(2, 1, 0, B16, live=1)
    tx(3, 1, 1, B16, live=1)
    tx(3, 1, -1, B16)
    tx(4, 1, 0, B16)
    tx(5, 2, -1, B16)
    tx(5, 1, 1, B16 if q else ALL)
    if not q:
        tx(2, 1, 0, ALL)
        tx(5, 2, 1, ALL)
        tx(7, 2, -1, B16)
        tx(16, 3, 1, B16)
        tx(5, 1, -1, B16)

    # receiver programmed for n cycles per bit; transmitter bit period tn/td cycles, phases phis (in 1/td cycles)
    def rx(n, rs, tn, td, phis, bytes_, brk=1, **kw):
        c.add({"core": "uartrx", "pn": n, "pd": 1, "rs": rs, "t": "%d/%d" % (tn, td), "nb": len(bytes_), "np": len(phis)},
              kind="rx", pn=n, pd=1, rs=rs, tn=tn, td=td, phis=phis, bytes=bytes_, brk=brk, **kw)
    B6 = [0x00, 0xff, 0x55, 0xaa, 0x01, 0x80]
    from math import gcd

    def rxm(n, pct, bytes_, step=1, **kw):
        tn, td = n * pct, 100
        g = gcd(tn, td)
        tn, td = tn // g, td // g
        rx(n, 0 if n & (n - 1) == 0 else 1, tn, td, list(range(0, td, step)), bytes_, **kw)
    # exact rate: the sampling scheme (two-stage synchroniser + edge detect = 3 cycles after the start
    # edge, then half a bit) needs n >= 4; with +-2 % mismatch and any phase it needs n >= 8
    for n in ([4, 5, 8] if q else [4, 5, 6, 7, 8, 11, 16]):
        rx(n, 0 if n & (n - 1) == 0 else 1, n, 1, [0], B6, live=1 if n == 4 else 0)
    if q:
        rxm(8, 98, B6[:4], step=5, grp="rxm")
        rxm(8, 102, B6[:4], step=5, grp="rxm")
    else:
        for pct in (98, 102):
            rxm(8, pct, B6, grp="rxm8")
            rxm(10, pct, B6, grp="rxm10")
            rxm(16, pct, B6[:4], grp="rxm16")
        rxm(8, 99, B6[:4], grp="rxm8b")
        rxm(8, 101, B6[:4], grp="rxm8b")

    # the RS232PHY wrapper itself (clk_freq / baudrate -> tuning word = floor(2^32 * baud / clk), statically or as
    # the reset value of the tuning-word CSR), judged by the same contracts
    def phy(dir_, clk, baud, dyn, **cfg):
        c.add({"core": "uartphy", "dir": dir_, "clk": clk, "baud": baud, "dyn": dyn}, kind=dir_, pn=clk, pd=baud,
              rs=0 if (baud << 32) % clk == 0 else -1, **cfg)
    phy("tx", 5, 2, 1, bytes=B16)
    phy("tx", 4, 1, 0, bytes=B16[:8] if q else B16)
    phy("rx", 5, 1, 0, tn=5, td=1, phis=[0], bytes=B6, brk=1)
    phy("rx", 4, 1, 1, tn=4, td=1, phis=[0], bytes=B6[:4] if q else B6, brk=1)
    if not q:
        phy("tx", 3, 1, 1, bytes=B16)
        phy("tx", 16, 3, 0, bytes=B16)
        phy("rx", 8, 1, 1, tn=8, td=1, phis=[0], bytes=B6, brk=1)
        phy("rx", 8, 1, 0, tn=196, td=25, phis=list(range(0, 25, 3)), bytes=B6[:4], brk=1, grp="rxm8")
    return c.L


def spim_configs(tier):
    c = _Cfgs()
    q = tier == "quick"
    ALLW = list(range(16))
    W3 = (0b1010, 0b0110, 0b0001)

    def spim(div, mode="raw", loop=0, idle=0, lens=(1, 2, 3, 4), words=W3, csopts=((1, 0),),
             overlap=1, dw=4, pu=0, **kw):
        spec = {"core": "spim", "dw": dw, "div": div, "mode": mode, "loop": loop, "pu": pu,
                "scen": "%s/%s/%s/%d/%d" % (list(lens), len(words), [list(x) for x in csopts], overlap, idle)}
        if kw.get("mosichg"):
            spec["mosichg"] = kw["mosichg"]
        c.add(spec, kind="spim", dw=dw, mode=mode, loop=loop, idle=idle, lens=list(lens), words=list(words),
              csopts=[list(x) for x in csopts], overlap=overlap, pu=pu, **kw)
    WB = ["transfer completed", "back-to-back start", "mixed miso bits read back"]
    X3 = (0b101, 0b011, 0b100)
    # known findings, judged on tiny scenarios: cs_n low in the first cycle; a start with another length
    # written during a transfer
    spim(2, lens=(2,), words=(0b1010,), overlap=0, pu=1, canary=1, wit=["transfer completed"])
    spim(2, lens=(1, 3), words=(0b101,), overlap=2, dw=3, canary=1, wit=["start during a transfer"])
    # manual chip select, loopback, (quick: data width 3)
    spim(3, "raw", words=(0b10, 0b01), lens=(1, 2), csopts=((1, 0), (1, 1), (0, 0)), overlap=0, dw=2, grp="m",
         wit=WB + ["transfer under manual chip select"])
    spim(3, "aligned", words=X3[:2], lens=(1, 2, 3), dw=3, loop=1, overlap=0, wit=WB, live=1)
    spim(2, "raw", words=X3, lens=(1, 2, 3), dw=3)
    spim(3, "aligned", words=X3, lens=(1, 2, 3), dw=3, idle=1)
    # software writes the next word to the MOSI register while a transfer is in flight
    MC = WB + ["mosi register rewritten during a transfer", "read-back word held during the next transfer"]
    spim(2, "raw", words=(0b101, 0b010), lens=(2, 3), dw=3, overlap=0, mosichg=1, grp="mc", wit=MC)
    if q:
        spim(2, "aligned", words=(0b1010, 0b0110), grp="w4")
    else:
        spim(3, "aligned", words=X3, lens=(1, 2, 3), dw=3, overlap=1, mosichg=1, grp="mc", wit=MC + ["start during a transfer"])
        spim(4, "raw", words=(0b1010, 0b0101), lens=(3, 4), dw=4, overlap=0, mosichg=1, loop=1, grp="mc", wit=MC)
        spim(2, "aligned", words=X3, lens=(1, 2, 3), dw=3, idle=1)
        spim(3, "raw", words=X3, lens=(1, 2, 3), dw=3)
        spim(4, "raw", words=X3, lens=(1, 2, 3), dw=3, live=1)
        spim(5, "aligned", words=X3, lens=(1, 2, 3), dw=3, live=1)
        spim(2, "raw", words=X3[:2], lens=(1, 2, 3), csopts=((1, 0), (1, 1), (0, 0), (0, 1)), overlap=1, dw=3, grp="m3",
             wit=WB + ["transfer under manual chip select", "start during a transfer"])
        for div in (2, 3, 4, 5):
            spim(div, "raw", grp="w4r%d" % div)
            spim(div, "aligned", idle=div % 2, grp="w4a%d" % div)
        spim(3, "raw", words=ALLW, lens=(4,), overlap=0, grp="all", wit=WB)
        spim(2, "aligned", words=ALLW, lens=(3,), overlap=0, grp="all", wit=WB)
        spim(4, "raw", words=(0b1010, 0b0110), loop=1, grp="loop")
    return c.L


def spis_configs(tier):
    c = _Cfgs()
    q = tier == "quick"

    def spis(h, gap, dw=4, lens=(1, 2, 3, 4), words=(0b1010, 0b0110, 0b1111), txws=(0b1001, 0b0110), **kw):
        spec = {"core": "spis", "dw": dw, "h": h, "gap": gap, "scen": "%s/%d/%d" % (list(lens), len(words), len(txws))}
        if kw.get("other"):
            spec["other"] = kw["other"]
        c.add(spec, kind="spis", dw=dw, h=h, gap=gap, lens=list(lens), words=list(words), txws=list(txws), **kw)
    # shared bus: clock and mosi move for another slave while this one is deselected
    OW = ["transfer reported", "transfer after the minimum gap", "full word sent",
          "clock pulses for another slave after a received word"]
    spis(4, 3, dw=3, lens=(1, 3), words=(0b101, 0b010), txws=(0b110,), other=1, grp="o", wit=OW)
    if not q:
        spis(5, 3, dw=4, lens=(2, 4, 5), words=(0b1010, 0b0110), txws=(0b1001, 0b0110), other=1, grp="o", wit=OW)
    # the slave needs 3 cycles from a pin edge to its reaction (2-stage synchroniser + edge detect): half
    # periods below 4 sys cycles cannot work by design and are not claimed
    if q:
        spis(4, 3, words=(0b1010, 0b0110), live=1)
    else:
        spis(4, 3, live=1)
        spis(5, 3, words=(0b1010, 0b0101, 0b1000, 0b0001, 0b1111, 0b0000), txws=(0b1001, 0b0110, 0b1111, 0b0000))
        spis(6, 4)
        spis(4, 3, dw=3, lens=(1, 2, 3), words=tuple(range(8)), txws=(0b101, 0b010, 0b110))
        spis(4, 3, dw=2, lens=(1, 2, 3, 4), words=(0b10, 0b01), txws=(0b10, 0b01), wit=["transfer reported", "transfer after the minimum gap"])
    return c.L


def i2c_configs(tier):
    c = _Cfgs()
    q = tier == "quick"
    ALLC = ["start", "stop", "write", "read"]

    def i2c(load, cmds=ALLC, bytes_=(0xa5, 0x00), sbytes=(0x5a, 0xff), early=0, **kw):
        spec = {"core": "i2c", "load": load, "scen": "%s/%d/%d/%d" % ("".join(x[0] + x[2] for x in cmds), len(bytes_), len(sbytes), early)}
        if kw.get("poll"):
            spec["poll"] = kw["poll"]
        c.add(spec, kind="i2c", load=load, cmds=list(cmds), bytes=list(bytes_), sbytes=list(sbytes), early=early, **kw)
    # software polls the xfer register (Wishbone reads, a stale command word on the write data lines) at any time
    PW = ["byte written and acknowledged", "byte written, not acknowledged", "byte read", "stop", "repeated start",
          "register polled during a byte", "register polled while idle", "idle status with a data byte read"]
    # load = 0 (SCL toggling every cycle) cannot work by design: the pad logic changes SDA only after
    # SCL has been stable for a cycle; not claimed
    i2c(1, early=1, cmds=["start", "write"], bytes_=(0xa5,), canary=1, wit=["command written while busy"])
    i2c(1, bytes_=(0xa5,), sbytes=(0x5a,), poll=1, grp="p", wit=PW)
    if q:
        i2c(1, live=1)
    else:
        i2c(2, bytes_=(0x3c,), sbytes=(0xc3,), poll=1, grp="p", wit=PW)
        i2c(1, bytes_=(0xa5, 0x00, 0xff, 0x81), sbytes=(0x5a, 0xff, 0x00, 0x7e), live=1)
        i2c(2, live=1)
        i2c(3, bytes_=(0x5a, 0xff), sbytes=(0xa5, 0x01))
        i2c(5, bytes_=(0x3c,), sbytes=(0xc3,))
    return c.L


# ------------------------------------------------------------------------------------- T-mode
class TimersHint:
    """the Timers environments have no hold rules except PWM's one-field-per-cycle rule"""
    def init(self, cfg):
        return (0, 0, 0, 1) if cfg["kind"] == "pwm" else 0 if cfg["kind"] == "wait" else None

    def allowed(self, cfg, ctx, iv):
        if cfg["kind"] == "pwm":
            return sum(1 for a, b in zip(ctx, iv) if a != b) <= 1
        return True

    def next(self, cfg, ctx, iv, o):
        if cfg["kind"] == "wait":
            return ctx + 1              # cycle number (the T-mode driver drops `wait` at fixed cycles)
        return tuple(iv) if cfg["kind"] == "pwm" else None


def tmode_configs(tier):
    """realistic parameters for trace validation (T-mode): (family, spec, cfg, cycles)"""
    c = _Cfgs()
    q = tier == "quick"

    def add(fam_, cycles, spec, **cfg):
        c.add(spec, **cfg)
        c.L[-1] = (fam_,) + c.L[-1] + (cycles,)
    B = [0x00, 0xff, 0x55, 0xa6, 0x81, 0x7e, 0x13]
    # UART at 50 MHz: 115207 Bd (434 cycles/bit), 921659 Bd (54.25 cycles/bit), 1.85 MBd (27 cycles/bit)
    for pn, pd, rs in [(434, 1, 1), (217, 4, -1), (27, 1, -1)] + ([] if q else [(868, 1, 1), (109, 2, 1)]):
        add("uart", 12 * pn // pd * 3 + 200, {"core": "uarttx", "pn": pn, "pd": pd, "rs": rs}, kind="tx", pn=pn, pd=pd, rs=rs, bytes=B)
    for n, pct in [(434, 98), (434, 102), (27, 100)] + ([] if q else [(54, 98), (54, 102), (868, 101)]):
        from math import gcd
        tn, td = n * pct, 100
        g = gcd(tn, td)
        tn, td = tn // g, td // g
        add("uart", 12 * n * 3 + 300, {"core": "uartrx", "pn": n, "pd": 1, "rs": 0 if n & (n - 1) == 0 else 1},
            kind="rx", pn=n, pd=1, rs=0 if n & (n - 1) == 0 else 1, tn=tn, td=td, phis=list(range(0, td, max(1, td // 7))),
            bytes=B, brk=1)
    # timers at (almost) full width: TLC integers are 32 bit, so 30-bit counters
    add("timers", 2500, {"core": "timer", "w": 30}, kind="timer", w=30, lv=[1000, 0, 2**30 - 1, 37], rv=[0, 300, 77],
        regs=[2, 3, 6, 7], period=0)
    add("timers", 2500, {"core": "wdt", "w": 30, "rd": 50, "halt": 1}, kind="wdt", w=30, rd=50, halt=1, vals=[400, 90, 2**30 - 1],
        ctl=[1, 2, 3, 6, 7, 10, 11, 14, 15], strict=0)
    add("timers", 3200, {"core": "wait", "t": 1000}, kind="wait", t=1000)
    add("timers", 600, {"core": "tline", "ev": [0, 7, 19, 100]}, kind="tline", ev=[0, 7, 19, 100])
    add("timers", 1500, {"core": "pwm"}, kind="pwm", pmax=40, wmax=45)
    # SPI: 16-bit words, divider 10 / 7
    W16 = [0xa5c3, 0x0001, 0x8000, 0xffff, 0x1234]
    for div, mode, dw in [(10, "raw", 16), (7, "aligned", 16)] + ([] if q else [(2, "raw", 24), (33, "aligned", 8)]):
        add("spim", 3000, {"core": "spim", "dw": dw, "div": div, "mode": mode, "loop": 0, "pu": 0}, kind="spim", dw=dw, mode=mode,
            loop=0, idle=1, lens=[1, 7, 8, dw - 1, dw], words=[x % (1 << dw) for x in W16], csopts=[[1, 0], [1, 1], [0, 0]],
            overlap=1, pu=0)
    add("spis", 3000, {"core": "spis", "dw": 16, "h": 6, "gap": 3}, kind="spis", dw=16, h=6, gap=3, lens=[1, 8, 15, 16, 20],
        words=W16, txws=[0x5a3c, 0xffff, 0x8001])
    add("i2c", 4000, {"core": "i2c", "load": 9}, kind="i2c", load=9, cmds=["start", "stop", "write", "read"],
        bytes=[0xa0, 0xa1, 0x00, 0xff, 0x3c], sbytes=[0x5a, 0xff, 0x00, 0x81], early=0)
    if not q:
        add("i2c", 6000, {"core": "i2c", "load": 124}, kind="i2c", load=124, cmds=["start", "stop", "write", "read"],
            bytes=[0xa0, 0x55], sbytes=[0x5a, 0x81], early=0)
    return c.L


def tmode_candidates(cfg, ctx, rnd):
    """a few input vectors the environment of cfg["kind"] might apply now (filtered by the hint and
    judged by TLC's EnvLegal afterwards), most wanted first"""
    k = cfg["kind"]
    if k == "tx":
        if ctx >= 0:
            return [(1, ctx)]
        return [(1, rnd.choice(cfg["bytes"]))] if rnd.random() < 0.7 else [(0, 0)]
    if k == "rx":
        nb = len(cfg["bytes"])
        stop = 0 if rnd.random() < 0.25 else 1                 # one frame in four with a broken stop bit
        start = (0, 1 + rnd.randrange(nb) + nb * (stop + 2 * rnd.randrange(len(cfg["phis"]))))
        t = ctx[0]
        if t is not None and t[1] + 1 < len(t[0]):
            return [(t[0][t[1] + 1], 0)]
        return [start, (1, 0)] if rnd.random() < 0.3 else [(1, 0), start]
    if k == "timer":
        r = rnd.random()
        if r < 0.9:
            return [(0, 0, 0)]
        reg = rnd.choice([0, 1] + cfg["regs"])
        val = rnd.choice(cfg["lv"]) if reg == 0 else rnd.choice(cfg["rv"]) if reg == 1 else 1 if reg in (3, 6) else rnd.randint(0, 1)
        return [(1, reg, val)]
    if k == "wdt":
        h = 1 if rnd.random() < 0.2 else 0
        if rnd.random() < 0.96:
            return [(0, 0, 0, h)]
        reg = rnd.choice([0, 0, 0, 1, 4, 5])
        val = rnd.choice(cfg["ctl"]) if reg == 0 else rnd.choice(cfg["vals"]) if reg == 1 else 1 if reg == 4 else rnd.randint(0, 1)
        return [(1, reg, val, h)]
    if k == "wait":
        t = cfg["t"]
        return [(0,)] if ctx in (2, 2 + t // 2, 2 + t // 2 + 2 * t) else [(1,)]
    if k == "tline":
        return [(1,)] if rnd.random() < 0.05 else [(0,)]
    if k == "pwm":
        b = list(ctx)
        if rnd.random() < 0.02:
            f = rnd.randint(0, 3)
            b[f] = (1 - b[f]) if f < 2 else rnd.randint(0, cfg["wmax"]) if f == 2 else rnd.randint(1, cfg["pmax"])
        elif b[0] == 0 and rnd.random() < 0.3:
            b[0] = 1
        elif b[1] == 1 and rnd.random() < 0.3:
            b[1] = 0
        return [tuple(b), tuple(ctx)]
    if k == "spim":
        busy, hl, hw, cs, csm = ctx[:5]
        m = [rnd.randint(0, 1)]
        m.append(1 - m[0])
        if busy:
            s = 1 if rnd.random() < 0.05 else 0
            return [(s, hl, hw, cs, csm, b) for b in m] + [(0, hl, hw, cs, csm, b) for b in m]
        if rnd.random() < 0.2:
            L, W = rnd.choice(cfg["lens"]), rnd.choice(cfg["words"])
            return [(1, L, W, cs, csm, b) for b in m]
        q = rnd.choice(cfg["csopts"]) if rnd.random() < 0.05 else (cs, csm)
        return [(0, 0, 0, q[0], q[1], b) for b in m]
    if k == "spis":
        wf, p = ctx[0], ctx[1]
        if wf is not None and p + 1 < len(wf):
            return [wf[p + 1]]
        g = rnd.randint(1, len(cfg["lens"]) * len(cfg["words"]))
        X = cfg["words"][(g - 1) // len(cfg["lens"])]
        start = (0, 0, (X >> (cfg["dw"] - 1)) & 1, rnd.choice(cfg["txws"]), g)
        return [start, (0, 1, 0, 0, 0)] if rnd.random() < 0.3 else [(0, 1, 0, 0, 0), start]
    if k == "i2c":
        wb, cmd, pscl, done = ctx[:4]
        if wb is not None:
            return [(2 if wb[2] else 1, wb[0], b, wb[1]) for b in (1, 0)]
        out = [(0, 0, b, 0) for b in (1, 0)]
        if cmd is None and done >= 1 and rnd.random() < 0.5:
            words = []
            for kind in cfg["cmds"]:
                if kind == "start":
                    words.append((2048, 0))
                elif kind == "stop":
                    words.append((4096, 0))
                elif kind == "write":
                    words.append((1024 + rnd.choice(cfg["bytes"]), rnd.choice([1, 1, 2])))
                else:
                    words.append((512 + 256 * rnd.randint(0, 1), rnd.randint(1, len(cfg["sbytes"]))))
            rnd.shuffle(words)
            out = [(1, w, b, g) for w, g in words for b in (1, 0)] + out
        return out
    raise ValueError(k)
