"""DUT factory for the serial-peripheral / timer family (C19): real LiteX cores, the ones with
CSRs behind a real CSRBank on a 32-bit CSR bus (every register is one bus word).

make(spec) -> (top module, input signals, output expressions[, opts]); spec["core"] selects the core.
The TLA+ contracts (specs/periph/*.tla) document the meaning of every input/output tuple.
"""
from migen import Module, Signal, Cat, If, Constant, Mux, Record, Replicate
from migen.fhdl.specials import Tristate

from litex.soc.interconnect import csr_bus


# ------------------------------------------------------------------------------------- helpers
def _bank(top, core, datamap=None):
    """real CSRBank in front of `core`; returns (op, reg, data) input signals.  op 1 = write,
    2 = read.  `datamap(reg, data)` optionally spreads a compact data value over the 32-bit word."""
    bank = csr_bus.CSRBank(core.get_csrs(), address=0, bus=csr_bus.Interface(data_width=32, address_width=14))
    top.submodules += bank
    op, reg, data = Signal(2), Signal(4), Signal(16)
    top.comb += [bank.bus.adr.eq(reg), bank.bus.we.eq(op == 1), bank.bus.re.eq(op == 2)]
    if datamap is None:
        top.comb += bank.bus.dat_w.eq(data)
    else:
        top.comb += datamap(bank.bus.dat_w, reg, data)
    top.bank = bank
    return op, reg, data


def _names(core):
    return [c.name for c in core.get_csrs()]


# ------------------------------------------------------------------------------------- timers
def _timer(spec):
    from litex.soc.cores.timer import Timer
    top = Module()
    t = Timer(width=spec["w"])
    top.submodules.timer = t
    assert _names(t) == ["load", "reload", "en", "update_value", "value", "ev_status", "ev_pending", "ev_enable"]
    op, reg, data = _bank(top, t)
    outs = [t._load.storage, t._reload.storage, t._en.storage, t._value.status,
            t.ev.status.status, t.ev.pending.status, t.ev.enable.storage, t.ev.irq]
    return top, [op, reg, data], outs


def _wdt(spec):
    from litex.soc.cores.watchdog import Watchdog
    top = Module()
    rd = spec["rd"]
    crg_rst = Signal()
    halted = Signal()
    w = Watchdog(width=spec["w"], crg_rst=crg_rst if rd >= 0 else None, reset_delay=max(rd, 0),
                 halted=halted if spec["halt"] else None)
    top.submodules.wdt = w
    assert _names(w) == ["control", "cycles", "remaining", "ev_status", "ev_pending", "ev_enable"]

    def datamap(dat_w, reg, data):
        # compact control value: bit0 feed, bit1 enable, bit2 reset, bit3 pause_halted
        ctl = Cat(data[0], Constant(0, 7), data[1], Constant(0, 7), data[2], Constant(0, 7), data[3])
        return [dat_w.eq(Mux(reg == 0, ctl, data))]
    op, reg, data = _bank(top, w, datamap)
    st = w._control.storage
    outs = [w._cycles.storage, w._remaining.status, Cat(st[0], st[8], st[16], st[24]),
            w.ev.status.status, w.ev.pending.status, w.ev.enable.storage, w.ev.irq, crg_rst]
    return top, [op, reg, data, halted], outs


def _wait(spec):
    from litex.gen.genlib.misc import WaitTimer
    top = Module()
    wt = WaitTimer(spec["t"])
    top.submodules.wt = wt
    return top, [wt.wait], [wt.done]


def _tline(spec):
    from litex.gen.genlib.misc import timeline
    top = Module()
    trig = Signal()
    ev = spec["ev"]
    pulses = [Signal(name="p%d" % k) for k in range(len(ev))]
    top.sync += [p.eq(0) for p in pulses]
    top.sync += timeline(trig, [(e, [pulses[k].eq(1)]) for k, e in enumerate(ev)])
    return top, [trig], [Cat(*pulses)]


def _pwm(spec):
    from litex.soc.cores.pwm import PWM
    top = Module()
    p = PWM(with_csr=False)
    top.submodules.pwm = p
    en, rst = Signal(), Signal()
    width, period = Signal(32), Signal(32)
    top.comb += [p.enable.eq(en), p.reset.eq(rst), p.width.eq(width), p.period.eq(period)]
    opts = {}
    if spec.get("seed") is not None:
        # the period counter is reset_less: any power-up value is possible
        p.counter.reset = Constant(spec["seed"], 32)
    return top, [en, rst, width, period], [p.pwm], opts


# ------------------------------------------------------------------------------------- UART
def tuning_word(pn, pd, rs):
    """tuning word for a bit period of pn/pd cycles: (pd*2^32 + r)/pn with sign(r) = rs
    (rs = 0 requires an exact division), see specs/periph/Uart.tla"""
    num = pd << 32
    if rs == 0:
        assert num % pn == 0
        return num // pn
    if rs > 0:
        tw = -(-num // pn)
        if tw * pn == num:
            tw += 1
        return tw
    tw = num // pn
    if tw * pn == num:
        tw -= 1
    return tw


def _uarttx(spec):
    from litex.soc.cores.uart import RS232PHYTX, UARTPads
    top = Module()
    pads = UARTPads()
    tx = RS232PHYTX(pads, tuning_word(spec["pn"], spec["pd"], spec["rs"]))
    top.submodules.tx = tx
    return top, [tx.sink.valid, tx.sink.data], [tx.sink.ready, pads.tx]


def _uartrx(spec):
    from litex.soc.cores.uart import RS232PHYRX, UARTPads
    top = Module()
    pads = UARTPads()
    pads.rx.reset = 1            # the line idles high (also before the first sample)
    rx = RS232PHYRX(pads, tuning_word(spec["pn"], spec["pd"], spec["rs"]))
    top.submodules.rx = rx
    ghost = Signal(16)           # the environment's choice at a frame start (not connected to the DUT)
    return top, [pads.rx, ghost], [rx.source.valid, rx.source.data]


class UartHint:
    """speculation hint (GraphLoop._speculate): mirrors the environments of Uart.tla so that the
    harness follows a frame to its end without asking TLC after every cycle.  Accelerator only."""
    def init(self, cfg):
        return -1 if cfg["kind"] == "tx" else (None, -2)

    @staticmethod
    def _tb(cfg, phi, k):
        return (k * cfg["tn"] - phi + cfg["td"] - 1) // cfg["td"]

    @staticmethod
    def _bit(byte, stop, k):
        return 0 if k == 0 else stop if k == 9 else (byte >> (k - 1)) & 1

    def _rx_expected(self, cfg, ctx, iv):
        t, hi = ctx
        if t is None:
            return iv == (1, 0) or (iv[0] == 0 and iv[1] > 0 and hi >= 1)
        byte, stop, phi, e = t
        if e + 1 < self._tb(cfg, phi, 10):
            k = max(k for k in range(10) if self._tb(cfg, phi, k) <= e + 1)
            return iv == (self._bit(byte, stop, k), 0)
        return iv == (1, 0) or (stop == 1 and iv[0] == 0 and iv[1] > 0)

    def allowed(self, cfg, ctx, iv):
        iv = tuple(iv)
        if cfg["kind"] == "tx":
            return ctx < 0 or iv == (1, ctx)
        return self._rx_expected(cfg, ctx, iv)

    def next(self, cfg, ctx, iv, o):
        if cfg["kind"] == "tx":
            return -1 if o[0] == 1 else (iv[1] if iv[0] == 1 else ctx)
        t, hi = ctx
        nhi = min(hi + 1, 1) if iv[0] == 1 else 0
        if iv[1] > 0:
            g = iv[1] - 1
            nb = len(cfg["bytes"])
            return ((cfg["bytes"][g % nb], (g // nb) % 2, cfg["phis"][g // (2 * nb)], 0), nhi)
        if t is None:
            return (None, nhi)
        byte, stop, phi, e = t
        if e + 1 < self._tb(cfg, phi, 10):
            return ((byte, stop, phi, e + 1), nhi)
        return (None, nhi)


MAKERS = {"timer": _timer, "wdt": _wdt, "wait": _wait, "tline": _tline, "pwm": _pwm,
          "uarttx": _uarttx, "uartrx": _uartrx}


def make(spec):
    return MAKERS[spec["core"]](spec)


# ------------------------------------------------------------------------------------- configurations
class _Cfgs:
    def __init__(self):
        self.L = []

    def add(self, spec, **cfg):
        cfg = dict(cfg)
        cfg["wi"] = len(self.L)
        cfg.setdefault("kind", spec["core"])
        self.L.append((spec, cfg))


def timer_configs(tier):
    """cfg flags understood by the check: solo = own TLC batch (expected to hit a known finding),
    live = 1: the liveness property is model-checked for this DUT (small products only)"""
    c = _Cfgs()
    q = tier == "quick"

    # Timer scenarios: (count) load/reload/en sequences, (latch) update_value, (event) pending/enable
    def timer(w, lv, rv, regs, period=0, **kw):
        wit = (["one-shot expired"] if max(lv) > 1 else []) + (["periodic reload"] if max(rv) > 1 else []) + \
              (["running count latched"] if 3 in regs else []) + (["event cleared"] if 6 in regs else [])
        c.add({"core": "timer", "w": w, "scen": "%s/%s/%s" % (lv, rv, regs), "period": period},
              w=w, lv=lv, rv=rv, regs=regs, period=period, wit=wit, **kw)
    timer(2, [0], [2, 3], [2], period=1, canary=1)
    timer(2, [0, 2], [0, 3], [2], live=1)
    timer(2, [0, 1, 2, 3], [0, 1, 2, 3], [2])
    timer(2, [3], [0, 2], [2, 3])
    timer(2, [0, 2], [0], [2, 6, 7])
    if not q:
        timer(3, [0, 5], [6], [2], period=1, canary=1)
        timer(3, [0, 1, 5, 7], [0, 1, 6, 7], [2], live=1)
        timer(3, [6], [0, 3], [2, 3])
        timer(2, [0, 3], [0, 2], [2, 3, 6, 7])

    # Watchdog scenarios; ctl = control words software writes (bit0 feed, 1 enable, 2 reset, 3 pause_halted)
    def wdt(w, rd, halt, vals, ctl, strict=0, **kw):
        c.add({"core": "wdt", "w": w, "rd": rd, "halt": halt, "scen": "%s/%s" % (vals, ctl), "strict": strict},
              w=w, rd=rd, halt=halt, vals=vals, ctl=ctl, strict=strict, **kw)
    W0 = ["watchdog timed out", "remaining saturated at zero", "fed while counting"]
    wdt(2, -1, 0, [2], [0, 1, 2], strict=1, canary=1, live=1, wit=W0)
    wdt(2, 0, 0, [2], [1, 6], strict=0, canary=1, wit=[])
    wdt(2, -1, 0, [0, 2, 3], [0, 1, 2, 3], wit=W0)
    wdt(2, 2, 0, [2], [1, 2, 6, 7], wit=W0 + ["reset asserted"])
    wdt(2, -1, 1, [2], [2, 3, 10, 11], wit=W0 + ["paused by halt"])
    if not q:
        wdt(3, -1, 0, [0, 5, 7], [0, 1, 2, 3], strict=1, followup=1, grp="w3", wit=W0)
        wdt(2, 1, 0, [1], [1, 2, 4, 6, 7], wit=W0 + ["reset asserted"])
        wdt(2, 3, 1, [2], [2, 6, 7, 14, 15], strict=1, followup=1, grp="w2", wit=W0 + ["reset asserted", "paused by halt"])
    for t in ([0, 1, 3] if q else [0, 1, 2, 3, 5, 8]):
        c.add({"core": "wait", "t": t}, t=t, live=1)
    for ev in ([[0, 2, 3], [1, 4]] if q else [[0, 2, 3], [1, 4], [0, 5], [2, 2, 6], [1], [7]]):
        c.add({"core": "tline", "ev": ev}, ev=ev, live=1)
    c.add({"core": "pwm"}, pmax=3 if q else 4, wmax=4 if q else 5, grp="pwm")
    c.add({"core": "pwm", "seed": 0xffffffff}, pmax=3, wmax=3, grp="pwm")
    return c.L


def uart_configs(tier):
    c = _Cfgs()
    q = tier == "quick"
    B16 = [0x00, 0xff, 0x55, 0xaa, 0x01, 0x80, 0x7f, 0xfe, 0xa6, 0x3c, 0x0f, 0xf0, 0x81, 0x18, 0xc5, 0x13]
    ALL = list(range(256))

    def tx(pn, pd, rs, bytes_, **kw):
        c.add({"core": "uarttx", "pn": pn, "pd": pd, "rs": rs, "nb": len(bytes_)}, kind="tx", pn=pn, pd=pd, rs=rs,
              bytes=bytes_, **kw)
    tx(2, 1, 0, B16, live=1)
    tx(3, 1, 1, B16, live=1)
    tx(3, 1, -1, B16)
    tx(4, 1, 0, B16)
    tx(5, 2, -1, B16)
    tx(5, 1, 1, B16 if q else ALL)
    if not q:
        tx(2, 1, 0, ALL)
        tx(5, 2, 1, ALL)
        tx(7, 2, -1, B16)
        tx(16, 3, 1, B16)
        tx(5, 1, -1, B16)

    # receiver programmed for n cycles per bit; transmitter bit period tn/td cycles, phases phis (in 1/td cycles)
    def rx(n, rs, tn, td, phis, bytes_, brk=1, **kw):
        c.add({"core": "uartrx", "pn": n, "pd": 1, "rs": rs, "t": "%d/%d" % (tn, td), "nb": len(bytes_), "np": len(phis)},
              kind="rx", pn=n, pd=1, rs=rs, tn=tn, td=td, phis=phis, bytes=bytes_, brk=brk, **kw)
    B6 = [0x00, 0xff, 0x55, 0xaa, 0x01, 0x80]
    import os
    for n in [int(x) for x in os.environ.get("RXN", "4,5,6,8").split(",")]:
        rx(n, 0 if n & (n - 1) == 0 else 1, n, 1, [0], B6)
    from math import gcd
    for n in [int(x) for x in os.environ.get("RXM", "").split(",") if x]:
        for pct in (98, 102):
            tn, td = n * pct, 100
            g = gcd(tn, td)
            tn, td = tn // g, td // g
            rx(n, 0 if n & (n - 1) == 0 else 1, tn, td, list(range(td)), B6[:4], grp="rx%d" % n)
    return c.L
