"""C11 for AXI-Lite: real AXILiteInterconnectShared(1 master, 1 slave, timeout_cycles=T) with a faulty slave."""
from migen import Module, Signal, Constant, Mux

from litex.soc.interconnect.axi import axi_lite
from litex.soc.integration.soc import SoCRegion

AW = 8


def make(spec):
    wr = spec["dir"] == "w"
    top = Module()
    m = axi_lite.AXILiteInterface(data_width=32, address_width=AW)
    s = axi_lite.AXILiteInterface(data_width=32, address_width=AW)
    av, tgt, wv, rr = Signal(), Signal(2), Signal(), Signal()
    sa_, sw_, sr_ = Signal(), Signal(), Signal()
    addr = Mux(tgt == 1, 0x04, 0x84)          # slave region 0x00-0x3f, everything else unmapped
    ca, cw, hold = Signal(2), Signal(2), Signal()
    if wr:
        top.comb += [m.aw.valid.eq(av), m.aw.addr.eq(Mux(av, addr, 0)), m.w.valid.eq(wv), m.w.data.eq(1), m.w.strb.eq(0xf),
                     m.b.ready.eq(rr),
                     s.aw.ready.eq(sa_), s.w.ready.eq(sw_), s.b.resp.eq(1),
                     s.b.valid.eq(sr_ & (((ca != 0) & (cw != 0)) | hold))]
        afire, wfire = s.aw.valid & s.aw.ready, s.w.valid & s.w.ready
        rvalid, rready = s.b.valid, s.b.ready
    else:
        top.comb += [m.ar.valid.eq(av), m.ar.addr.eq(Mux(av, addr, 0)), m.r.ready.eq(rr),
                     s.ar.ready.eq(sa_), s.r.resp.eq(1), s.r.data.eq(1),
                     s.r.valid.eq(sr_ & ((ca != 0) | hold))]
        afire, wfire = s.ar.valid & s.ar.ready, Constant(0)
        rvalid, rready = s.r.valid, s.r.ready
    rfire = rvalid & rready
    top.sync += [ca.eq(ca + afire - rfire), hold.eq(rvalid & ~rready)]
    if wr:
        top.sync += cw.eq(cw + wfire - rfire)
    dec = SoCRegion(origin=0x00, size=0x40).decoder(m)
    ic = axi_lite.AXILiteInterconnectShared([m], [(dec, s)], timeout_cycles=spec["t"])
    top.submodules.ic = ic
    if wr:
        code = Mux(m.b.resp == 1, 1, Mux(m.b.resp == axi_lite.RESP_SLVERR, 2, 7))
        outs = [m.aw.ready, m.w.ready, m.b.valid, code, ic.timeout.error, s.aw.valid, s.w.valid, s.b.ready]
    else:
        code = Mux((m.r.resp == 1) & (m.r.data == 1), 1,
                   Mux((m.r.resp == axi_lite.RESP_SLVERR) & (m.r.data == 0xffffffff), 2, 7))
        outs = [m.ar.ready, Constant(0), m.r.valid, code, ic.timeout.error, s.ar.valid, Constant(0), s.r.ready]
    return top, [av, tgt, wv, rr, sa_, sw_, sr_], outs


def configs(tier):
    L = []
    for d in ("w", "r"):
        for t in ((2,) if tier == "quick" else (1, 2, 4)):
            L.append(({"dir": d, "t": t, "late": 0, "wsplit": 0, "partial": 0}, {"dir": d, "t": t, "slack": 3, "late": 0, "wsplit": 0, "partial": 0}))
    # the slave takes one half of a write (address without data or the reverse), keeps the READY of that half as it likes
    # and never completes the write: the time-out has to terminate the write all the same (no further request follows,
    # so the half-accepted-write finding below does not come into play)
    L.append(({"dir": "w", "t": 2, "late": 0, "wsplit": 0, "partial": 2}, {"dir": "w", "t": 2, "slack": 3, "late": 0, "wsplit": 0, "partial": 2}))
    if tier != "quick":
        L.append(({"dir": "w", "t": 4, "late": 0, "wsplit": 1, "partial": 2}, {"dir": "w", "t": 4, "slack": 3, "late": 0, "wsplit": 1, "partial": 2}))
    # demonstration of the listed finding: the slave accepts the request in the cycles in which the
    # interconnect is already terminating it
    L.append(({"dir": "r", "t": 2, "late": 1, "wsplit": 0, "partial": 0, "nofollowup": True}, {"dir": "r", "t": 2, "slack": 3, "late": 1, "wsplit": 0, "partial": 0}))
    # ... and: write data sent after its address has been force-accepted
    L.append(({"dir": "w", "t": 2, "late": 0, "wsplit": 1, "partial": 0, "nofollowup": True}, {"dir": "w", "t": 2, "slack": 3, "late": 0, "wsplit": 1, "partial": 0}))
    # ... and: the slave took one half of a write (data without address) before falling silent
    L.append(({"dir": "w", "t": 2, "late": 0, "wsplit": 0, "partial": 1, "nofollowup": True}, {"dir": "w", "t": 2, "slack": 3, "late": 0, "wsplit": 0, "partial": 1}))
    return L


class Hint:
    def init(self, cfg):
        return (0, 0)

    def allowed(self, cfg, ctx, iv):
        ah, wh = ctx
        if ah and (iv[0] != 1 or iv[1] != ah):
            return False
        if wh and iv[2] != 1:
            return False
        return True

    def next(self, cfg, ctx, iv, o):
        return (iv[1] if iv[0] == 1 and not o[0] else 0, 1 if iv[2] == 1 and not o[1] else 0)
