"""T-mode: batch validation of recorded traces against a TLA+ trace specification.

All traces of a batch are separate initial states of one TLC run (variable ``tid``), so a
JVM start is paid once per few thousand traces and ``-workers 16`` applies.  Verdicts are
total: every trace is either consumed to its end with all clauses true, or a clause is
named for it.  The run is accepted only if TLC's distinct-state count equals
sum(len(trace) + 1) - no trace silently stopped early.
"""
import json
import os
import shutil
import tempfile

from . import tlc as tlcmod
from .report import MachineryError


def validate(module, traces, invariants, env_invariants=("EnvLegal",), constants=None, timeout=1800,
             workers=16, lenkey="ev", envname="TRACES", extra_env=None, heap="8g"):
    """traces: list of JSON-able dicts, each with a list under `lenkey`.
    returns (failures, stats): failures = list of dict(tid (0-based), clause, l, vars)"""
    scratch = tempfile.mkdtemp(prefix="verif-t-", dir=os.environ.get("VERIF_SCRATCH", "/var/tmp"))
    try:
        path = os.path.join(scratch, "traces.json")
        with open(path, "w") as f:
            json.dump(traces, f, separators=(",", ":"))
        lines = ["INIT Init", "NEXT Next", "CHECK_DEADLOCK FALSE"]
        for k, v in (constants or {}).items():
            lines.append("CONSTANT %s = %s" % (k, v))
        for inv in list(env_invariants) + list(invariants):
            lines.append("INVARIANT %s" % inv)
        env = {envname: path}
        env.update(extra_env or {})
        res = tlcmod.run(module, "\n".join(lines) + "\n", env=env, timeout=timeout, scratch=scratch,
                         workers=workers, extra=("-continue",), heap=heap)
        if res.errors:
            raise MachineryError("TLC failed in trace validation: " + " | ".join(res.errors[:6]) + "\n" + res.out[-2000:])
        failures = []
        seen = set()
        for name, tr in res.all:
            if not tr:
                continue
            last = tr[-1]["vars"]
            tid = last.get("tid")
            key = (tid, name)
            if key in seen:
                continue
            seen.add(key)
            failures.append({"tid": tid - 1, "clause": name, "l": last.get("l"), "vars": last})
        for f in failures:
            if f["clause"] in env_invariants:
                raise MachineryError("harness drove a stimulus the environment specification forbids: trace %d step %s"
                                     % (f["tid"], f["l"]))
        expect = sum(len(t[lenkey]) + 1 for t in traces)
        if res.distinct != expect:
            raise MachineryError("trace validation consumed %d states, expected %d (a trace stopped early)"
                                 % (res.distinct, expect))
        return failures, {"states": res.distinct, "transitions": res.generated, "wall": res.wall}
    finally:
        shutil.rmtree(scratch, ignore_errors=True)
