"""T-mode: batch validation of recorded traces against a TLA+ trace specification.

All traces of a batch are separate initial states of one TLC run (variable ``tid``), so a
JVM start is paid once per few thousand traces and ``-workers 16`` applies.  Verdicts are
total: every trace is either consumed to its end with all clauses true, or a clause is
named for it.  The run is accepted only if TLC's distinct-state count equals
sum(len(trace) + 1) - no trace silently stopped early.
"""
import json
import os
import shutil
import tempfile

from . import tlc as tlcmod
from .report import MachineryError


def validate(module, traces, invariants, env_invariants=("EnvLegal",), constants=None, timeout=1800,
             workers=16, lenkey="ev", envname="TRACES", extra_env=None, heap="8g", max_failures=8):
    """traces: list of JSON-able dicts, each with a list under `lenkey`.
    returns (failures, stats): failures = list of dict(tid (0-based), clause, l, vars).
    TLC stops at the first violated clause; the failing trace is then set aside and the rest is
    validated again (at most max_failures times), so every failing trace is named but a monitor
    that stays false after its first failure cannot flood the output (as `-continue` would)."""
    scratch = tempfile.mkdtemp(prefix="verif-t-", dir=os.environ.get("VERIF_SCRATCH", "/var/tmp"))
    try:
        lines = ["INIT Init", "NEXT Next", "CHECK_DEADLOCK FALSE"]
        for k, v in (constants or {}).items():
            lines.append("CONSTANT %s = %s" % (k, v))
        for inv in list(env_invariants) + list(invariants):
            lines.append("INVARIANT %s" % inv)
        cfg = "\n".join(lines) + "\n"
        live = list(range(len(traces)))
        failures = []
        states = transitions = 0
        wall = 0.0
        while live:
            path = os.path.join(scratch, "traces.json")
            with open(path, "w") as f:
                json.dump([traces[i] for i in live], f, separators=(",", ":"))
            env = {envname: path}
            env.update(extra_env or {})
            res = tlcmod.run(module, cfg, env=env, timeout=timeout, scratch=scratch, workers=workers, heap=heap)
            wall += res.wall
            if res.errors:
                raise MachineryError("TLC failed in trace validation: " + " | ".join(res.errors[:6]) + "\n" + res.out[-2000:])
            if res.violated:
                last = res.trace[-1]["vars"] if res.trace else {}
                tid = last.get("tid")
                if not isinstance(tid, int):
                    raise MachineryError("trace validation: violation of %s without a parsable state" % res.violated)
                real = live[tid - 1]
                if res.violated in env_invariants:
                    raise MachineryError("harness drove a stimulus the environment specification forbids: "
                                         "trace %d step %s" % (real, last.get("l")))
                failures.append({"tid": real, "clause": res.violated, "l": last.get("l"), "vars": last})
                live = [i for i in live if i != real]
                if len(failures) >= max_failures:
                    break
                continue
            expect = sum(len(traces[i][lenkey]) + 1 for i in live)
            if res.distinct != expect:
                raise MachineryError("trace validation consumed %d states, expected %d (a trace stopped early)"
                                     % (res.distinct, expect))
            states += res.distinct
            transitions += res.generated
            break
        return failures, {"states": states, "transitions": transitions, "wall": wall}
    finally:
        shutil.rmtree(scratch, ignore_errors=True)
