"""Generic driver for G-mode families: batches of DUTs through GraphLoop, counterexample ->
linear replay on the reference evaluator -> T-mode re-judgement -> verdict (DESIGN.md 3.4)."""
import importlib
import json
import random
import time

from . import tlc as tlcmod
from . import tracecheck
from .graphloop import GraphLoop
from .report import MachineryError


def schedule_from_trace(res):
    """TLC error trace -> (prefix inputs, loop inputs or None).  The ALIAS of the graph
    module shows in every state the input `iv` of the step that leaves it."""
    ivs = []
    for st in res.trace:
        iv = st["vars"].get("iv")
        ivs.append(tuple(iv) if isinstance(iv, (tuple, list)) else None)
    if res.violated == "temporal" and res.back_to is not None:
        k = res.back_to                       # loop closes on state k (1-based)
        if any(x is None for x in ivs):
            raise MachineryError("lasso trace without inputs")
        return ivs[:k - 1], ivs[k - 1:]
    ivs = ivs[:-1]
    if any(x is None for x in ivs):
        raise MachineryError("error trace without inputs")
    return ivs, None


def linear_replay(factory_path, spec, schedule, shim=True, engine="ref", want_states=False):
    """execute an input schedule from the reset state on the real netlist with the
    repository's reference evaluator, without state loading. -> list of (iv, o)"""
    if shim:
        from . import py312_tracer
        py312_tracer.install()
    from .fhdl_step import Stepper
    mod, _, fn = factory_path.rpartition(":")
    make = getattr(importlib.import_module(mod), fn)
    made = make(spec)
    opts = made[3] if len(made) > 3 else {}
    st = Stepper(made[0], made[1], made[2], clocks=tuple(opts.get("clocks", ("sys",))), engine=engine)
    cdsel = opts.get("cds_from_input")
    strip = opts.get("strip_input", lambda x: x)
    ev = []
    states = []
    state = st.reset_state
    st.load(state, strip(tuple(schedule[0])) if schedule else tuple(0 for _ in st.inputs))
    for iv in schedule:
        iv = tuple(iv)
        states.append(st.state())
        # set inputs only (registers keep their value): this is a plain cycle-by-cycle run
        st.load(st.state(), strip(iv))
        o = st.peek()
        st.tick(cdsel(iv) if cdsel else None)
        ev.append([list(iv), list(o)])
    if want_states:
        return ev, states
    return ev


class GFamily:
    """description of one G-mode family check"""
    def __init__(self, graph_module, trace_module, factory_path, hint=None, spec_name="Spec",
                 trace_invariants=None, clause_map=None, shim=True, describe=None, fmt="record"):
        self.graph_module = graph_module
        self.trace_module = trace_module
        self.factory_path = factory_path
        self.hint = hint
        self.spec_name = spec_name
        # clause (G-mode invariant / property name) -> T-mode invariant name
        self.clause_map = clause_map or {}
        self.shim = shim
        self.fmt = fmt
        self.describe = describe or (lambda spec: json.dumps(spec, sort_keys=True))


def run_batches(fam, report, batches, invariants, properties, log=print, crosscheck_per_dut=40,
                stallbound_factor=1, max_violations_per_batch=6, tlc_timeout=3000, spec_budget=60000,
                heap="12g", followup=True, total_budget=900000, on_accept=None):
    """batches: list of lists of (spec, cfg).  Fills `report`.  Returns list of per-DUT stats."""
    all_stats = []
    queue = [(list(b), list(invariants), list(properties)) for b in batches]
    bi = 0
    while queue:
        batch, invariants, properties = queue.pop(0)
        bi += 1
        remaining = list(batch)
        nviol = 0
        while remaining:
            log("batch %d (%d more queued): %d DUT(s)" % (bi, len(queue), len(remaining)))
            gl = GraphLoop(fam.graph_module, fam.factory_path, remaining, invariants=invariants,
                           properties=properties, hint=fam.hint, spec_name=fam.spec_name, shim=fam.shim,
                           log=log, tlc_timeout=tlc_timeout, spec_budget=spec_budget, heap=heap,
                           total_budget=total_budget, fmt=fam.fmt)
            try:
                res = gl.run()
                st = gl.stats()
                if not res.violated:
                    n = gl.crosscheck(per_dut=crosscheck_per_dut, seed=report.seed)
                    report.add(reference_evaluator_crosschecks=n)
                    if on_accept is not None:
                        on_accept(gl)       # L2 lanes: the complete graphs are handed to the model conformance check
            finally:
                gl.close()
            report.add(states=res.distinct, transitions=res.generated, impl_states=st["impl_states"],
                       impl_edges=st["impl_edges"], graph_rounds=st["rounds"])
            if not res.violated:
                for g in gl.duts:
                    all_stats.append({"dut": fam.describe(g.spec), "impl_states": len(g.states),
                                      "impl_edges": g.nedges, "inputs": len(g.alphabet)})
                    if g.succ and g.succ[0]:
                        k = sorted(g.succ[0])[len(g.succ[0]) // 2]
                        report.sample({"dut": fam.describe(g.spec), "edge_from_reset": {"inputs": k,
                                       "outputs": list(g.succ[0][k][0]), "next_state": g.succ[0][k][1]}}, cap=6)
                break
            # ---- a clause failed for one DUT of the batch: confirm on the real code
            clause = res.violated
            d = res.trace[0]["vars"]["d"]
            spec, cfg = remaining[d - 1]
            prefix, loop = schedule_from_trace(res)
            if clause == "temporal":
                # unroll the loop until the real netlist provably cycles
                unroll = len(gl.duts[d - 1].states) + 2
                sched = list(prefix) + list(loop) * unroll
                bound = len(loop) * unroll
            else:
                sched = list(prefix)
                bound = 10**6
            ev = linear_replay(fam.factory_path, spec, sched, shim=fam.shim)
            tcfg = dict(cfg)
            tcfg["stallbound"] = max(1, bound)
            # TLC reports only the first violated invariant of a state: ask for the wanted clause(s) only
            if clause == "temporal":
                tinv = [fam.clause_map[p] for p in ([res.temporal_name] if res.temporal_name else properties)
                        if p in fam.clause_map]
            else:
                tinv = [fam.clause_map[clause]]
            fails, _ = tracecheck.validate(fam.trace_module, [{"cfg": tcfg, "ev": ev}], tinv)
            hit = [f for f in fails if f["clause"] in tinv]
            if not hit:
                raise MachineryError("counterexample to %s on %s does not reproduce in linear replay (got %r)"
                                     % (clause, fam.describe(spec), [f["clause"] for f in fails]))
            tclause = hit[0]["clause"]
            sig = {"dut": spec, "clause": tclause, "gclause": (res.temporal_name if clause == "temporal" else clause)}
            text = "%s violated by %s after %d cycles%s" % (
                tclause, fam.describe(spec), len(prefix),
                " (lasso, loop of %d cycles repeated forever)" % len(loop) if loop else "")
            new = report.violation(sig, {"family": fam.graph_module, "factory": fam.factory_path, "spec": spec,
                                   "cfg": tcfg, "schedule": [list(x) for x in sched[:2000]],
                                   "prefix_len": len(prefix), "loop_len": len(loop) if loop else 0,
                                   "trace_module": fam.trace_module, "trace_invariants": tinv,
                                   "observed": ev[:2000], "clause": tclause}, text)
            nviol += 1
            if not new and (followup or spec.get("followup")) and not spec.get("nofollowup"):
                # a listed known finding: the rest of this DUT's clauses are still explored,
                # in a follow-up run without the clause that is known to fail
                if clause == "temporal":
                    bad = res.temporal_name
                    queue.append(([(spec, cfg)], list(invariants), [p for p in properties if p != bad]))
                else:
                    queue.append(([(spec, cfg)], [i for i in invariants if i != clause], list(properties)))
            remaining = [x for i, x in enumerate(remaining) if i != d - 1]
            if nviol >= max_violations_per_batch:
                log("  too many violations in this batch; remaining DUTs of the batch skipped")
                break
    return all_stats


def replay_file(path, report=None):
    """re-execute a replay file; returns True if the violation reproduces"""
    with open(path) as f:
        r = json.load(f)
    ev = linear_replay(r["factory"], r["spec"], r["schedule"])
    try:
        fails, _ = tracecheck.validate(r["trace_module"], [{"cfg": r["cfg"], "ev": ev}], r["trace_invariants"])
    except MachineryError as ex:
        # on different code the recorded schedule may no longer be a legal environment behaviour
        return False, [{"clause": "schedule no longer legal for the environment: %s" % ex}]
    hit = [f for f in fails if f["clause"] == r["clause"]]
    return bool(hit), fails
