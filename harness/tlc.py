"""TLC runner and parser of TLC's textual output (values, error traces, PrintT lines)."""
import os
import re
import shutil
import subprocess
import tempfile
import time

SPECS = os.path.join(os.path.dirname(os.path.dirname(os.path.abspath(__file__))), "specs")
JAR = "/opt/veriftools/tla/tla2tools.jar:/opt/veriftools/tla/CommunityModules-deps.jar"


class TLCError(Exception):
    pass


# ------------------------------------------------------------------------- value parser
class _P:
    def __init__(self, s):
        self.s = s
        self.i = 0

    def ws(self):
        s = self.s
        while self.i < len(s) and s[self.i] in " \t\r\n":
            self.i += 1

    def peek(self, k=1):
        self.ws()
        return self.s[self.i:self.i + k]

    def eat(self, tok):
        self.ws()
        if not self.s.startswith(tok, self.i):
            raise ValueError("expected %r at %d in %r" % (tok, self.i, self.s[max(0, self.i - 20):self.i + 20]))
        self.i += len(tok)

    def value(self):
        self.ws()
        s = self.s
        c = s[self.i]
        if s.startswith("<<", self.i):
            self.i += 2
            out = []
            if self.peek(2) == ">>":
                self.i += 2
                return tuple(out)
            while True:
                out.append(self.value())
                if self.peek(2) == ">>":
                    self.i += 2
                    return tuple(out)
                self.eat(",")
        if c == "{":
            self.i += 1
            out = []
            if self.peek() == "}":
                self.i += 1
                return frozenset(out)
            while True:
                out.append(self.value())
                if self.peek() == "}":
                    self.i += 1
                    return frozenset(_hashable(x) for x in out)
                self.eat(",")
        if c == "[":
            self.i += 1
            rec = {}
            while True:
                self.ws()
                m = re.compile(r"[A-Za-z_][A-Za-z0-9_]*").match(s, self.i)
                name = m.group(0)
                self.i = m.end()
                self.eat("|->")
                rec[name] = self.value()
                if self.peek() == "]":
                    self.i += 1
                    return rec
                self.eat(",")
        if c == "(":
            # function  (a :> b @@ c :> d)
            self.i += 1
            fn = {}
            while True:
                k = self.value()
                self.eat(":>")
                fn[_hashable(k)] = self.value()
                if self.peek() == ")":
                    self.i += 1
                    return fn
                self.eat("@@")
        if c == '"':
            j = self.i + 1
            out = []
            while s[j] != '"':
                if s[j] == "\\":
                    j += 1
                out.append(s[j])
                j += 1
            self.i = j + 1
            return "".join(out)
        m = re.compile(r"-?\d+").match(s, self.i)
        if m:
            self.i = m.end()
            return int(m.group(0))
        m = re.compile(r"[A-Za-z_][A-Za-z0-9_]*").match(s, self.i)
        if m:
            self.i = m.end()
            w = m.group(0)
            if w == "TRUE":
                return True
            if w == "FALSE":
                return False
            return w
        raise ValueError("cannot parse value at %d: %r" % (self.i, s[self.i:self.i + 30]))


def _hashable(x):
    if isinstance(x, dict):
        return tuple(sorted((k, _hashable(v)) for k, v in x.items()))
    if isinstance(x, (list, tuple)):
        return tuple(_hashable(y) for y in x)
    return x


def parse_value(text):
    p = _P(text)
    v = p.value()
    p.ws()
    if p.i != len(p.s):
        raise ValueError("trailing text in value: %r" % text[p.i:p.i + 30])
    return v


def tla_value(x):
    """python -> TLA+ text (ints, bools, str, tuples/lists, dicts as records, sets)"""
    if isinstance(x, bool):
        return "TRUE" if x else "FALSE"
    if isinstance(x, int):
        return str(x)
    if isinstance(x, str):
        return '"' + x.replace("\\", "\\\\").replace('"', '\\"') + '"'
    if isinstance(x, (list, tuple)):
        return "<<" + ", ".join(tla_value(y) for y in x) + ">>"
    if isinstance(x, (set, frozenset)):
        return "{" + ", ".join(tla_value(y) for y in sorted(x, key=repr)) + "}"
    if isinstance(x, dict):
        if not x:
            raise ValueError("empty record")
        return "[" + ", ".join("%s |-> %s" % (k, tla_value(v)) for k, v in x.items()) + "]"
    raise TypeError(type(x))


def tuple_key(iv):
    """the string TLC's ToString produces for a tuple of ints"""
    return "<<" + ", ".join(str(int(x)) for x in iv) + ">>"


# ------------------------------------------------------------------------- result
class TLCResult:
    def __init__(self):
        self.rc = None
        self.out = ""
        self.generated = 0
        self.distinct = 0
        self.depth = 0
        self.violated = None        # name of violated invariant / "temporal" / "deadlock" / None
        self.trace = []             # states of the LAST reported trace: dict(n, action, args, vars)
        self.all = []               # every reported violation: (name, [states]) (useful with -continue)
        self.back_to = None         # lasso target state number
        self.temporal_name = None
        self.stuttering = False
        self.prints = []            # raw PrintT payload strings
        self.errors = []
        self.wall = 0.0
        self.coverage = {}

    @property
    def ok(self):
        return self.violated is None and not self.errors


_STATE_RE = re.compile(r"^State (\d+): <(.*)>\s*$")
_ACT_RE = re.compile(r"^([A-Za-z_][A-Za-z0-9_!]*)(?:\((.*)\))? line \d+, col \d+ to line \d+, col \d+ of module (\w+)$")


def _split_top(s):
    out, depth, cur = [], 0, []
    i = 0
    while i < len(s):
        two = s[i:i + 2]
        if two in ("<<", ">>"):
            depth += 1 if two == "<<" else -1
            cur.append(two)
            i += 2
            continue
        c = s[i]
        if c in "([{":
            depth += 1
        elif c in ")]}":
            depth -= 1
        if c == "," and depth == 0:
            out.append("".join(cur).strip())
            cur = []
        else:
            cur.append(c)
        i += 1
    if "".join(cur).strip():
        out.append("".join(cur).strip())
    return out


def parse_output(out, res):
    lines = out.splitlines()
    i = 0
    cur = None
    while i < len(lines):
        ln = lines[i]
        m = _STATE_RE.match(ln)
        if m:
            cur = {"n": int(m.group(1)), "action": m.group(2), "args": None, "vars": {}}
            am = _ACT_RE.match(m.group(2))
            if am:
                cur["action"] = am.group(1)
                if am.group(2) is not None:
                    try:
                        cur["args"] = [parse_value(a) for a in _split_top(am.group(2))]
                    except ValueError:
                        cur["args"] = am.group(2)
            if cur["n"] == 1:
                res.trace = []
                if res.all and res.all[-1][1] is None:
                    res.all[-1] = (res.all[-1][0], res.trace)
            res.trace.append(cur)
            # variable lines: "/\ x = value" possibly spanning several lines, or "x = value" (single var)
            i += 1
            buf = []
            while i < len(lines) and lines[i].strip() != "":
                buf.append(lines[i])
                i += 1
            txt = "\n".join(buf)
            parts = re.split(r"(?m)^/\\ ", txt)
            if len(parts) == 1:
                parts = [txt]
            for p in parts:
                p = p.strip()
                if not p:
                    continue
                k, _, val = p.partition(" = ")
                if not _:
                    k, _, val = p.partition("=")
                try:
                    cur["vars"][k.strip()] = parse_value(val.strip())
                except Exception:
                    cur["vars"][k.strip()] = val.strip()
            continue
        if ln.startswith("Error: Invariant ") and "violated by the initial state" in ln:
            # TLC prints the offending initial state without a "State 1:" header
            res.violated = ln.split()[2]
            j = i + 1
            buf = []
            while j < len(lines) and lines[j].strip() != "":
                buf.append(lines[j])
                j += 1
            st = {"n": 1, "action": "Initial predicate", "args": None, "vars": {}}
            for part in re.split(r"(?m)^/\\ ", "\n".join(buf)):
                part = part.strip()
                if not part:
                    continue
                k, sep, val = part.partition(" = ")
                try:
                    st["vars"][k.strip()] = parse_value(val.strip())
                except Exception:
                    st["vars"][k.strip()] = val.strip()
            res.trace = [st]
            res.all.append((res.violated, res.trace))
            i = j
            continue
        if ln.startswith("Error: Invariant "):
            res.violated = ln.split()[2]
            res.all.append((res.violated, None))
        elif ln.startswith("Error: Action property "):
            res.violated = ln.split()[3]
            res.all.append((res.violated, None))
        elif ln.startswith("Error: Temporal property "):
            res.violated = "temporal"
            res.temporal_name = ln.split()[3]
            res.all.append((res.violated, None))
        elif re.match(r"Error: Temporal properties .+ were violated", ln) and not ln.startswith("Error: Temporal properties were"):
            # "Temporal properties A and B were violated." (one lasso violates several PROPERTY lines)
            res.violated = "temporal"
            names = re.findall(r"[A-Za-z_][A-Za-z0-9_]*", ln[len("Error: Temporal properties "):ln.index(" were violated")])
            names = [n for n in names if n != "and"]
            res.temporal_name = names[0] if names else None
            res.temporal_names = names
            res.all.append((res.violated, None))
        elif ln.startswith("Error: Temporal properties were violated"):
            res.violated = "temporal"
            res.all.append((res.violated, None))
        elif ln.startswith("Error: Deadlock reached"):
            res.violated = "deadlock"
        elif ln.startswith("Error: The postcondition"):
            res.violated = "postcondition"
        elif ln.startswith("Error:") and "behavior up to this point" not in ln and \
                "following behavior constitutes a counter-example" not in ln:
            res.errors.append(ln)
            # capture following lines for context
            j = i + 1
            while j < len(lines) and j < i + 8 and lines[j].strip():
                res.errors.append(lines[j])
                j += 1
        elif ln.startswith("Back to state"):
            m2 = re.match(r"Back to state (\d+)(?:: <(.*)>)?", ln)
            res.back_to = int(m2.group(1))
            res.back_args = None
            if m2.group(2):
                am = _ACT_RE.match(m2.group(2))
                if am and am.group(2) is not None:
                    try:
                        res.back_args = [parse_value(a) for a in _split_top(am.group(2))]
                    except ValueError:
                        res.back_args = None
        elif "Stuttering" in ln and ln.startswith("State"):
            res.stuttering = True
        m = re.match(r"^(\d+) states generated, (\d+) distinct states found", ln)
        if m:
            res.generated = int(m.group(1))
            res.distinct = int(m.group(2))
        m = re.match(r"^The depth of the complete state graph search is (\d+)", ln)
        if m:
            res.depth = int(m.group(1))
        i += 1


def run(module, cfg_text, env=None, workers=16, timeout=1800, extra=(), scratch=None, heap="8g",
        include=(), keep=False, simulate=None):
    """run TLC on specs/<module>.tla (module may be 'dir/Name') with the given cfg text.
    PrintT payloads: any output line starting with '<<' or '"' outside error traces."""
    path = module if os.path.isabs(module) else os.path.join(SPECS, module)
    if not path.endswith(".tla"):
        path += ".tla"
    own = scratch is None
    scratch = scratch or tempfile.mkdtemp(prefix="verif-tlc-", dir=os.environ.get("VERIF_SCRATCH", "/var/tmp"))
    os.makedirs(scratch, exist_ok=True)
    wd = os.path.join(scratch, "w%d" % (time.time_ns() % 10**9))
    os.makedirs(wd)
    # copy the module and all modules of its directory and of specs/common
    for d in [os.path.dirname(path), os.path.join(SPECS, "common")] + list(include):
        if os.path.isdir(d):
            for f in os.listdir(d):
                if f.endswith(".tla") and not os.path.exists(os.path.join(wd, f)):
                    shutil.copy(os.path.join(d, f), os.path.join(wd, f))
    name = os.path.basename(path)[:-4]
    with open(os.path.join(wd, name + ".cfg"), "w") as f:
        f.write(cfg_text)
    # TLC unpacks its standard modules into java.io.tmpdir (one /tmp/tlc-* directory per run): keep that in the scratch
    cmd = ["java", "-XX:+UseParallelGC", "-XX:ParallelGCThreads=4", "-Xmx" + heap, "-Xss64m", "-Djava.io.tmpdir=" + wd,
           "-cp", JAR, "tlc2.TLC",
           "-workers", str(workers), "-metadir", os.path.join(wd, "meta"), "-noGenerateSpecTE",
           "-config", name + ".cfg"]
    if simulate:
        cmd += ["-simulate", simulate]
    cmd += list(extra) + [name + ".tla"]
    e = dict(os.environ)
    e.pop("JAVA_TOOL_OPTIONS", None)
    if env:
        e.update({k: str(v) for k, v in env.items()})
    res = TLCResult()
    t0 = time.time()
    try:
        p = subprocess.run(cmd, cwd=wd, env=e, stdout=subprocess.PIPE, stderr=subprocess.STDOUT,
                           timeout=timeout, text=True, errors="replace")
        res.rc = p.returncode
        res.out = p.stdout
    except subprocess.TimeoutExpired as ex:
        res.rc = -9
        res.out = (ex.stdout or b"").decode(errors="replace") if isinstance(ex.stdout, bytes) else (ex.stdout or "")
        res.errors.append("TLC timeout after %ds" % timeout)
    res.wall = time.time() - t0
    parse_output(res.out, res)
    if res.rc not in (0, 12, 13, 11, 10) and not res.errors and res.violated is None:
        res.errors.append("TLC exit code %s" % res.rc)
    res.wd = wd
    if not keep:
        shutil.rmtree(wd, ignore_errors=True)
        if own:
            shutil.rmtree(scratch, ignore_errors=True)
    return res


def print_lines(out, tag):
    """all PrintT'ed tuples whose first element is the string `tag` (bracket matched, so
    lines interleaved by several workers are still found)"""
    res = []
    pat = '<<"%s"' % tag
    i = 0
    while True:
        j = out.find(pat, i)
        if j < 0:
            break
        depth, k = 0, j
        while k < len(out):
            two = out[k:k + 2]
            if two == "<<":
                depth += 1
                k += 2
                continue
            if two == ">>":
                depth -= 1
                k += 2
                if depth == 0:
                    break
                continue
            if out[k] == '"':
                k += 1
                while out[k] != '"':
                    if out[k] == "\\":
                        k += 1
                    k += 1
            k += 1
        try:
            res.append(parse_value(out[j:k]))
        except Exception:
            pass
        i = k
    return res
