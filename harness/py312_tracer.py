"""Harness-side replacement for migen.fhdl.tracer.get_var_name (DESIGN.md 3.7).

Migen 0.9.2 only recognises pre-3.11 call opcodes, so on Python 3.12 every
``CSRStorage()`` / ``EventSourceProcess()`` without ``name=`` fails to elaborate.
This shim restores what older interpreters produced; it changes names only and never
touches /repo.  Install *before* importing litex.
"""
import dis
import inspect

_SKIP = ("LOAD_", "COPY", "BUILD_LIST", "CACHE", "PUSH_NULL", "EXTENDED_ARG", "NOP", "RESUME",
         "PRECALL", "KW_NAMES")
_STORE = ("STORE_NAME", "STORE_ATTR", "STORE_FAST", "STORE_DEREF", "STORE_GLOBAL")
_cache = {}


def _instrs(code):
    r = _cache.get(code)
    if r is None:
        ins = list(dis.get_instructions(code))
        r = (ins, {i.offset: k for k, i in enumerate(ins)})
        _cache[code] = r
    return r


def get_var_name(frame):
    code = frame.f_code
    ins, by_off = _instrs(code)
    k = by_off.get(frame.f_lasti)
    if k is None:
        return None
    if not ins[k].opname.startswith("CALL"):
        return None
    k += 1
    while k < len(ins):
        op = ins[k].opname
        if op in _STORE:
            return ins[k].argval
        if op.startswith(_SKIP):
            k += 1
            continue
        return None
    return None


def install():
    import migen.fhdl.tracer as tr
    if getattr(tr, "_verif_shim", False):
        return
    tr._verif_orig_get_var_name = tr.get_var_name
    tr.get_var_name = get_var_name
    tr._verif_shim = True


def uninstall():
    import migen.fhdl.tracer as tr
    if getattr(tr, "_verif_shim", False):
        tr.get_var_name = tr._verif_orig_get_var_name
        tr._verif_shim = False
