"""C11: a silent or absent slave cannot hang the bus (Wishbone part: G-mode with faulty slaves)."""
from ..gcheck import GFamily, run_batches
from ..families import wbic as wb
from . import wbicfam

WB_INVS = ["TerminatedInTime", "ErrorIndication", "NoDisturbance", "RoutedByAddress", "AnswerToIssuerOnly",
           "NoLostTermination"]
WB_PROPS = ["Recovers"]
from ..families import errcnt
from ..families import axilto
AXL_INVS = ["OffersTerminatedInTime", "NoDisturbance", "ErrorIndication", "SlaveResponsePassed",
            "AcceptedRequestsAnsweredInTime", "ResponseHold"]
AXL_CM = {k: k for k in AXL_INVS}
AXL_CM["Recovers"] = "BoundedService"
AXL = GFamily("axilto/AxiLiteTimeoutGraph", "axilto/AxiLiteTimeoutTrace", "harness.families.axilto:make", fmt="hash",
              hint=axilto.Hint(), clause_map=AXL_CM,
              describe=lambda s: "axi_lite.AXILiteInterconnectShared(1x1, timeout=%d, %s)" % (s["t"], "write" if s["dir"] == "w" else "read"))
ERRCNT = GFamily("errcnt/ErrCounterGraph", None, "harness.families.errcnt:make", fmt="hash",
                 describe=lambda s: "SoCController.bus_errors(%s)" % ("seeded 4 below saturation" if s["seeded"] else "from reset"))


def run(prop, report, tier, seed):
    cfgs = wb.configs(tier, "C11")
    report.assume("slaves may stay silent forever or answer at any time incl. the cycle the timer expires; "
                  "time-outs T=1..4 (the default 10^6 is the same netlist with a wider counter)")
    stats = run_batches(wbicfam.FAMILY, report, [cfgs[i:i + 5] for i in range(0, len(cfgs), 5)], WB_INVS, WB_PROPS,
                        spec_budget=300000)
    report.add(duts_explored=len(stats), clauses=WB_INVS + WB_PROPS, per_dut=stats)
    # AXI-Lite: shared interconnect with AXILiteTimeout and a faulty slave / unmapped address
    acfgs = axilto.configs(tier)
    astats = run_batches(AXL, report, [acfgs], AXL_INVS, ["Recovers"], spec_budget=300000)
    report.add(axilite_duts_explored=len(astats), axilite_clauses=AXL_INVS + ["Recovers"], per_dut=astats)
    # SoC bus-error counter: counts once per pulse, saturates (seeded near 2^32-1)
    from ..graphloop import GraphLoop
    from ..report import MachineryError
    gl = GraphLoop(ERRCNT.graph_module, ERRCNT.factory_path, errcnt.configs(tier),
                   invariants=["CountsEachPulseOnce", "SaturatesAtMax"], spec_name="Spec", spec_budget=40, total_budget=80, fmt="hash")
    try:
        res = gl.run()
        if res.violated:
            ivs = [tuple(st["vars"].get("iv", ())) for st in res.trace[:-1]]
            d = res.trace[0]["vars"]["d"]
            spec = errcnt.configs(tier)[d - 1][0]
            # the counter DUT is deterministic and tiny: replay linearly from its (seeded) start state
            report.violation({"dut": {"errcnt": spec}, "clause": res.violated},
                             {"family": ERRCNT.graph_module, "spec": spec, "schedule": [list(x) for x in ivs],
                              "clause": res.violated},
                             "%s violated by the SoC bus-error counter (%s) after %d cycles" % (
                                 res.violated, ERRCNT.describe(spec), len(ivs)))
        else:
            # witness: the seeded run must really reach saturation (otherwise the clause is vacuous)
            gl2 = GraphLoop(ERRCNT.graph_module, ERRCNT.factory_path, errcnt.configs(tier)[1:],
                            invariants=["ReachesSaturation"], spec_name=None, spec_budget=40, total_budget=80, fmt="hash")
            try:
                r2 = gl2.run()
            finally:
                gl2.close()
            if r2.violated != "ReachesSaturation":
                raise MachineryError("bus-error counter: saturation was never reached (vacuous run)")
            report.add(errcnt_states=res.distinct, states=res.distinct, transitions=res.generated)
    finally:
        gl.close()
    report.cov["exhaustive"] = True
