"""C11: a silent or absent slave cannot hang the bus (G-mode with faulty slaves: Wishbone, AXI-Lite, SoC error
counter; AXI4 (axi_full.py) in a child process beside them)."""
import os
import traceback

from .. import gcheck
from ..gcheck import GFamily, run_batches
from ..families import wbic as wb
from . import wbicfam

WB_INVS = ["TerminatedInTime", "ErrorIndication", "NoDisturbance", "RoutedByAddress", "AnswerToIssuerOnly",
           "NoLostTermination"]
WB_PROPS = ["Recovers"]
from ..families import errcnt
from ..families import axilto
AXL_INVS = ["OffersTerminatedInTime", "NoDisturbance", "ErrorIndication", "SlaveResponsePassed",
            "AcceptedRequestsAnsweredInTime", "ResponseHold"]
AXL_CM = {k: k for k in AXL_INVS}
AXL_CM["Recovers"] = "BoundedService"
AXL = GFamily("axilto/AxiLiteTimeoutGraph", "axilto/AxiLiteTimeoutTrace", "harness.families.axilto:make", fmt="hash",
              hint=axilto.Hint(), clause_map=AXL_CM,
              describe=lambda s: "axi_lite.AXILiteInterconnectShared(1x1, timeout=%d, %s)" % (s["t"], "write" if s["dir"] == "w" else "read"))
# AXI4 (full): AXIInterconnectShared with AXITimeout, judged by specs/axilto/AxiTimeoutContract.tla
from ..families import axito
AXI_INVS = ["OffersTerminatedInTime", "NoDisturbance", "ErrorIndication", "ErrorPulse", "ResponseOnlyToCompleteRequest",
            "SlaveResponsePassed", "AcceptedRequestsAnsweredInTime", "ResponseHold"]
AXI_CM = {k: k for k in AXI_INVS + ["ForcedResponseId"]}
AXI_CM["Recovers"] = "BoundedService"
AXI = GFamily("axilto/AxiTimeoutGraph", "axilto/AxiTimeoutTrace", "harness.families.axito:make", fmt="hash",
              hint=axito.Hint(), clause_map=AXI_CM, describe=axito.describe)
WB_NOTES = os.path.join(os.path.dirname(os.path.dirname(os.path.dirname(os.path.abspath(__file__)))), "notes",
                        "C11wb_findings.json")
AXI_NOTES = os.path.join(os.path.dirname(os.path.dirname(os.path.dirname(os.path.abspath(__file__)))), "notes",
                         "C11b_findings.json")


def axi_witnesses(cfg, edges):
    """counts, over the reachable edges of one DUT, of the situations the AXI4 time-out contract is about"""
    wr = cfg["dir"] == "w"
    w = dict.fromkeys(["error_pulse", "forced_response_accepted", "forced_response_stalled", "slave_response_accepted",
                       "forced_for_unmapped", "beat_without_last", "two_beat_burst_forced", "id1_request_forced"], 0)
    for iv, o in edges:
        mc, sc = iv
        av, tgt, ln, aid, wv, wl, rr = mc & 1, (mc >> 1) & 3, (mc >> 3) & 1, (mc >> 4) & 1, (mc >> 5) & 1, (mc >> 6) & 1, mc >> 7
        aready, wready, rvalid, rcode, rid, rlast, err = o[:7]
        srv = (sc >> 2) & 1
        w["error_pulse"] += err
        if rvalid and not srv:
            w["forced_response_accepted" if rr else "forced_response_stalled"] += 1
        if rvalid and srv and rr and rcode == 1:
            w["slave_response_accepted"] += 1
            w["beat_without_last"] += bool(not wr and not rlast)
        # a forced acceptance of the address: nobody on the slave side took it
        if av and aready and not (o[7] and sc & 1):
            w["forced_for_unmapped"] += tgt == 2
            w["two_beat_burst_forced"] += ln
            w["id1_request_forced"] += aid
        if wr and wv and wready and not wl:
            w["beat_without_last"] += 1
    return w


def _axi_lane(conn, prop, tier, seed, findings):
    from .axilicfam import _HarvestLoop
    from ..report import Report, MachineryError
    try:
        from .. import py312_tracer
        py312_tracer.install()
        gcheck.GraphLoop = _HarvestLoop
        rep = Report(prop, "%s-axi4" % tier, seed)
        rep.findings = findings
        log = lambda msg: print("[axi4] %s" % msg, flush=True)      # noqa
        main, demo = axito.configs(tier)
        # the faulty slave falls silent before accepting / answers what it accepted: every clause (the id of the forced
        # response included since the repair of AXITimeout, known_findings: C11-axi-timeout-forced-response-without-id)
        stats = run_batches(AXI, rep, [main], AXI_INVS + ["ForcedResponseId"], ["Recovers"], log=log, spec_budget=0, total_budget=0)
        nmain = len(stats)
        run_batches(AXI, rep, [[x] for x in demo], AXI_INVS, ["Recovers"], log=log, spec_budget=0, total_budget=0)
        per = []
        n = 0
        for spec, cfg, ev in _HarvestLoop.harvested:
            w = axi_witnesses(cfg, ev)
            per.append({"dut": axito.describe(spec), "witnesses": w})
            if spec.get("nofollowup"):
                continue
            n += 1
            zero = [k for k, v in w.items() if not v]
            if zero:
                raise MachineryError("vacuous AXI4 time-out run: %s never saw %s" % (axito.describe(spec), ", ".join(zero)))
        if not rep.violations and n != nmain:
            raise MachineryError("AXI4 time-out run: %d of %d main DUTs harvested" % (n, nmain))
        rep.add(axi4_duts_explored=nmain, axi4_clauses=AXI_INVS + ["ForcedResponseId", "Recovers"], axi4_per_dut=stats,
                axi4_witnesses=per)
        conn.send({"cov": rep.cov, "violations": rep.violations, "known_hit": rep.known_hit, "notes": rep.notes})
    except MachineryError as ex:
        conn.send({"error": "[axi4] %s" % ex})
    except Exception:
        conn.send({"error": "[axi4] %s" % traceback.format_exc()[-3000:]})
    finally:
        conn.close()


ERRCNT = GFamily("errcnt/ErrCounterGraph", None, "harness.families.errcnt:make", fmt="hash",
                 describe=lambda s: "SoCController.bus_errors(%s)" % ("seeded 4 below saturation" if s["seeded"] else "from reset"))


def run(prop, report, tier, seed):
    from .axilicfam import start_lane, join_lane, notes_findings
    report.findings = list(report.findings) + notes_findings(report.prop, AXI_NOTES)
    lane = None
    if os.environ.get("VERIF_NO_AXI4"):          # development aid (timing of the other parts alone); the evidence says so
        report.note("AXI4 batches skipped by VERIF_NO_AXI4")
    else:
        lane = start_lane(_axi_lane, (prop, tier, seed, report.findings))
    try:
        _run_rest(prop, report, tier, seed)
    except BaseException:
        if lane:
            lane[0].terminate()
        raise
    if lane:
        join_lane(report, lane, "axi4")
    report.cov["exhaustive"] = True


def _run_rest(prop, report, tier, seed):
    from .axilicfam import notes_findings
    if os.environ.get("VERIF_ONLY_AXI4"):      # development aid (mutation tests of axi_full.py); the evidence says so
        report.note("restricted to the AXI4 batches by VERIF_ONLY_AXI4")
        return
    cfgs = wb.configs(tier, "C11")
    report.findings = list(report.findings) + notes_findings(report.prop, WB_NOTES)
    wbicfam.run_canary(report, dict(kind="shared", n=2, m=1, map="contig", timeout=2, faulty=1, rw=0, errs=0, slack=2,
                                    canary="stuck_grant"), "Recovers")
    report.assume("slaves may stay silent forever or answer at any time incl. the cycle the timer expires; "
                  "time-outs T=1..4 (the default 10^6 is the same netlist with a wider counter)")
    report.assume("AXI4 (axi_full.py): one master, one slave region and an unmapped region, at most one burst of 1-2 beats "
                  "outstanding, ids from a 2-value set; main configurations: write data offered with its address and "
                  "without gaps, a slave that let the time-out expire stays silent for that request, takes a write "
                  "burst's address and first beat together, and answers what it has accepted within the time-out")
    l2s = wbicfam.l2_state()
    stats = run_batches(wbicfam.FAMILY, report, [cfgs[i:i + 5] for i in range(0, len(cfgs), 5)], WB_INVS, WB_PROPS,
                        spec_budget=300000, on_accept=wbicfam.l2_on_accept(l2s))
    report.add(duts_explored=len(stats), clauses=WB_INVS + WB_PROPS, per_dut=stats)
    # L2 lane of the Wishbone part (specs/wbic/WbIcModel.tla: Timeout/WaitTimer on the shared bus): conformance of the
    # graphs above and of random runs with time-outs up to 8, M-mode with faulty slaves beyond the G-mode sizes
    wbicfam.run_l2(prop, report, tier, seed, l2s, WB_INVS, WB_PROPS, gprop="C11")
    # AXI-Lite: shared interconnect with AXILiteTimeout and a faulty slave / unmapped address
    acfgs = axilto.configs(tier)
    # the demonstrations of listed findings run one by one (a batch is re-run without a DUT that hit a finding)
    abatches = [[c for c in acfgs if not c[0].get("nofollowup")]] + [[c] for c in acfgs if c[0].get("nofollowup")]
    astats = run_batches(AXL, report, abatches, AXL_INVS, ["Recovers"], spec_budget=4000)
    report.add(axilite_duts_explored=len(astats), axilite_clauses=AXL_INVS + ["Recovers"], per_dut=astats)
    # SoC bus-error counter: counts once per pulse, saturates (seeded near 2^32-1)
    from ..graphloop import GraphLoop
    from ..report import MachineryError
    gl = GraphLoop(ERRCNT.graph_module, ERRCNT.factory_path, errcnt.configs(tier),
                   invariants=["CountsEachPulseOnce", "SaturatesAtMax"], spec_name="Spec", spec_budget=40, total_budget=80, fmt="hash")
    try:
        res = gl.run()
        if res.violated:
            ivs = [tuple(st["vars"].get("iv", ())) for st in res.trace[:-1]]
            d = res.trace[0]["vars"]["d"]
            spec = errcnt.configs(tier)[d - 1][0]
            # the counter DUT is deterministic and tiny: replay linearly from its (seeded) start state
            report.violation({"dut": {"errcnt": spec}, "clause": res.violated},
                             {"family": ERRCNT.graph_module, "spec": spec, "schedule": [list(x) for x in ivs],
                              "clause": res.violated},
                             "%s violated by the SoC bus-error counter (%s) after %d cycles" % (
                                 res.violated, ERRCNT.describe(spec), len(ivs)))
        else:
            # witness: the seeded run must really reach saturation (otherwise the clause is vacuous)
            gl2 = GraphLoop(ERRCNT.graph_module, ERRCNT.factory_path, errcnt.configs(tier)[1:],
                            invariants=["ReachesSaturation"], spec_name=None, spec_budget=40, total_budget=80, fmt="hash")
            try:
                r2 = gl2.run()
            finally:
                gl2.close()
            if r2.violated != "ReachesSaturation":
                raise MachineryError("bus-error counter: saturation was never reached (vacuous run)")
            report.add(errcnt_states=res.distinct, states=res.distinct, transitions=res.generated)
    finally:
        gl.close()
    report.cov["exhaustive"] = True
