"""C13: SoC resource allocation never hands out overlapping or out-of-range resources.

R/T mode (DESIGN.md section 4, C13):
  1. TLC enumerates the call-history space from specs/socalloc/SocAlloc.tla (three families: bus
     regions, CSR/IRQ locations, platform resources; scenarios x configurations x alphabets x length).
  2. every history is performed on the REAL objects (harness/families/socalloc.py); a record is kept
     for every prefix (node of the prefix tree): call, outcome, projected state, finalize outcome,
     facts about the real SoCRegion.decoder expression evaluated with litex.gen.sim.core.Evaluator.
  3. TLC walks the recorded prefix tree with specs/socalloc/SocAllocTrace.tla: one INVARIANT per
     clause, evaluated at every node.  The failing clauses and their classes come from TLC
     (invariant violations + the BAD lines the specification prints); Python only groups them.
"""
import collections
import json
import multiprocessing
import os
import re
import shutil
import tempfile
import time
from concurrent.futures import ThreadPoolExecutor

from .. import tlc as tlcmod
from ..report import MachineryError
from ..families import socalloc as fam

GEN_MODULE = "socalloc/SocAlloc"
TRACE_MODULE = "socalloc/SocAllocTrace"
FAMILIES = ("bus", "loc", "plat")
INVARIANTS = ["Verdicts", "EnvLegal", "PairwiseDisjoint", "AlignedToDecodedSize", "InsideAddressSpace", "UncachedInsideIO",
              "CachedOutsideIO", "DecoderExact", "NoAddressSelectsTwo", "InterconnectDecoders", "LocUnique", "LocInRange", "NameUnique",
              "GrantCoversRequest", "ResourceGrantedOnce", "LookupOnlyMatched", "RejectedAtLatestAtFinalize"]
BATCH_NODES = 40000
NPROC = min(16, os.cpu_count() or 1)


def _scratch():
    return tempfile.mkdtemp(prefix="verif-c13-", dir=os.environ.get("VERIF_SCRATCH", "/var/tmp"))


def _tup(x):
    return tuple(_tup(y) for y in x) if isinstance(x, list) else x


# ----------------------------------------------------------------------------- 1. history space
_SPACE_RE = re.compile(r'<<"(\w+)", (\d+), (\d+), (\d+), (\d+)>>')


def enumerate_histories(family, tier, timeout, mode="x", num=0, seed=0):
    """mode "x": TLC enumerates every history of the exhaustive scenarios (BFS);
    mode "s": tlc -simulate draws `num` histories of the sampled scenarios with -seed.
    -> (dict (sid, cfg) -> list of histories, TLC result, number of histories, space description).
    Every value comes from TLC."""
    cfg = ('INIT Init\nNEXT Next\nCHECK_DEADLOCK FALSE\nCONSTANT Family = "%s"\nCONSTANT Tier = "%s"\n'
           'CONSTANT Mode = "%s"\n' % (family, tier, mode))
    if mode == "x":
        res = tlcmod.run(GEN_MODULE, cfg, workers=8, timeout=timeout, heap="12g")
    else:
        res = tlcmod.run(GEN_MODULE, cfg, workers=1, timeout=timeout, heap="4g", simulate="num=%d" % num,
                         extra=("-seed", str(int(seed) + 1), "-depth", "16"))
    if not res.ok:
        raise MachineryError("TLC failed to enumerate the %s history space: %s\n%s"
                             % (family, " | ".join(res.errors[:5]), res.out[-1500:]))
    groups = collections.defaultdict(set)
    calls = {}
    space = {}
    n = 0
    for line in res.out.splitlines():
        if line.startswith('"<<\\"SPACE\\"'):
            for sid, ncf, npre, nalpha, ln in _SPACE_RE.findall(json.loads(line)):
                space[sid] = {"cfgs": int(ncf), "prefixes": int(npre), "alphabet": int(nalpha), "length": int(ln),
                              "mode": "exhaustive" if mode == "x" else "sampled by tlc -simulate, seed %d" % (seed + 1)}
            continue
        if not line.startswith('"<<\\"H\\"'):
            continue
        v = json.loads(json.loads(line).replace("<<", "[").replace(">>", "]"))
        if v[1] != family:
            raise MachineryError("history of another family in the output")
        h = tuple(calls.setdefault(c, c) for c in (_tup(c) for c in v[4]))
        groups[(v[2], _tup(v[3]))].add(h)
        n += 1
    if n == 0:
        raise MachineryError("TLC printed no history for family %s mode %s" % (family, mode))
    return groups, res, n, space


# ----------------------------------------------------------------------------- 2. execution on the real code
_sent = set()


def _work(jobs):
    out = []
    for j in jobs:
        node = fam.visit(j)
        decs = node.pop("_decs", None)
        if decs:
            new = {k: v for k, v in decs.items() if k not in _sent}
            _sent.update(new)
            if new:
                node["_decs"] = list(new.items())
        out.append(node)
    return out


def explore(family, root, hists, pool, decs):
    """level-synchronous construction of the prefix tree of `hists` under configuration root.
    -> dict prefix -> node record (prefix () = the configuration node)"""
    sid, cfg = root
    terminal = fam.TERMINAL_ON_ERROR[family]
    nodes = {}
    level = [()]
    maxlen = max(len(h) for h in hists)
    d = 0
    while level:
        jobs = [(family, cfg, p) for p in level]
        chunk = max(1, min(200, len(jobs) // (NPROC * 4) + 1))
        parts = [jobs[i:i + chunk] for i in range(0, len(jobs), chunk)]
        results = pool.map(_work, parts) if pool is not None else [_work(p) for p in parts]
        alive = set()
        for part, recs in zip(parts, results):
            for (_, _, p), node in zip(part, recs):
                if node.get("broken_prefix"):
                    raise MachineryError("re-execution of an accepted prefix failed (non-deterministic allocator?): "
                                         "%r %r %r" % (root, p, node))
                for k, v in node.pop("_decs", ()):
                    decs[tuple(k)] = v
                nodes[p] = node
                if node["out"] != "HarnessHang" and (node["out"] == "ok" or not terminal):
                    alive.add(p)
        d += 1
        if d > maxlen:
            break
        nxt = set()
        for h in hists:
            if len(h) >= d and h[:d - 1] in alive:
                nxt.add(h[:d])
        level = sorted(nxt)
    return nodes


# ----------------------------------------------------------------------------- 3. judge
def _root_node(kids):
    return {"p": 0, "k": kids, "f": "root", "d": 0, "out": "ok", "fin": "n/a", "cf": 1,
            "call": {"op": "root", "nm": ""}}


def make_batches(family, trees, decs, limit=BATCH_NODES):
    """trees: list of (root, nodes dict).  -> list of batch dicts {doc, meta}; a batch holds the root,
    configuration nodes and complete subtrees of first calls."""
    units = []      # (root, [prefixes of one first-call subtree, sorted])
    for root, nodes in trees:
        by_first = collections.defaultdict(list)
        for p in nodes:
            if p:
                by_first[p[0]].append(p)
        if not by_first:
            units.append((root, []))
        for c in sorted(by_first):
            units.append((root, sorted(by_first[c])))
    treeof = dict((root, nodes) for root, nodes in trees)
    batches, cur, size = [], [], 0
    for u in units:
        if cur and size + len(u[1]) + 1 > limit:
            batches.append(cur)
            cur, size = [], 0
        cur.append(u)
        size += len(u[1]) + 1
    if cur:
        batches.append(cur)
    out = []
    for b in batches:
        doc_nodes = [_root_node([])]
        meta = [None]                       # per node: (root, prefix)
        cfgs, cfgidx = [], {}
        dec_tab, dec_idx = [], {}
        index = {}
        for root, prefixes in b:
            nodes = treeof[root]
            if root not in cfgidx:
                cfgs.append(fam.CFGREC[family](root[1]))
                cfgidx[root] = len(cfgs)
            if (root, ()) not in index:
                nd = dict(nodes[()])
                nd.update({"p": 1, "k": [], "cf": cfgidx[root], "f": "root"})
                doc_nodes.append(nd)
                meta.append((root, ()))
                index[(root, ())] = len(doc_nodes)
                doc_nodes[0]["k"].append(len(doc_nodes))
            for p in prefixes:
                nd = dict(nodes[p])
                par = index[(root, p[:-1])]
                nd.update({"p": par, "k": [], "cf": cfgidx[root]})
                doc_nodes.append(nd)
                meta.append((root, p))
                index[(root, p)] = len(doc_nodes)
                doc_nodes[par - 1]["k"].append(len(doc_nodes))
        # decoder table
        for nd in doc_nodes:
            if "regs" in nd:
                regs = []
                for r in nd["regs"]:
                    r = dict(r)
                    k = tuple(r["dec"])
                    if k not in dec_idx:
                        dec_tab.append([{"k": v["k"], "err": v["err"], "sel": v["sel"]} for v in decs[k]])
                        dec_idx[k] = len(dec_tab)
                    r["dec"] = dec_idx[k]
                    regs.append(r)
                nd["regs"] = regs
        if not dec_tab:
            dec_tab.append([{"k": 1, "err": True, "sel": []}])
        out.append({"doc": {"fam": family, "nodes": doc_nodes, "dec": dec_tab, "cfgs": cfgs}, "meta": meta})
    return out


_BAD_RE = re.compile(r'^<<"BAD", (\d+), \{(.*)\}>>$')
_PAIR_RE = re.compile(r'<<"(\w+)", "(\w+)">>')


def prepare(batch, scratch):
    """write the batch to disk and drop the document (keeps memory flat in the thorough tier)"""
    fd, path = tempfile.mkstemp(prefix="nodes-", suffix=".json", dir=scratch)
    with os.fdopen(fd, "w") as f:
        json.dump(batch["doc"], f, separators=(",", ":"))
    batch["path"] = path
    batch["nn"] = len(batch["doc"]["nodes"])
    batch["doc"] = None
    return batch


def judge(batch, timeout=1800, workers=4):
    """one TLC run over one prepared batch.  -> dict node index (1-based) -> set of (clause, class), stats"""
    scratch = _scratch()
    try:
        path = batch["path"]
        cfg = "INIT Init\nNEXT Next\nCHECK_DEADLOCK FALSE\n" + "".join("INVARIANT %s\n" % i for i in INVARIANTS)
        for attempt in range(3):
            res = tlcmod.run(TRACE_MODULE, cfg, env={"TRACES": path}, timeout=timeout, scratch=scratch, workers=workers,
                             extra=("-continue",), heap="8g")
            if res.rc not in (143, 137, 130, -15, -9) or any("timeout" in e for e in res.errors):
                break               # 143/137: the JVM was killed from outside (shared machine): run it again
        if res.errors:
            raise MachineryError("TLC failed while judging recorded histories: " + " | ".join(res.errors[:6])
                                 + "\n" + res.out[-2000:])
        nn = batch["nn"]
        if res.distinct != nn:
            raise MachineryError("the judge visited %d nodes, %d were recorded" % (res.distinct, nn))
        bad = {}
        for line in res.out.splitlines():
            if line.startswith('"<<\\"BAD\\"'):
                m = _BAD_RE.match(json.loads(line))
                if not m:
                    raise MachineryError("unparsable verdict line: " + line[:200])
                bad[int(m.group(1))] = set(_PAIR_RE.findall(m.group(2)))
        inv = collections.defaultdict(set)
        for name, tr in res.all:
            if not tr:
                continue
            inv[tr[-1]["vars"].get("n")].add(name)
        for i, names in inv.items():
            if "EnvLegal" in names:
                raise MachineryError("harness bookkeeping inconsistent at node %r (%r)" % (i, batch["meta"][i - 1]))
        if set(inv) != set(bad):
            raise MachineryError("invariant violations (%d nodes) and printed verdicts (%d nodes) disagree"
                                 % (len(inv), len(bad)))
        for i, names in inv.items():
            cl = {c for c, _ in bad[i]} | {"RejectedAtLatestAtFinalize"}
            if not names <= cl:
                raise MachineryError("violated invariant %r not among the printed verdicts %r" % (names, bad[i]))
        return bad, {"states": res.distinct, "transitions": res.generated, "wall": res.wall}
    finally:
        shutil.rmtree(scratch, ignore_errors=True)
        try:
            os.unlink(batch["path"])
        except OSError:
            pass


# ----------------------------------------------------------------------------- verdicts
def _history_of(family, meta):
    root, prefix = meta
    return {"family": family, "scenario": root[0], "cfg": list(root[1]), "history": [list(c) for c in prefix]}


def _describe(family, hist):
    def one(c):
        if family == "bus":
            op, nm, o, s, cc, lk, sl, dc = c
            if op == "io":
                return "add_region(%s, SoCIORegion(origin=%du, size=%du))" % (nm, o, s)
            if op == "add":
                return "%s(%s, SoCRegion(origin=%s, size=%du, cached=%s%s%s))" % (
                    "add_slave" if sl else "add_region", nm, "None" if o == -1 else "%du" % o, s, bool(cc),
                    ", linker=True" if lk else "", "" if dc else ", decode=False")
            return "%s(%s)" % ({"att": "add_slave", "mst": "add_master"}[op], nm)
        if family == "loc":
            return "add(%s, n=%s%s)" % (c[1], "None" if c[2] == fam.LAUTO else c[2], ", use_loc_if_exists=True" if c[3] else "")
        op, nm, sub, u, lo = c
        return "%s(%s%s%s%s)" % (op, nm, ":" + sub if sub else "", "" if u == -1 else ", %d" % u, ", loose=True" if lo else "")
    return "; ".join(one(c) for c in hist)


class Collector:
    def __init__(self):
        self.groups = {}        # (family, clause, class) -> dict(count, example)
        self.stats = collections.Counter()

    def add(self, family, batch, bad):
        for i, pairs in bad.items():
            meta = batch["meta"][i - 1]
            for clause, cls in pairs:
                g = self.groups.setdefault((family, clause, cls), {"count": 0, "example": None})
                g["count"] += 1
                key = (len(meta[1]), repr(meta))
                if g["example"] is None or key < g["example"][0]:
                    g["example"] = (key, meta)


def _witness(family, nodes, w):
    for p, nd in nodes.items():
        if not p:
            continue
        w[family + ".nodes"] += 1
        w["%s.out.%s" % (family, nd["out"])] += 1
        if family == "bus":
            if nd["out"] == "ok":
                w["bus.fin." + nd["fin"]] += 1
                if nd["fin"] == "ok":
                    w["bus.ic." + nd["ic"]] += 1
            for r in nd["regs"]:
                if r["k"] == nd["d"] and nd["out"] == "ok":
                    w["bus.region.auto" if r["au"] else "bus.region.fixed"] += 1
                    if not r["c"]:
                        w["bus.region.uncached"] += 1
                    # an uncached region allocated inside an IO region whose origin is not a multiple of
                    # the region's decoded size (alignment must be absolute, not relative to the IO region)
                    if r["au"] and not r["c"] and any(io["o"] <= r["o"] < io["o"] + io["s"] and io["o"] % r["p2"]
                                                      for io in nd["ios"]):
                        w["bus.region.auto_in_io_region_of_other_alignment"] += 1
            # decoders handed to the interconnect by finalize
            if nd["fds"]:
                w["bus.fdec"] += len(nd["fds"])
                if [r["n"] for r in nd["regs"]] != list(nd["sls"]):
                    w["bus.fdec.slaves_and_regions_in_different_order"] += 1
        # requests delivered through the constructors (reserved_regions / reserved_csrs)
        if family in ("bus", "loc") and nd.get("rsv", 0) >= 2 and nd["d"] == nd["rsv"]:
            w["%s.rsv" % family] += 1                        # required (the stimulus was delivered)
            w["%s.rsv.%s" % (family, nd["out"])] += 1        # informative (what the constructor answered)


REQUIRED_WITNESSES = {
    "bus": ["bus.out.ok", "bus.out.SoCError", "bus.fin.ok", "bus.fin.SoCError", "bus.ic.shared", "bus.ic.p2p",
            "bus.ic.none", "bus.region.auto", "bus.region.fixed", "bus.region.uncached",
            "bus.region.auto_in_io_region_of_other_alignment", "bus.fdec", "bus.fdec.slaves_and_regions_in_different_order",
            "bus.rsv"],
    "loc": ["loc.out.ok", "loc.out.SoCError", "loc.rsv"],
    "plat": ["plat.out.ok", "plat.out.none", "plat.out.ConstraintError"],
}


def run(prop, report, tier, seed):
    t0 = time.time()
    fam.litex()
    fam.quiet(True)
    report.assume("scaled universe: bus address space = 16 units (unit = 2^(address_width-4) bytes), sizes and "
                  "origins on the unit grid; a rejected request (SoCError) ends the design - histories are not "
                  "continued past it (platform ConstraintError excepted)")
    report.assume("clauses are evaluated on accepted designs (all calls succeeded and SoCBusHandler.finalize "
                  "succeeded right after the prefix); linker regions are exempt from disjointness as "
                  "check_regions_overlap documents; no slave is attached to a linker region")
    report.assume("FHDL expression semantics of the decoder = litex/gen/sim/core.py Evaluator")
    gen_timeout = 600 if tier == "quick" else 1500
    coll = Collector()
    witness = collections.Counter()
    per_scenario = {}
    ctx = multiprocessing.get_context("fork")
    pool = ctx.Pool(NPROC) if NPROC > 1 else None
    judge_pool = ThreadPoolExecutor(max_workers=3)
    futures = []
    nhist = 0
    scratch = _scratch()
    try:
        nsample = {"bus": 3000, "loc": 1500, "plat": 1500}
        if tier == "thorough":
            nsample = {k: 10 * v for k, v in nsample.items()}
        with ThreadPoolExecutor(max_workers=6) as ex:
            gx = {f: ex.submit(enumerate_histories, f, tier, gen_timeout) for f in FAMILIES}
            gs = {f: ex.submit(enumerate_histories, f, tier, gen_timeout, "s", nsample[f], seed) for f in FAMILIES}
            gx = {f: g.result() for f, g in gx.items()}
            gs = {f: g.result() for f, g in gs.items()}
        t_gen = time.time() - t0
        for family in FAMILIES:
            groups, res, n, space = gx[family]
            sgroups, sres, sn, sspace = gs[family]
            groups = dict(groups)
            groups.update(sgroups)
            for sid, sp in sspace.items():
                sp["histories_drawn"] = sum(len(v) for k, v in sgroups.items() if k[0] == sid)
            space.update(sspace)
            nhist += n + sn
            report.add(history_space={family: {"histories_enumerated_by_tlc": n, "histories_sampled_by_tlc": sn,
                                               "tlc_states": res.distinct, "tlc_wall_s": round(res.wall + sres.wall, 1),
                                               "scenarios": space}})
            decs = {}
            pending, psize = [], 0
            for root in sorted(groups, key=repr):
                hists = groups[root]
                nodes = explore(family, root, hists, pool, decs)
                _witness(family, nodes, witness)
                hmax = max(len(h) for h in hists)
                leaves = sum(1 for p in nodes if p and (len(p) == hmax or
                                                         (nodes[p]["out"] != "ok" and fam.TERMINAL_ON_ERROR[family])))
                per_scenario["%s/%s/%s" % (family, root[0], root[1][0])] = {
                    "histories": len(hists), "nodes": len(nodes) - 1, "maximal_executed": leaves,
                    "accepted": sum(1 for p, x in nodes.items() if p and x["out"] == "ok" and x["fin"] in ("ok", "n/a"))}
                report.add(traces_validated_against_impl=leaves)
                if len(report.cov["samples"]) < 6 and len(nodes) > 1:
                    p = max(nodes, key=lambda q: (len(q), nodes[q]["out"] == "ok", repr(q)))
                    nd = {k: v for k, v in nodes[p].items() if k not in ("regs",)}
                    if "regs" in nodes[p]:
                        nd["regs"] = [{k: v for k, v in r.items() if k != "dec"} for r in nodes[p]["regs"]]
                    report.sample({"family": family, "scenario": root[0], "cfg": root[1][0],
                                   "history": _describe(family, p), "recorded_last_node": nd})
                pending.append((root, nodes))
                psize += len(nodes)
                if psize >= BATCH_NODES:
                    for b in make_batches(family, pending, decs):
                        futures.append((family, b, judge_pool.submit(judge, prepare(b, scratch))))
                    pending, psize = [], 0
            if pending:
                for b in make_batches(family, pending, decs):
                    futures.append((family, b, judge_pool.submit(judge, prepare(b, scratch))))
            report.add(decoder_facts={family: len(decs)})
        t_exec = time.time() - t0 - t_gen
        for family, b, fut in futures:
            bad, st = fut.result()
            report.add(states=st["states"], transitions=st["transitions"], judge_runs=1)
            coll.add(family, b, bad)
            b["meta"] = None
    finally:
        if pool is not None:
            pool.terminate()
        shutil.rmtree(scratch, ignore_errors=True)
        judge_pool.shutdown(wait=False, cancel_futures=True)
        fam.quiet(False)
    report.add(scenarios=per_scenario, witnesses=dict(witness), clauses=INVARIANTS[2:],
               histories_enumerated=nhist)
    for family in FAMILIES:
        for wname in REQUIRED_WITNESSES[family]:
            if witness[wname] == 0:
                raise MachineryError("vacuity: witness %s is zero (the histories never exercised it)" % wname)
    # verdicts: one per (family, clause, class), the shortest history as replay
    for (family, clause, cls), g in sorted(coll.groups.items()):
        _, meta = g["example"]
        node = fam.visit((family, meta[0][1], meta[1]))        # the example, performed once more on the real code
        node.pop("_decs", None)
        hist = _history_of(family, meta)
        sig = {"family": family, "clause": clause, "class": cls}
        text = "%s/%s violated (%d recorded prefixes) e.g. [%s] %s -> %s" % (
            clause, cls, g["count"], meta[0][1][0], _describe(family, meta[1]),
            json.dumps({k: v for k, v in node.items() if k in ("out", "fin", "ic", "regs", "ios", "fds", "locs", "mt", "av", "ret")},
                       default=str)[:600])
        replay = dict(hist)
        replay.update({"clause": clause, "class": cls, "trace_module": TRACE_MODULE, "count": g["count"]})
        report.violation(sig, replay, text)
    fam.quiet(False)
    hangs = sum(v for k, v in witness.items() if k.endswith(".out.HarnessHang"))
    if hangs:
        report.note("%d calls into LiteX did not return within %.0f s and were interrupted" % (hangs, fam.CALL_TIMEOUT))
        if not report.violations:
            raise MachineryError("%d calls did not return (allocator looping?): the check cannot decide" % hangs)
    report.add(violation_classes={"%s/%s/%s" % k: v["count"] for k, v in coll.groups.items()})
    report.cov["exhaustive"] = True
    report.add(wall_total_s=round(time.time() - t0, 1), wall_enumerate_s=round(t_gen, 1),
               wall_execute_on_real_code_s=round(t_exec, 1))


# ----------------------------------------------------------------------------- replay
def replay(path):
    """re-execute the recorded history on the real code and judge it again.
    -> (reproduced, failing clauses now)"""
    with open(path) as f:
        rp = json.load(f)
    fam.litex()
    fam.quiet(True)
    family = rp["family"]
    cfg = _tup(rp["cfg"])
    hist = tuple(_tup(c) for c in rp["history"])
    root = (rp.get("scenario", "replay"), cfg)
    decs = {}
    nodes = explore(family, root, [hist], None, decs)
    fam.quiet(False)
    batches = make_batches(family, [(root, nodes)], decs)
    scratch = _scratch()
    try:
        bad, _ = judge(prepare(batches[0], scratch), timeout=300, workers=2)
    finally:
        shutil.rmtree(scratch, ignore_errors=True)
    fails = []
    hit = False
    for i, pairs in sorted(bad.items()):
        meta = batches[0]["meta"][i - 1]
        for clause, cls in sorted(pairs):
            fails.append({"clause": clause, "class": cls, "prefix_len": len(meta[1])})
            if clause == rp["clause"] and cls == rp["class"] and len(meta[1]) == len(hist):
                hit = True
    return hit, fails
