"""C06 (and C11 Wishbone part): Wishbone shared interconnect / crossbar, G-mode; L2 lane (DESIGN.md section 9):
register-level model specs/wbic/WbIcModel.tla, conformance to every edge of the G-mode graphs and to random runs of
4x4 instances, M-mode beyond the G-mode sizes, drift-triggered escalation."""
import json
import random

from ..gcheck import GFamily, run_batches, schedule_from_trace, linear_replay
from .. import l2
from .. import tracecheck
from ..families import wbic as fam
from ..families import wbic_l2 as wl

C06_INVS = ["RoutedByAddress", "OwnerStable", "AnswerToIssuerOnly", "ReadDataFromAnsweringSlave",
            "NoLostTermination", "BoundedWait"]
C06_PROPS = ["Served"]
CLAUSE_MAP = {k: k for k in C06_INVS + ["TerminatedInTime", "ErrorIndication", "NoDisturbance"]}
CLAUSE_MAP.update({"Served": "BoundedService", "Recovers": "BoundedService"})
FAMILY = GFamily("wbic/WbIcGraph", "wbic/WbIcTrace", "harness.families.wbic:make", hint=fam.Hint(),
                 fmt="hash", clause_map=CLAUSE_MAP,
                 describe=lambda s: "wishbone.%s(%dx%d%s%s)" % (s["kind"], s["n"], s["m"],
                                                               ", register" if s.get("register") else "",
                                                               ", timeout=%s" % s["timeout"] if s.get("timeout") else ""))
# TLC evaluates invariants on the obs record: expose them under the clause names
for k in list(CLAUSE_MAP):
    pass


# ----------------------------------------------------------------------------- L2 lane (DESIGN.md section 9)
L2_ASSUME = ("L2 (specs/wbic/WbIcModel.tla): register-level model of RoundRobin(SP_WITHDRAW), Arbiter, Decoder (with and "
             "without registered select), WaitTimer/Timeout, InterconnectShared, Crossbar and InterconnectPointToPoint with "
             "the test bench; it gives no verdict - every edge of the complete G-mode graphs and every cycle of random runs "
             "of 4x4 instances must be reproduced by the model (else MODEL-DRIFT and escalation), and the model is checked "
             "against the same environment and clauses in M-mode at sizes beyond G-mode")


def l2_state():
    return {"graph_cases": 0, "graph_duts": 0, "drifts": [], "proj_errors": []}


def l2_on_accept(state, log=print):
    """hook of gcheck.run_batches: the complete graphs of an accepted batch go to the model conformance check"""
    def cb(gl):
        bad = set()
        pool = gl._pool()
        for g in gl.duts:       # a register the model names may no longer exist in a changed tree: that is drift, not a crash
            try:
                pool.map(l2._wproj, [(g.spec_json, wl.LANE.proj_path)])
            except (KeyError, TypeError, ValueError, AttributeError) as ex:
                bad.add(json.dumps(g.spec, sort_keys=True))
                state["proj_errors"].append({"spec": g.spec, "error": str(ex)})
        lane = wl.LANE if not bad else l2.Lane(
            wl.LANE.name, wl.LANE.conf_module,
            lambda s_, c_: None if json.dumps(s_, sort_keys=True) in bad else wl.model_cfg(s_, c_),
            wl.LANE.proj_path, m_module=wl.LANE.m_module)
        duts = l2.graph_cases(gl, lane)
        n, dr = l2.conformance(lane, duts, workers=4)
        log("  L2: %d DUT(s), %d edges judged against the model, %d drift(s)" % (len(duts), n, len(dr) + len(bad)))
        state["graph_cases"] += n
        state["graph_duts"] += len(duts) - len(dr)
        state["drifts"] += dr
    return cb


def _l2_runs(prop, report, tier, seed, state, invs):
    """random legal runs of instances larger than any G-mode graph: every cycle judged by the model (conformance) and by
    the L1 trace module (a failure there is a verdict about the real netlist)"""
    rnd = random.Random(seed * 6151 + 29)
    nrun, ncyc = (2, 300) if tier == "quick" else (6, 1500)
    duts, traces, meta = [], [], []
    for x in wl.run_configs(tier, prop):
        for _ in range(nrun):
            try:
                ev, reset, cases = wl.random_run(x["spec"], x["c"], ncyc, rnd, shim=FAMILY.shim)
            except (KeyError, TypeError, AttributeError) as ex:
                state["proj_errors"].append({"spec": x["spec"], "error": str(ex)})
                break
            duts.append({"spec": x["spec"], "m": x["m"], "reset": reset, "cases": cases})
            traces.append({"cfg": dict(x["c"], stallbound=10 ** 6), "ev": ev})
            meta.append(x["spec"])
    n, dr = l2.conformance(wl.LANE, duts, workers=4)
    seen = set()
    for d_ in dr:       # one note per DUT is enough
        k = json.dumps(d_["spec"], sort_keys=True)
        if k not in seen:
            seen.add(k)
            state["drifts"].append(d_)
    tinv = [CLAUSE_MAP[i] for i in invs]
    fails, st = tracecheck.validate(FAMILY.trace_module, traces, tinv) if traces else ([], {"states": 0})
    report.add(traces_validated_against_impl=len(traces), trace_states=st["states"])
    for f in fails:
        spec, tr = meta[f["tid"]], traces[f["tid"]]
        report.violation({"dut": spec, "clause": f["clause"]},
                         {"family": FAMILY.graph_module, "factory": FAMILY.factory_path, "spec": spec, "cfg": tr["cfg"],
                          "schedule": [e[0] for e in tr["ev"][:f["l"]]], "trace_module": FAMILY.trace_module,
                          "trace_invariants": tinv, "observed": tr["ev"][:f["l"]], "clause": f["clause"]},
                         "%s violated by %s in a random run at cycle %s" % (f["clause"], FAMILY.describe(spec), f["l"]))
    return len({json.dumps(d_["spec"], sort_keys=True) for d_ in duts}), n


def run_l2(prop, report, tier, seed, state, invs, props, gprop=None):
    """(a) graph conformance happened in the G-mode batches (state); (b) model and L1 trace module against every cycle of
    random runs of 4x4 instances; (c) M-mode: model x Env x the clauses of this property beyond the G-mode sizes;
    (d) a drifting kind of interconnect is explored against the L1 contract at the thorough tier's parameters."""
    gprop = gprop or prop
    report.assume(L2_ASSUME)
    # (b)
    rduts, rn = _l2_runs(gprop, report, tier, seed, state, invs)
    report.add(l2_model={"module": "wbic/WbIcModel", "graph_duts_conformant": state["graph_duts"],
                         "graph_edges_judged": state["graph_cases"], "run_duts": rduts, "run_cycles_judged": rn})
    # (c)
    mcfgs = wl.mmode_configs(tier, gprop)
    mprops = list(props)
    res = l2.mmode(wl.LANE.m_module, [{"c": x["c"], "m": x["m"]} for x in mcfgs], invs, mprops,
                   timeout=1500 if tier == "quick" else 5400)
    report.add(states=res.distinct, transitions=res.generated)
    report.cov["l2_model"].update({
        "mmode_configs": len(mcfgs), "mmode_states": res.distinct, "mmode_transitions": res.generated,
        "mmode_wall_s": round(res.wall, 1), "mmode_clauses": list(invs) + mprops,
        "mmode_sizes": sorted({"%s %dx%d%s%s" % (x["m"]["kind"], x["m"]["n"], x["m"]["ns"], " registered" if x["m"]["register"] else "",
                                                 " time-out %d" % x["m"]["timeout"] if x["m"]["timeout"] else "") for x in mcfgs})})
    if res.violated:
        # a counterexample on the model: it counts only if the real netlist shows it too
        x = mcfgs[res.trace[0]["vars"]["d"] - 1]
        prefix, loop = schedule_from_trace(res)
        clause = res.temporal_name if res.violated == "temporal" else res.violated
        sched = list(prefix) + (list(loop) * 40 if loop else [])
        ev = linear_replay(FAMILY.factory_path, x["spec"], sched, shim=FAMILY.shim)
        tcfg = dict(x["c"], stallbound=max(1, len(loop) * 40) if loop else 10 ** 6)
        tinv = [CLAUSE_MAP[clause]] if clause in CLAUSE_MAP else [CLAUSE_MAP[i] for i in invs]
        fails, _ = tracecheck.validate(FAMILY.trace_module, [{"cfg": tcfg, "ev": ev}], tinv)
        if fails:
            report.violation({"dut": x["spec"], "clause": fails[0]["clause"], "gclause": clause},
                             {"family": FAMILY.graph_module, "factory": FAMILY.factory_path, "spec": x["spec"], "cfg": tcfg,
                              "schedule": [list(i) for i in sched[:2000]], "trace_module": FAMILY.trace_module,
                              "trace_invariants": tinv, "observed": ev[:2000], "clause": fails[0]["clause"]},
                             "%s violated by %s (found on the L2 model in M-mode, reproduced on the netlist) after %d cycles" % (
                                 fails[0]["clause"], FAMILY.describe(x["spec"]), len(prefix)))
        else:
            report.note("MODEL-DRIFT wbic: M-mode counterexample to %s on the model of %s does not reproduce on the netlist" % (
                clause, FAMILY.describe(x["spec"])))
            report.add(l2_model_drifts=1)
    # (d)
    for e in state["proj_errors"]:
        report.note("MODEL-DRIFT wbic: the registers of the L2 model are no longer those of the netlist of %s (%s); no verdict, "
                    "the L1 checks of the real netlist decide" % (json.dumps(e["spec"], sort_keys=True), e["error"]))
    report.add(l2_model_drifts=len(state["proj_errors"]))
    l2.report_drifts(report, wl.LANE, state["drifts"])
    drifting = [d_["spec"] for d_ in state["drifts"]] + [e["spec"] for e in state["proj_errors"]]
    if drifting and tier == "quick" and not report.violations:
        # nothing has been reported yet although the code is no longer what was model-checked: look deeper
        kinds = {s_["kind"] for s_ in drifting}
        have = {json.dumps(s_, sort_keys=True) for s_, _ in fam.configs("quick", gprop)}
        esc = [(s_, c_) for s_, c_ in fam.configs("thorough", gprop)
               if s_["kind"] in kinds and json.dumps(s_, sort_keys=True) not in have]
        report.note("escalation: %d thorough-tier configuration(s) of %s explored against the L1 contract" % (len(esc), sorted(kinds)))
        if esc:
            run_batches(FAMILY, report, [esc[i:i + 3] for i in range(0, len(esc[:6]), 3)], invs, props, spec_budget=300000)


def run_canary(report, spec, prop_clause, log=print):
    """sensitivity of the liveness clause: an interconnect whose arbiter never moves the grant (built in memory by the
    factory, canary="stuck_grant") MUST be rejected by it, and the lasso must reproduce in linear replay and be judged
    by WbIcTrace!BoundedService; else the check has lost its sensitivity (machinery failure)"""
    from ..graphloop import GraphLoop
    from ..report import MachineryError
    cfg = fam.tla_cfg(spec)
    gl = GraphLoop(FAMILY.graph_module, FAMILY.factory_path, [(spec, cfg)], invariants=[], properties=[prop_clause],
                   hint=fam.Hint(), spec_name=FAMILY.spec_name, shim=FAMILY.shim, fmt=FAMILY.fmt, spec_budget=300000, log=log)
    try:
        res = gl.run()
        nstates = len(gl.duts[0].states)
    finally:
        gl.close()
    if res.violated != "temporal" or (res.temporal_name and res.temporal_name != prop_clause):
        raise MachineryError("canary %s (arbiter that never moves the grant) was not rejected by %s: the check has lost "
                             "its sensitivity" % (FAMILY.describe(spec), prop_clause))
    prefix, loop = schedule_from_trace(res)
    unroll = nstates + 2
    ev = linear_replay(FAMILY.factory_path, spec, list(prefix) + list(loop) * unroll, shim=FAMILY.shim)
    fails, _ = tracecheck.validate(FAMILY.trace_module, [{"cfg": dict(cfg, stallbound=max(1, len(loop) * unroll)), "ev": ev}],
                                   [CLAUSE_MAP[prop_clause]])
    if not fails:
        raise MachineryError("canary %s: the lasso found by %s does not fail %s in linear replay" % (
            FAMILY.describe(spec), prop_clause, CLAUSE_MAP[prop_clause]))
    report.add(canaries_detected=1)
    report.note("canary %s with an arbiter that never moves the grant violates %s (lasso: %d + %d cycles, confirmed by %s in "
                "linear replay), as it must" % (FAMILY.describe(spec), prop_clause, len(prefix), len(loop), CLAUSE_MAP[prop_clause]))


def run(prop, report, tier, seed):
    cfgs = fam.configs(tier, "C06")
    run_canary(report, dict(kind="shared", n=2, m=1, map="all", hole=False, rw=0, errs=0, canary="stuck_grant"), "Served")
    l2s = l2_state()
    report.assume("masters hold a strobed request until terminated (Wishbone classic); slaves answer only when they "
                  "see cyc&stb, combinationally or after any latency; liveness assumes fair slaves and finite bus cycles")
    stats = run_batches(FAMILY, report, [cfgs[i:i + 5] for i in range(0, len(cfgs), 5)], C06_INVS, C06_PROPS,
                        spec_budget=300000, on_accept=l2_on_accept(l2s))
    report.add(duts_explored=len(stats), clauses=C06_INVS + C06_PROPS, per_dut=stats)
    run_l2(prop, report, tier, seed, l2s, C06_INVS, C06_PROPS, gprop="C06")
    report.cov["exhaustive"] = True
