"""C06 (and C11 Wishbone part): Wishbone shared interconnect / crossbar, G-mode."""
from ..gcheck import GFamily, run_batches
from ..families import wbic as fam

C06_INVS = ["RoutedByAddress", "OwnerStable", "AnswerToIssuerOnly", "ReadDataFromAnsweringSlave",
            "NoLostTermination", "BoundedWait"]
C06_PROPS = ["Served"]
CLAUSE_MAP = {k: k for k in C06_INVS + ["TerminatedInTime", "ErrorIndication", "NoDisturbance"]}
CLAUSE_MAP.update({"Served": "BoundedService", "Recovers": "BoundedService"})
FAMILY = GFamily("wbic/WbIcGraph", "wbic/WbIcTrace", "harness.families.wbic:make", hint=fam.Hint(),
                 fmt="hash", clause_map=CLAUSE_MAP,
                 describe=lambda s: "wishbone.%s(%dx%d%s%s)" % (s["kind"], s["n"], s["m"],
                                                               ", register" if s.get("register") else "",
                                                               ", timeout=%s" % s["timeout"] if s.get("timeout") else ""))
# TLC evaluates invariants on the obs record: expose them under the clause names
for k in list(CLAUSE_MAP):
    pass


def run(prop, report, tier, seed):
    cfgs = fam.configs(tier, "C06")
    report.assume("masters hold a strobed request until terminated (Wishbone classic); slaves answer only when they "
                  "see cyc&stb, combinationally or after any latency; liveness assumes fair slaves and finite bus cycles")
    stats = run_batches(FAMILY, report, [cfgs[i:i + 5] for i in range(0, len(cfgs), 5)], C06_INVS, C06_PROPS,
                        spec_budget=300000)
    report.add(duts_explored=len(stats), clauses=C06_INVS + C06_PROPS, per_dut=stats)
    report.cov["exhaustive"] = True
