"""C08: AXI-Lite and AXI4 shared interconnect / crossbar / arbiter / decoder, G-mode (one direction per
configuration).  The AXI4 (axi_full.py) batches run in a child process beside the AXI-Lite ones."""
import json
import multiprocessing as mp
import os
import traceback

from .. import gcheck
from .. import l2
from .. import tracecheck
from .. import tlc as tlcmod
from ..gcheck import GFamily, run_batches, schedule_from_trace, linear_replay
from ..families import axilic_l2 as al
from ..graphloop import GraphLoop
from ..report import Report, MachineryError, ROOT, load_findings
from ..families import axilic as fam
from ..families import axiic as axi

INVS = ["RoutedByAddress", "WFollowsItsAW", "DataExactlyOnce", "ResponseToIssuerInOrder", "FrozenWhileOutstanding",
        "ValidHold", "WValidHold"]
PROPS = ["Served", "ServedIfGaps"]
CM = {k: k for k in INVS}
CM["Served"] = "BoundedService"
CM["ServedIfGaps"] = "BoundedService"
FAMILY = GFamily("axilic/AxiLiteIcGraph", "axilic/AxiLiteIcTrace", "harness.families.axilic:make", hint=fam.Hint(),
                 fmt="hash", clause_map=CM,
                 describe=lambda s: "axi_lite.%s(%dx%d, %s, k=%s%s)" % (
                     s["kind"], s["n"], s["m"], "write" if s["dir"] == "w" else "read", s.get("k", 1),
                     (", timeout=%s" % s["timeout"] if s.get("timeout") else "") +
                     (", data before address" if s.get("earlyw") else "") +
                     (", other slave while outstanding" if s.get("xslave") else "")))
# AXI4 (full): same clause names, judged by specs/axilic/AxiIcContract.tla
AXI_FAMILY = GFamily("axilic/AxiIcGraph", "axilic/AxiIcTrace", "harness.families.axiic:make", hint=axi.Hint(),
                     fmt="hash", clause_map=CM, describe=axi.describe)
NOTES = os.path.join(ROOT, "notes", "C08b_findings.json")


def notes_findings(prop, path=NOTES):
    """findings of the notes file that /verif/known_findings.json does not list yet (by id): lets the check run
    before the main agent has merged the notes"""
    if not os.path.exists(path):
        return []
    have = {f.get("id") for f in load_findings()}
    with open(path) as fh:
        return [f for f in json.load(fh) if f.get("id") not in have and f.get("property") == prop]


# ------------------------------------------------------------------------------------------------ AXI4 lane
class _HarvestLoop(GraphLoop):
    """GraphLoop that keeps the edges of the DUTs of every run that ended without a violation.  With
    spec_budget=0 every edge was requested by TLC, i.e. is reachable in the product with the environment:
    the witness counters below are computed from them (vacuity guard and evidence only, no verdict)."""
    harvested = []

    def __init__(self, *a, **kw):
        # the lane runs beside the main process: small stepper pool (a few thousand edges per round at most)
        kw.setdefault("workers", 4)
        super().__init__(*a, **kw)

    def close(self):
        if self.final is not None and not self.final.violated:
            for g in self.duts:
                ev = [(g.alphabet[k], o) for e in g.succ for k, (o, _) in e.items() if k in g.alphabet]
                _HarvestLoop.harvested.append((g.spec, g.cfg, ev))
        super().close()


def axi_witnesses(cfg, edges):
    """counts, over the reachable edges of one DUT, of the situations the AXI4 contract is about"""
    n, m, wr = cfg["n"], cfg["m"], cfg["dir"] == "w"
    w = dict.fromkeys(["address_stalled", "data_stalled", "response_stalled", "beat_without_last", "beat_with_last",
                       "response_id0", "response_id1", "address_without_data", "slave2_accepts", "master2_answered"], 0)
    for iv, o in edges:
        for i in range(n):
            c = iv[i]
            av, wv, wl, rr = c & 1, (c >> 5) & 1, (c >> 6) & 1, (c >> 7) & 1
            aready, wready, rvalid, _, rid, rlast = o[6 * i:6 * i + 6]
            w["address_stalled"] += bool(av and not aready)
            w["data_stalled"] += bool(wv and not wready)
            w["response_stalled"] += bool(rvalid and not rr)
            w["address_without_data"] += bool(wr and av and aready and not wv)
            if wr and wv and wready:
                w["beat_with_last" if wl else "beat_without_last"] += 1
            if rvalid and rr:
                w["response_id%d" % rid] += rid in (0, 1)
                if not wr:
                    w["beat_with_last" if rlast else "beat_without_last"] += 1
                if i == 1:
                    w["master2_answered"] += 1
        if m > 1:
            so = o[6 * n + 9:6 * n + 18]
            w["slave2_accepts"] += bool(so[0] and iv[n + 1] & 1)
    return w


def _axi_lane(conn, prop, tier, seed, findings):
    try:
        from .. import py312_tracer
        py312_tracer.install()
        gcheck.GraphLoop = _HarvestLoop
        rep = Report(prop, "%s-axi4" % tier, seed)
        rep.findings = findings
        log = lambda msg: print("[axi4] %s" % msg, flush=True)      # noqa
        groups = axi.configs(tier)
        stats = []
        # DUTs without arbitration: any traffic.  DUTs with an arbiter: traffic with gaps (cfg gaps=1) - under
        # back-to-back traffic the round-robin that only moves on an idle bus starves a master (listed finding,
        # shown by the "back-to-back traffic" demonstrations below).  Liveness clause of all of them: Served.
        b = groups["all"] + groups["arb"]
        per = 8 if tier == "quick" else 5
        stats += run_batches(AXI_FAMILY, rep, [b[i:i + per] for i in range(0, len(b), per)], INVS, ["Served"], log=log,
                             spec_budget=0, total_budget=0)
        nmain = len(stats)
        # demonstrations of the listed findings, one DUT per run
        run_batches(AXI_FAMILY, rep, [[x] for x in groups["demo"]], INVS, ["Served"], log=log, spec_budget=0, total_budget=0)
        # vacuity guard
        total = {}
        per = []
        for spec, cfg, ev in _HarvestLoop.harvested:
            w = axi_witnesses(cfg, ev)
            per.append({"dut": axi.describe(spec), "witnesses": w})
            if spec.get("nofollowup"):
                continue
            for k, v in w.items():
                total[(cfg["dir"], k)] = total.get((cfg["dir"], k), 0) + v
            need = ["beat_without_last", "beat_with_last", "response_id0", "response_id1", "response_stalled"]
            zero = [k for k in need if not w[k]]
            if zero:
                raise MachineryError("vacuous AXI4 run: %s never saw %s" % (axi.describe(spec), ", ".join(zero)))
        if not rep.violations:
            zero = sorted("%s/%s" % k for k, v in total.items() if not v and not (k[0] == "r" and k[1] in (
                "data_stalled", "address_without_data")))
            if zero or len([1 for s, _, _ in _HarvestLoop.harvested if not s.get("nofollowup")]) != nmain:
                raise MachineryError("vacuous AXI4 run: witness counters at zero: %s" % ", ".join(zero))
        rep.add(axi4_duts_explored=nmain, axi4_per_dut=stats, axi4_witnesses=per)
        conn.send({"cov": rep.cov, "violations": rep.violations, "known_hit": rep.known_hit, "notes": rep.notes})
    except MachineryError as ex:
        conn.send({"error": "[axi4] %s" % ex})
    except Exception:
        conn.send({"error": "[axi4] %s" % traceback.format_exc()[-3000:]})
    finally:
        conn.close()


def start_lane(target, args):
    import sys
    sys.stdout.flush()
    sys.stderr.flush()
    ctx = mp.get_context("fork")
    pc, cc = ctx.Pipe(duplex=False)
    p = ctx.Process(target=target, args=(cc,) + tuple(args))
    p.start()
    cc.close()
    return p, pc


def join_lane(report, lane, label, timeout=7200):
    p, pc = lane
    try:
        r = pc.recv() if pc.poll(timeout) else {"error": "[%s] lane timed out" % label}
    except EOFError:
        r = {"error": "[%s] lane died without a result" % label}
    p.join(10)
    if p.is_alive():
        p.terminate()
    if "error" in r:
        raise MachineryError(r["error"])
    cov = r["cov"]
    for s_ in cov.pop("samples", []):
        report.sample(s_, cap=12)
    report.add(**cov)
    report.violations.extend(r["violations"])
    for k in r["known_hit"]:
        if k not in report.known_hit:
            report.known_hit.append(k)
    report.notes.extend(r["notes"])


# ------------------------------------------------------------------------------------------------ L2 lane
# (DESIGN.md section 9; specs/axilic/AxiLiteIcModel*.tla, harness/families/axilic_l2.py)
M_INVS = INVS + ["DirectionsShareNothing"]
M_PROPS = ["ReadWriteIndependent"]          # = Served (without arbitration) and ServedIfGaps of both directions, in the product
RW_TRACE = "axilic/AxiLiteIcModelRwTrace"
RW_FACTORY = "harness.families.axilic_l2:make_any"
ESCALATE = 4                                # thorough-tier configurations explored when the code drifts from the model


def _l2_on_accept(state):
    def cb(gl):
        try:
            duts = l2.graph_cases(gl, al.LANE)
        except KeyError as ex:
            # the registers of the model are no longer found in the netlist: the code is not what was modelled
            state["drifts"].append({"spec": {"kind": "?"}, "m": {}, "clause": "projection", "case": [str(ex), [], [], {}]})
            return
        n, dr = l2.conformance(al.LANE, duts)
        state["graph_cases"] += n
        state["graph_duts"] += len(duts)
        state["kinds"].update(d["spec"]["kind"] for d in duts)
        state["drifts"] += dr
    return cb


def _rw_runs(tier, seed):
    """runs of the real netlists with both directions driven together, 3 masters x 3 slaves, 3 outstanding"""
    import random
    rnd = random.Random(seed * 6007 + 11)
    shapes = [("shared", 3, 3, 3), ("crossbar", 3, 3, 3)]
    if tier == "thorough":
        shapes += [("crossbar", 2, 3, 2), ("shared", 3, 2, 1), ("decoder", 1, 3, 3), ("arbiter", 3, 1, 3), ("p2p", 1, 1, 3)]
    profiles = [(0.7, 0.7, 0.7, 0.7, 0.7), (0.9, 0.5, 0.3, 0.9, 0.9), (0.4, 0.9, 0.9, 0.3, 0.5), (1.0, 1.0, 1.0, 1.0, 1.0)]
    ncyc = 200 if tier == "quick" else 1500
    duts, traces = [], []
    for kind, n, m, k in shapes:
        spec = {"kind": kind, "n": n, "m": m, "dir": "rw"}
        for prof in (profiles[:2] if tier == "quick" else profiles):
            reset, cases = al.rw_run(spec, k, ncyc, rnd, prof)
            duts.append({"spec": spec, "m": al.model_cfg(spec), "reset": reset, "cases": cases, "k": k})
            traces.append({"cfg": al.rw_tcfg(spec, k), "ev": [[c[1], c[2]] for c in cases]})
    return duts, traces


def _describe_rw(spec):
    return "axi_lite.%s(%dx%d, write and read together)" % (spec["kind"], spec["n"], spec["m"])


def run_l2(prop, report, tier, seed, state):
    """(a) graph conformance happened in the G-mode batches (state); (b) runs of the netlists with both directions
    driven: every cycle against the model, and the runs themselves against the L1 contract (T-mode); (c) M-mode: model x
    Env x the clauses, both directions in one product; (d) a drifting kind is explored against the L1 contract at the
    thorough tier's parameters."""
    # (b)
    try:
        duts, traces = _rw_runs(tier, seed)
        n, dr = l2.conformance(al.LANE, duts)
    except KeyError as ex:
        # the registers of the model are no longer found in the netlist: the code is not what was modelled
        duts, traces = [], []
        n, dr = 0, [{"spec": {"kind": "?"}, "m": {}, "clause": "projection", "case": [str(ex), [], [], {}]}]
    state["drifts"] += dr
    try:
        fails, tst = tracecheck.validate(RW_TRACE, traces, INVS + ["BoundedService"]) if traces else ([], {"states": 0})
        report.add(traces_validated_against_impl=len(traces), trace_states=tst["states"])
    except MachineryError as ex:
        # (only seen on changed code: the netlist reacts in a way that makes the recorded stimuli illegal for the
        # environment specification) - the runs are then not judged, the G-mode verdicts stand
        fails = []
        report.note("runs with both directions driven were not judged against the L1 contract: %s" % str(ex).splitlines()[0][:160])
    for f in fails:
        d = duts[f["tid"]]
        ev = traces[f["tid"]]["ev"][:f["l"]]
        report.violation({"dut": d["spec"], "clause": f["clause"]},
                         {"family": FAMILY.graph_module, "factory": RW_FACTORY, "spec": d["spec"], "cfg": traces[f["tid"]]["cfg"],
                          "schedule": [e[0] for e in ev], "trace_module": RW_TRACE, "trace_invariants": INVS + ["BoundedService"],
                          "observed": ev, "clause": f["clause"]},
                         "%s violated by %s in a recorded run at cycle %s" % (f["clause"], _describe_rw(d["spec"]), f["l"]))
    report.add(l2_model={"module": "axilic/AxiLiteIcModel", "graph_duts_conformant": state["graph_duts"],
                         "graph_edges_judged": state["graph_cases"], "run_duts": len(duts), "run_cycles_judged": n,
                         "run_largest": "3 masters x 3 slaves, 3 outstanding, write and read traffic together"})
    # (c)
    mcfgs = al.mmode_configs(tier)
    keys = ("cw", "cr", "m", "chkx", "actw", "actr")
    res = l2.mmode(al.LANE.m_module, [{k: x[k] for k in keys} for x in mcfgs], M_INVS, M_PROPS,
                   timeout=1500 if tier == "quick" else 5400)
    report.add(states=res.distinct, transitions=res.generated)
    report.cov["l2_model"].update({"mmode_configs": len(mcfgs), "mmode_states": res.distinct, "mmode_transitions": res.generated,
                                   "mmode_wall_s": round(res.wall, 1), "mmode_clauses": M_INVS + ["Served", "ServedIfGaps"] + M_PROPS,
                                   "mmode_largest": "%d masters x %d slaves, %d outstanding, both directions in one product" % (
                                       max(x["m"]["n"] for x in mcfgs), max(x["m"]["m"] for x in mcfgs),
                                       max(max(x["cw"]["k"], x["cr"]["k"]) for x in mcfgs))})
    if res.violated:
        # a counterexample on the model: it counts only if the real netlist shows it too
        x = mcfgs[res.trace[0]["vars"]["d"] - 1]
        prefix, loop = schedule_from_trace(res)
        clause = res.temporal_name if res.violated == "temporal" else res.violated
        sched = list(prefix) + (list(loop) * 60 if loop else [])
        ev = linear_replay(RW_FACTORY, x["spec"], sched)
        tcfg = {"cw": x["cw"], "cr": x["cr"], "stallbound": max(1, len(loop) * 60) if loop else 10 ** 6}
        tinv = [CM[clause]] if clause in CM else (["BoundedService"] if res.violated == "temporal" else INVS)
        tfails = []
        if clause != "DirectionsShareNothing":
            tfails, _ = tracecheck.validate(RW_TRACE, [{"cfg": tcfg, "ev": ev}], tinv)
        if tfails:
            report.violation({"dut": x["spec"], "clause": tfails[0]["clause"], "gclause": clause},
                             {"family": FAMILY.graph_module, "factory": RW_FACTORY, "spec": x["spec"], "cfg": tcfg,
                              "schedule": [list(i) for i in sched[:2000]], "trace_module": RW_TRACE, "trace_invariants": tinv,
                              "observed": ev[:2000], "clause": tfails[0]["clause"]},
                             "%s violated by %s (found on the L2 model in M-mode, reproduced on the netlist) after %d cycles" % (
                                 tfails[0]["clause"], _describe_rw(x["spec"]), len(prefix)))
        else:
            report.note("MODEL-DRIFT axilic: M-mode counterexample to %s on the model of %s does not reproduce on the netlist" % (
                clause, _describe_rw(x["spec"])))
            report.add(l2_model_drifts=1)
    else:
        # vacuity guard of ReadWriteIndependent: the product does contain a read completing beside a stalled write of
        # another master, and a write completing beside a stalled read (TLC must find a state of that kind)
        wit = [x for x in mcfgs if x.get("witness")][:1]
        for inv in (("NoReadBesideStalledWrite", "NoWriteBesideStalledRead") if tier == "thorough" else ("NoReadBesideStalledWrite",)):
            wres = l2.mmode(al.LANE.m_module, [{k: x[k] for k in keys} for x in wit], [inv], [], timeout=600, workers=4)
            if wres.violated != inv:
                raise MachineryError("vacuous M-mode product: no state witnesses %s" % inv[2:])
        report.cov["l2_model"]["mmode_witnesses"] = ["ReadBesideStalledWrite"] + (["WriteBesideStalledRead"] if tier == "thorough" else [])
    # (d)
    l2.report_drifts(report, al.LANE, state["drifts"])
    if state["drifts"] and tier == "quick" and not report.violations:
        # nothing has been reported yet although the code is no longer what was model-checked: look deeper
        kinds = {d["spec"].get("kind") for d in state["drifts"]}
        # a drifting arbiter / decoder is part of the shared interconnect and of the crossbar
        want = kinds | ({"shared", "crossbar"} if kinds - {"p2p"} else set())
        have = {json.dumps(s_, sort_keys=True) for s_, _ in fam.configs("quick", "C08")}
        esc = [(s_, c_) for s_, c_ in fam.configs("thorough", "C08")
               if ("?" in kinds or s_["kind"] in want) and json.dumps(s_, sort_keys=True) not in have
               and not s_.get("nofollowup")]
        esc = sorted(esc, key=lambda e: (e[0]["n"] * e[0]["m"] * e[0].get("k", 1), e[0]["kind"], e[0]["dir"]))[:ESCALATE]
        report.note("escalation: %d thorough-tier configuration(s) of %s explored against the L1 contract" % (len(esc), sorted(want)))
        try:
            if esc:
                run_batches(FAMILY, report, [esc[i:i + 4] for i in range(0, len(esc), 4)], INVS, PROPS, spec_budget=0,
                            total_budget=0, tlc_timeout=600)
        except tlcmod.TLCError as ex:
            if "timeout" not in str(ex):
                raise
            report.note("escalation stopped at its time bound (%s)" % str(ex).splitlines()[0][:120])


def run(prop, report, tier, seed):
    report.findings = list(report.findings) + notes_findings(report.prop)
    # AXI4 (full) twins: own process, beside the AXI-Lite batches
    lane = None
    if os.environ.get("VERIF_NO_AXI4"):          # development aid (timing of the AXI-Lite part alone); the evidence says so
        report.note("AXI4 batches skipped by VERIF_NO_AXI4")
    else:
        lane = start_lane(_axi_lane, (prop, tier, seed, report.findings))
    try:
        cfgs = fam.configs(tier, "C08")
        report.assume("AXI4-Lite masters/slaves hold valid and payload until ready; write data may precede, accompany or "
                      "follow its address; up to k outstanding requests per master and per slave; write and read "
                      "directions are explored separately (the interconnect keeps separate state per direction)")
        report.assume("AXI4 (axi_full.py): bursts of 1-2 beats (len 0/1), ids from a 2-value set, masters send write data "
                      "bursts in address order with exactly len+1 beats; slaves answer in acceptance order (no re-ordering "
                      "between ids, no read interleaving), B only after the address and the last data beat")
        if os.environ.get("VERIF_ONLY_AXI4"):      # development aid (mutation tests of axi_full.py); the evidence says so
            report.note("restricted to the AXI4 batches by VERIF_ONLY_AXI4")
            cfgs = []
        l2state = {"graph_cases": 0, "graph_duts": 0, "drifts": [], "kinds": set()}
        use_l2 = bool(cfgs) and not os.environ.get("VERIF_NO_L2")
        if os.environ.get("VERIF_NO_L2"):          # development aid (timing of the check without the lane); the evidence says so
            report.note("L2 lane skipped by VERIF_NO_L2")
        stats = run_batches(FAMILY, report, [cfgs[i:i + 4] for i in range(0, len(cfgs), 4)], INVS, PROPS,
                            spec_budget=0, total_budget=0, on_accept=_l2_on_accept(l2state) if use_l2 else None)
        report.add(duts_explored=len(stats), clauses=INVS + PROPS, per_dut=stats)
        if use_l2:
            report.assume("L2 (specs/axilic/AxiLiteIcModel.tla): register-level model of _AXILiteRequestCounter, RoundRobin(SP_CE), "
                          "AXILiteArbiter, AXILiteDecoder and their compositions (point to point, shared without time-out, crossbar) "
                          "with the test bench; it gives no verdict - every edge of the complete G-mode graphs and every cycle of "
                          "runs with write and read traffic together must be reproduced by the model (else MODEL-DRIFT and "
                          "escalation), and the model is checked against the same clauses in M-mode with both directions in one "
                          "product (ReadWriteIndependent, DirectionsShareNothing are M-mode only)")
            run_l2(prop, report, tier, seed, l2state)
    except BaseException:
        if lane:
            lane[0].terminate()
        raise
    if lane:
        join_lane(report, lane, "axi4")
    report.cov["exhaustive"] = True
