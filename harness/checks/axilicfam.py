"""C08: AXI-Lite shared interconnect / crossbar, G-mode (one direction per configuration)."""
from ..gcheck import GFamily, run_batches
from ..families import axilic as fam

INVS = ["RoutedByAddress", "WFollowsItsAW", "DataExactlyOnce", "ResponseToIssuerInOrder", "FrozenWhileOutstanding",
        "ValidHold", "WValidHold"]
PROPS = ["Served", "ServedIfGaps"]
CM = {k: k for k in INVS}
CM["Served"] = "BoundedService"
CM["ServedIfGaps"] = "BoundedService"
FAMILY = GFamily("axilic/AxiLiteIcGraph", "axilic/AxiLiteIcTrace", "harness.families.axilic:make", hint=fam.Hint(),
                 fmt="hash", clause_map=CM,
                 describe=lambda s: "axi_lite.%s(%dx%d, %s, k=%s%s)" % (
                     s["kind"], s["n"], s["m"], "write" if s["dir"] == "w" else "read", s.get("k", 1),
                     (", timeout=%s" % s["timeout"] if s.get("timeout") else "") +
                     (", data before address" if s.get("earlyw") else "") +
                     (", other slave while outstanding" if s.get("xslave") else "")))


def run(prop, report, tier, seed):
    cfgs = fam.configs(tier, "C08")
    report.assume("AXI4-Lite masters/slaves hold valid and payload until ready; write data may precede, accompany or "
                  "follow its address; up to k outstanding requests per master and per slave; write and read "
                  "directions are explored separately (the interconnect keeps separate state per direction)")
    stats = run_batches(FAMILY, report, [cfgs[i:i + 4] for i in range(0, len(cfgs), 4)], INVS, PROPS,
                        spec_budget=0, total_budget=0)
    report.add(duts_explored=len(stats), clauses=INVS + PROPS, per_dut=stats)
    report.cov["exhaustive"] = True
