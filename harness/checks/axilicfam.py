"""C08: AXI-Lite and AXI4 shared interconnect / crossbar / arbiter / decoder, G-mode (one direction per
configuration).  The AXI4 (axi_full.py) batches run in a child process beside the AXI-Lite ones."""
import json
import multiprocessing as mp
import os
import traceback

from .. import gcheck
from ..gcheck import GFamily, run_batches
from ..graphloop import GraphLoop
from ..report import Report, MachineryError, ROOT, load_findings
from ..families import axilic as fam
from ..families import axiic as axi

INVS = ["RoutedByAddress", "WFollowsItsAW", "DataExactlyOnce", "ResponseToIssuerInOrder", "FrozenWhileOutstanding",
        "ValidHold", "WValidHold"]
PROPS = ["Served", "ServedIfGaps"]
CM = {k: k for k in INVS}
CM["Served"] = "BoundedService"
CM["ServedIfGaps"] = "BoundedService"
FAMILY = GFamily("axilic/AxiLiteIcGraph", "axilic/AxiLiteIcTrace", "harness.families.axilic:make", hint=fam.Hint(),
                 fmt="hash", clause_map=CM,
                 describe=lambda s: "axi_lite.%s(%dx%d, %s, k=%s%s)" % (
                     s["kind"], s["n"], s["m"], "write" if s["dir"] == "w" else "read", s.get("k", 1),
                     (", timeout=%s" % s["timeout"] if s.get("timeout") else "") +
                     (", data before address" if s.get("earlyw") else "") +
                     (", other slave while outstanding" if s.get("xslave") else "")))
# AXI4 (full): same clause names, judged by specs/axilic/AxiIcContract.tla
AXI_FAMILY = GFamily("axilic/AxiIcGraph", "axilic/AxiIcTrace", "harness.families.axiic:make", hint=axi.Hint(),
                     fmt="hash", clause_map=CM, describe=axi.describe)
NOTES = os.path.join(ROOT, "notes", "C08b_findings.json")


def notes_findings(prop, path=NOTES):
    """findings of the notes file that /verif/known_findings.json does not list yet (by id): lets the check run
    before the main agent has merged the notes"""
    if not os.path.exists(path):
        return []
    have = {f.get("id") for f in load_findings()}
    with open(path) as fh:
        return [f for f in json.load(fh) if f.get("id") not in have and f.get("property") == prop]


# ------------------------------------------------------------------------------------------------ AXI4 lane
class _HarvestLoop(GraphLoop):
    """GraphLoop that keeps the edges of the DUTs of every run that ended without a violation.  With
    spec_budget=0 every edge was requested by TLC, i.e. is reachable in the product with the environment:
    the witness counters below are computed from them (vacuity guard and evidence only, no verdict)."""
    harvested = []

    def __init__(self, *a, **kw):
        # the lane runs beside the main process: small stepper pool (a few thousand edges per round at most)
        kw.setdefault("workers", 4)
        super().__init__(*a, **kw)

    def close(self):
        if self.final is not None and not self.final.violated:
            for g in self.duts:
                ev = [(g.alphabet[k], o) for e in g.succ for k, (o, _) in e.items() if k in g.alphabet]
                _HarvestLoop.harvested.append((g.spec, g.cfg, ev))
        super().close()


def axi_witnesses(cfg, edges):
    """counts, over the reachable edges of one DUT, of the situations the AXI4 contract is about"""
    n, m, wr = cfg["n"], cfg["m"], cfg["dir"] == "w"
    w = dict.fromkeys(["address_stalled", "data_stalled", "response_stalled", "beat_without_last", "beat_with_last",
                       "response_id0", "response_id1", "address_without_data", "slave2_accepts", "master2_answered"], 0)
    for iv, o in edges:
        for i in range(n):
            c = iv[i]
            av, wv, wl, rr = c & 1, (c >> 5) & 1, (c >> 6) & 1, (c >> 7) & 1
            aready, wready, rvalid, _, rid, rlast = o[6 * i:6 * i + 6]
            w["address_stalled"] += bool(av and not aready)
            w["data_stalled"] += bool(wv and not wready)
            w["response_stalled"] += bool(rvalid and not rr)
            w["address_without_data"] += bool(wr and av and aready and not wv)
            if wr and wv and wready:
                w["beat_with_last" if wl else "beat_without_last"] += 1
            if rvalid and rr:
                w["response_id%d" % rid] += rid in (0, 1)
                if not wr:
                    w["beat_with_last" if rlast else "beat_without_last"] += 1
                if i == 1:
                    w["master2_answered"] += 1
        if m > 1:
            so = o[6 * n + 9:6 * n + 18]
            w["slave2_accepts"] += bool(so[0] and iv[n + 1] & 1)
    return w


def _axi_lane(conn, prop, tier, seed, findings):
    try:
        from .. import py312_tracer
        py312_tracer.install()
        gcheck.GraphLoop = _HarvestLoop
        rep = Report(prop, "%s-axi4" % tier, seed)
        rep.findings = findings
        log = lambda msg: print("[axi4] %s" % msg, flush=True)      # noqa
        groups = axi.configs(tier)
        stats = []
        # DUTs without arbitration: any traffic.  DUTs with an arbiter: traffic with gaps (cfg gaps=1) - under
        # back-to-back traffic the round-robin that only moves on an idle bus starves a master (listed finding,
        # shown by the "back-to-back traffic" demonstrations below).  Liveness clause of all of them: Served.
        b = groups["all"] + groups["arb"]
        per = 8 if tier == "quick" else 5
        stats += run_batches(AXI_FAMILY, rep, [b[i:i + per] for i in range(0, len(b), per)], INVS, ["Served"], log=log,
                             spec_budget=0, total_budget=0)
        nmain = len(stats)
        # demonstrations of the listed findings, one DUT per run
        run_batches(AXI_FAMILY, rep, [[x] for x in groups["demo"]], INVS, ["Served"], log=log, spec_budget=0, total_budget=0)
        # vacuity guard
        total = {}
        per = []
        for spec, cfg, ev in _HarvestLoop.harvested:
            w = axi_witnesses(cfg, ev)
            per.append({"dut": axi.describe(spec), "witnesses": w})
            if spec.get("nofollowup"):
                continue
            for k, v in w.items():
                total[(cfg["dir"], k)] = total.get((cfg["dir"], k), 0) + v
            need = ["beat_without_last", "beat_with_last", "response_id0", "response_id1", "response_stalled"]
            zero = [k for k in need if not w[k]]
            if zero:
                raise MachineryError("vacuous AXI4 run: %s never saw %s" % (axi.describe(spec), ", ".join(zero)))
        if not rep.violations:
            zero = sorted("%s/%s" % k for k, v in total.items() if not v and not (k[0] == "r" and k[1] in (
                "data_stalled", "address_without_data")))
            if zero or len([1 for s, _, _ in _HarvestLoop.harvested if not s.get("nofollowup")]) != nmain:
                raise MachineryError("vacuous AXI4 run: witness counters at zero: %s" % ", ".join(zero))
        rep.add(axi4_duts_explored=nmain, axi4_per_dut=stats, axi4_witnesses=per)
        conn.send({"cov": rep.cov, "violations": rep.violations, "known_hit": rep.known_hit, "notes": rep.notes})
    except MachineryError as ex:
        conn.send({"error": "[axi4] %s" % ex})
    except Exception:
        conn.send({"error": "[axi4] %s" % traceback.format_exc()[-3000:]})
    finally:
        conn.close()


def start_lane(target, args):
    import sys
    sys.stdout.flush()
    sys.stderr.flush()
    ctx = mp.get_context("fork")
    pc, cc = ctx.Pipe(duplex=False)
    p = ctx.Process(target=target, args=(cc,) + tuple(args))
    p.start()
    cc.close()
    return p, pc


def join_lane(report, lane, label, timeout=7200):
    p, pc = lane
    try:
        r = pc.recv() if pc.poll(timeout) else {"error": "[%s] lane timed out" % label}
    except EOFError:
        r = {"error": "[%s] lane died without a result" % label}
    p.join(10)
    if p.is_alive():
        p.terminate()
    if "error" in r:
        raise MachineryError(r["error"])
    cov = r["cov"]
    for s_ in cov.pop("samples", []):
        report.sample(s_, cap=12)
    report.add(**cov)
    report.violations.extend(r["violations"])
    for k in r["known_hit"]:
        if k not in report.known_hit:
            report.known_hit.append(k)
    report.notes.extend(r["notes"])


def run(prop, report, tier, seed):
    report.findings = list(report.findings) + notes_findings(report.prop)
    # AXI4 (full) twins: own process, beside the AXI-Lite batches
    lane = None
    if os.environ.get("VERIF_NO_AXI4"):          # development aid (timing of the AXI-Lite part alone); the evidence says so
        report.note("AXI4 batches skipped by VERIF_NO_AXI4")
    else:
        lane = start_lane(_axi_lane, (prop, tier, seed, report.findings))
    try:
        cfgs = fam.configs(tier, "C08")
        report.assume("AXI4-Lite masters/slaves hold valid and payload until ready; write data may precede, accompany or "
                      "follow its address; up to k outstanding requests per master and per slave; write and read "
                      "directions are explored separately (the interconnect keeps separate state per direction)")
        report.assume("AXI4 (axi_full.py): bursts of 1-2 beats (len 0/1), ids from a 2-value set, masters send write data "
                      "bursts in address order with exactly len+1 beats; slaves answer in acceptance order (no re-ordering "
                      "between ids, no read interleaving), B only after the address and the last data beat")
        if os.environ.get("VERIF_ONLY_AXI4"):      # development aid (mutation tests of axi_full.py); the evidence says so
            report.note("restricted to the AXI4 batches by VERIF_ONLY_AXI4")
            cfgs = []
        stats = run_batches(FAMILY, report, [cfgs[i:i + 4] for i in range(0, len(cfgs), 4)], INVS, PROPS,
                            spec_budget=0, total_budget=0)
        report.add(duts_explored=len(stats), clauses=INVS + PROPS, per_dut=stats)
    except BaseException:
        if lane:
            lane[0].terminate()
        raise
    if lane:
        join_lane(report, lane, "axi4")
    report.cov["exhaustive"] = True
