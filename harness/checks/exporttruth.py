"""C14: exported software maps tell the truth about the hardware.

R/T mode.  TLC prints SoC configurations and memory-image cases (specs/exporttruth/SocConfigs.tla: the
exhaustive core grid, a seeded -simulate sample of the full space, the exhaustive image cases); the
harness (harness/families/exporttruth.py) builds each as a REAL finalized SoC, lets the real Builder write
csr.h / soc.h / mem.h / csr.json / csr.csv / soc.svd, parses them, performs the accesses the generated
accessors perform through the SoC's own bus master in the Migen simulator and records facts; TLC judges
the facts (specs/exporttruth/ExportTruth.tla, one INVARIANT per clause).
"""
import json
import multiprocessing as mp
import os
import re
import shutil
import tempfile
import time

from .. import tlc as tlcmod
from ..report import MachineryError
from ..families import exporttruth as fam

GEN = "exporttruth/SocConfigs"
JUDGE = "exporttruth/ExportTruth"
CLAUSES = ["RegisterAtPublishedAddress", "MultiWordAccessorsCompose", "FieldMacrosTrue", "SvdFieldsTrue", "MemoryRegionAnswers",
           "CsrWindowAnswers", "ConstantsAndIrqs", "FormatsAgree", "MemImageLanes", "MemImageInRegion"]
ENVCLAUSES = ["EnvLegal"]
PLAN = {"quick": {"grid": True, "sample": 110, "imglen": 9, "chunk": 150},
        "thorough": {"grid": True, "sample": 2600, "imglen": 9, "chunk": 300}}


def _scratch():
    return tempfile.mkdtemp(prefix="verif-c14-", dir=os.environ.get("VERIF_SCRATCH", "/var/tmp"))


def prints(out, tag):
    """PrintT'ed tuples <<"tag", ...>> (TLC pretty-prints long ones over several lines as << "tag", ...)"""
    res = []
    for m in re.finditer(r'<<\s*"%s"' % re.escape(tag), out):
        j = m.start()
        depth, k, n = 0, j, len(out)
        while k < n:
            two = out[k:k + 2]
            if two == "<<":
                depth += 1
                k += 2
                continue
            if two == ">>":
                depth -= 1
                k += 2
                if depth == 0:
                    break
                continue
            if out[k] == '"':
                k += 1
                while out[k] != '"':
                    if out[k] == "\\":
                        k += 1
                    k += 1
            k += 1
        try:
            res.append(tlcmod.parse_value(out[j:k]))
        except Exception as ex:
            raise MachineryError("cannot parse TLC output %r: %s" % (out[j:j + 200], ex))
    return res


def _plain(x):
    if isinstance(x, tuple):
        return [_plain(y) for y in x]
    if isinstance(x, dict):
        return {k: _plain(v) for k, v in x.items()}
    return x


# ------------------------------------------------------------------------------------------ TLC: the spaces
def gen_space(mode, num, seed, scratch, imglen=9):
    cfg = 'INIT Init\nNEXT Next\nCHECK_DEADLOCK FALSE\nCONSTANT MODE = "%s"\nCONSTANT ImgMaxLen = %d\n' % (mode, imglen)
    if mode == "sample":
        res = tlcmod.run(GEN, cfg, workers=1, timeout=900, scratch=scratch, simulate="num=%d" % num,
                         extra=("-depth", "80", "-seed", str(seed + 1)))
    else:
        res = tlcmod.run(GEN, cfg, workers=4, timeout=900, scratch=scratch)
    if res.errors or res.violated:
        raise MachineryError("TLC failed on SocConfigs (%s): %s\n%s" % (mode, res.errors[:4], res.out[-1500:]))
    items = [_plain(p[1:]) for p in prints(res.out, "IMG" if mode == "images" else "CFG")]
    if mode == "sample" and len(items) != num:
        raise MachineryError("SocConfigs produced %d configurations, expected %d" % (len(items), num))
    if mode != "sample":
        items.sort(key=lambda x: json.dumps(x, sort_keys=True))
    return items, res


# ------------------------------------------------------------------------------------------ recording
def _soc_job(cfg):
    scratch = _soc_job.scratch
    t0 = time.time()
    try:
        f = fam.experiment(cfg, scratch)
    except fam.ParseError as ex:
        return {"id": cfg["id"], "cfg": cfg, "machinery": "cannot parse an exported file: %s" % ex}
    except Exception as ex:       # noqa
        import traceback
        return {"id": cfg["id"], "cfg": cfg, "machinery": "%s: %s\n%s" % (type(ex).__name__, ex, traceback.format_exc()[-1500:])}
    f["wall"] = round(time.time() - t0, 2)
    return f


def _init_worker(scratch):
    from .. import py312_tracer
    py312_tracer.install()
    _soc_job.scratch = scratch


def _pool(scratch):
    ctx = mp.get_context("fork")
    return ctx.Pool(min(16, os.cpu_count() or 4), initializer=_init_worker, initargs=(scratch,), maxtasksperchild=40)


def record_socs(cfgs, scratch, log=print):
    t0 = time.time()
    pool = _pool(scratch)
    try:
        # slow ones (AXI, crossbar) first
        order = sorted(range(len(cfgs)), key=lambda i: (cfgs[i]["std"] == "wishbone", cfgs[i]["ic"] == "shared", i))
        out = {}
        it = pool.imap_unordered(_soc_job, [cfgs[i] for i in order], chunksize=1)
        for _ in order:
            try:
                f = it.next(timeout=900)
            except mp.TimeoutError:
                raise MachineryError("a SoC experiment did not finish within 900 s")
            if "machinery" in f:
                raise MachineryError("SoC %s: %s" % (json.dumps(f["cfg"]), f["machinery"]))
            out[f["id"]] = f
    finally:
        pool.terminate()
    log("recorded %d SoCs in %.1fs" % (len(cfgs), time.time() - t0))
    return [out[c["id"]] for c in cfgs]


def _img_job(case):
    try:
        return fam.image_case(case, _soc_job.scratch)
    except Exception as ex:       # noqa
        import traceback
        return {"id": case[0], "machinery": "%s: %s\n%s" % (type(ex).__name__, ex, traceback.format_exc()[-1200:])}


def record_images(cases, scratch, log=print):
    t0 = time.time()
    pool = _pool(scratch)
    try:
        out = pool.map(_img_job, cases, chunksize=8)
    finally:
        pool.terminate()
    for f in out:
        if "machinery" in f:
            raise MachineryError("memory image case %s: %s" % (f["id"], f["machinery"]))
    log("recorded %d memory-image cases in %.1fs" % (len(cases), time.time() - t0))
    return out


# ------------------------------------------------------------------------------------------ judging (TLC)
def _strip(f):
    g = dict(f)
    g.pop("wall", None)
    return g


def judge(socs, images, scratch, clauses=CLAUSES, timeout=1500):
    """one TLC run -> (failures [(sid0, kind, i0, clause)], stats).  EnvLegal failures raise."""
    path = os.path.join(scratch, "facts%d.json" % (time.time_ns() % 10**9))
    with open(path, "w") as f:
        json.dump({"socs": [_strip(s) for s in socs], "images": images}, f, separators=(",", ":"))
    cfg = "INIT Init\nNEXT Next\nCHECK_DEADLOCK FALSE\n" + "".join("INVARIANT %s\n" % c for c in ENVCLAUSES + list(clauses))
    try:
        res = tlcmod.run(JUDGE, cfg, env={"TRACES": path}, workers=4, timeout=timeout, scratch=scratch, heap="10g",
                         extra=("-continue",))
    finally:
        os.unlink(path)
    if res.errors:
        raise MachineryError("TLC failed while judging: " + " | ".join(res.errors[:6]) + "\n" + res.out[-2500:])
    items = sum(1 + (len(s["regs"]) + len(s["wins"]) + len(s["banks"]) + len(s["regions"]) + len(s["irqs"])
                     if s["built"] else 0) for s in socs) + len(images)
    if res.distinct != 2 * items:
        raise MachineryError("judge visited %d states, expected %d" % (res.distinct, 2 * items))
    fails = []
    for p in prints(res.out, "FAIL"):
        _, sid, kind, i, cls = p
        for c in sorted(cls):
            fails.append((sid - 1, kind, i - 1, c))
    fails = sorted(set(fails))
    # the invariant violations TLC reports must be among the printed verdicts (it names one invariant per state)
    seen = set()
    for name, tr in res.all:
        if not tr:
            continue
        vs = tr[-1]["vars"]
        seen.add((vs.get("sid") - 1, vs.get("kind"), vs.get("i") - 1))
        if (vs.get("sid") - 1, vs.get("kind"), vs.get("i") - 1, name) not in set(fails):
            raise MachineryError("TLC reports %s violated at %r but the verdict record does not" % (name, vs))
    judged = set(ENVCLAUSES) | set(clauses)
    if seen != {f[:3] for f in fails if f[3] in judged}:
        raise MachineryError("invariant violations reported by TLC differ from the printed verdicts")
    env = [f for f in fails if f[3] in ENVCLAUSES]
    if env:
        sid, kind, i, _ = env[0]
        if kind == "img":
            what = images[sid]
        else:
            what = [socs[sid]["cfg"], kind, i, socs[sid][KEY[kind]][i] if kind in KEY else None]
        raise MachineryError("recorded facts are not what they claim to be (EnvLegal): %s" % json.dumps(what)[:1500])
    fails = [f for f in fails if f[3] in clauses]
    return fails, {"states": res.distinct, "transitions": res.generated, "wall": res.wall, "items": items}


# ------------------------------------------------------------------------------------------ signatures
ACCESS = ("RegisterAtPublishedAddress", "MultiWordAccessorsCompose", "CsrWindowAnswers")
KEY = {"reg": "regs", "win": "wins", "bank": "banks", "region": "regions", "irq": "irqs"}


def signature(socs, images, fail):
    sid, kind, i, clause = fail
    if kind == "img":
        m = images[sid]
        nb = m["dw"] // 8
        return {"clause": clause, "group": clause, "kind": "img", "dw": m["dw"], "e": m["e"], "mode": m["mode"],
                "off": m["off"], "aligned": all(f[0] % nb == 0 for f in m["files"]),
                "files": [[f[0], len(f[1])] for f in m["files"]]}
    s = socs[sid]
    c = s["cfg"]
    sig = {"clause": clause, "group": "csr-access" if clause in ACCESS else clause, "kind": kind}
    for k in ("std", "dw", "ic", "cdw", "ord", "paging", "caw", "cpu", "ctrl", "timer", "ident", "rsv0", "csrb"):
        sig[k] = c[k]
    sig["gap0"] = s.get("gap0", 0)
    sig["mems"] = c["mems"]
    sig["ps"] = c["ps"]
    if kind in KEY:
        it = s[KEY[kind]][i]
        sig["item"] = it["name"]
        if kind == "reg":
            sig.update({"rkind": it["kind"], "size": it["size"], "nwords": it["nw"]["h"], "atomic": it["atomic"]})
    return sig


def describe(socs, images, fail):
    sid, kind, i, clause = fail
    if kind == "img":
        m = images[sid]
        return ("%s: get_mem_data(data_width=%d, endianness=%s, %s, offset=0x%x) files (relative base, bytes) %s -> words %s; "
                "bytes seen per word and lane %s%s" % (clause, m["dw"], m["e"], m["mode"], m["off"], m["files"],
                                                      [hex(fam.from_bytes(w)) for w in m["words"]], m["lanes"],
                                                      " - refused with %s although there are bytes to place" % m["err"]
                                                      if m["refused"] else ""))
    s = socs[sid]
    c = s["cfg"]
    head = "%s: SoC %s %d-bit %s, CSR %d-bit %s ordering paging 0x%x" % (clause, c["std"], c["dw"], c["ic"], c["cdw"],
                                                                         c["ord"], c["paging"])
    if kind not in KEY:
        return head + " (SoC-level facts: constants / published names)"
    it = s[KEY[kind]][i]
    if kind == "reg":
        hx = lambda b: hex(fam.from_bytes(b)) if b else "-"      # noqa
        return (head + ": register %s (%s, %d bits) csr.h 0x%08x json 0x%08x csv 0x%08x svd %s; wrote %s with %s -> storage %s, "
                "changed watch ids %s (own %d); read %s -> hardware value %s" % (
                    it["name"], it["kind"], it["size"], fam.unA(it["a"]["h"]) if it["a"]["h"][0] >= 0 else -1,
                    fam.unA(it["a"]["json"]) if it["a"]["json"][0] >= 0 else -1,
                    fam.unA(it["a"]["csv"]) if it["a"]["csv"][0] >= 0 else -1,
                    [(w[0], hex(fam.unA(w[2]))) for w in it["svd"]],
                    hx(it["want"]), [(hex(fam.unA(o[0])), hx(o[1]), o[2]) for o in it["wops"]], hx(it["after"]), it["changed"],
                    it["wid"], [(hex(fam.unA(o[0])), hx(o[1]), o[2]) for o in it["rops"]], hx(it["truth"]))
                + ("; soc.svd fields (first bit of the word, name, lsb, msb, bitRange) %s, hardware fields (name, csr.h offset, "
                   "csr.h size, signal value) %s" % (it["svdf"], [(f["name"], f["off"], f["size"], hx(f["sig"])) for f in it["flds"]])
                   if clause == "SvdFieldsTrue" else ""))
    return head + ": %s %s" % (kind, json.dumps(it)[:900])


# ------------------------------------------------------------------------------------------ the check
def _ref_job(cfg):
    try:
        return fam.experiment(cfg, _soc_job.scratch, engine="ref")
    except Exception as ex:       # noqa
        import traceback
        return {"id": cfg["id"], "cfg": cfg, "machinery": "%s: %s\n%s" % (type(ex).__name__, ex, traceback.format_exc()[-1500:])}


def confirm_on_reference(socs, sids, scratch, log=print):
    """re-run the SoCs with the repository's reference simulator; the recorded facts must be identical
    (then TLC's verdict on them is the verdict on the real code)"""
    if not sids:
        return 0
    t0 = time.time()
    pool = _pool(scratch)
    try:
        out = pool.map(_ref_job, [socs[s]["cfg"] for s in sids], chunksize=1)
    finally:
        pool.terminate()
    for s, f in zip(sids, out):
        if "machinery" in f:
            raise MachineryError("reference simulation of SoC %d failed: %s" % (s, f["machinery"]))
        a, b = json.dumps(_strip(f), sort_keys=True), json.dumps(_strip(socs[s]), sort_keys=True)
        if a != b:
            raise MachineryError("compiled stepper and reference simulator (litex.gen.sim) record different facts for %s"
                                 % json.dumps(socs[s]["cfg"]))
    log("confirmed %d SoCs on the reference simulator in %.1fs" % (len(sids), time.time() - t0))
    return len(sids)


def _cost(s):
    c = s["cfg"]
    return (1000000 * s.get("dead", 0) + s.get("accesses", 0) * (1 if c["std"] == "wishbone" else 3) * (1 if c["ic"] == "shared" else 2)
            * (1 if c["cdw"] == 32 else 2))


def witnesses(socs, images):
    w = {"socs_built": 0, "socs_refused": 0, "registers": 0, "multiword_registers": 0, "registers_over_64_bits": 0,
         "registers_with_fields": 0, "atomic_registers": 0, "fixed_position_registers": 0, "reserved_fillers": 0,
         "csr_windows": 0, "regions": 0, "non_pow2_regions": 0, "interrupts": 0, "constants": 0, "bus_accesses": 0,
         "skipped_after_hang": 0, "images": len(images), "images_refused": sum(m["refused"] for m in images),
         "svd_fields_of_hardware_fields": 0, "svd_fields_split_over_words": 0, "wide_csr_windows": 0, "paged_csr_windows": 0, "csr_window_inner_probes": 0,
         "rom_images_add_rom": 0, "rom_images_init_rom": 0, "rom_images_big_endian": 0, "rom_image_bytes_read": 0,
         "rom_images_with_unaligned_tail": 0,
         "images_listed_highest_first": sum(1 for m in images if len(m["files"]) > 1 and m["files"][0][0] > m["files"][1][0])}
    combos = set()
    for s in socs:
        if not s["built"]:
            w["socs_refused"] += 1
            continue
        c = s["cfg"]
        w["socs_built"] += 1
        combos.add((c["std"], c["dw"], c["ic"], c["cdw"], c["paging"], c["ord"]))
        w["bus_accesses"] += s["accesses"]
        for r in s["regs"]:
            if not r["hw"]:
                w["reserved_fillers"] += 1
                continue
            if r["skip"]:
                w["skipped_after_hang"] += 1
            w["registers"] += 1
            w["multiword_registers"] += r["nw"]["h"] > 1
            w["registers_over_64_bits"] += r["W"] == 0
            w["registers_with_fields"] += bool(r["flds"])
            names = {f["name"] for f in r["flds"]}
            w["svd_fields_of_hardware_fields"] += sum(1 for e in r["svdf"] if e[1] in names)
            w["svd_fields_split_over_words"] += sum(1 for nm in names if sum(1 for e in r["svdf"] if e[1] == nm and e[3] >= e[2]) > 1)
            w["atomic_registers"] += r["atomic"] and r["nw"]["h"] > 1
        w["fixed_position_registers"] += sum(1 for p in c["ps"] for r in p[6] if r[4] >= 0)
        w["csr_windows"] += sum(1 for x in s["wins"] if x["probes"])
        for x in s["wins"]:
            if not x["probes"]:
                continue
            w["wide_csr_windows"] += x["width"] > c["cdw"]
            w["paged_csr_windows"] += any(p["page"] > 0 and p["pagereg"] == p["page"] for p in x["probes"])
            w["csr_window_inner_probes"] += sum(1 for p in x["probes"] if 0 < p["k"] < x["depth"] - 1)
        for g in s["regions"]:
            im = g["img"]
            if im["src"] == "none" or not im["rd"]:
                continue
            w["rom_images_add_rom"] += im["src"] == "file"
            w["rom_images_init_rom"] += im["src"] == "init"
            w["rom_images_big_endian"] += im["e"] == "big"
            w["rom_image_bytes_read"] += len(im["rd"])
            w["rom_images_with_unaligned_tail"] += len(im["file"]) % (c["dw"] // 8) != 0
        w["regions"] += len(s["regions"])
        w["non_pow2_regions"] += sum(1 for m in c["mems"] if m[3] & (m[3] - 1))
        w["interrupts"] += len(s["irqs"])
        w["constants"] += len(s["consts"])
    w["core_combinations"] = len(combos)
    return w


def run(prop, report, tier, seed, log=print):
    plan = PLAN[tier]
    scratch = _scratch()
    try:
        fam.preload()
        report.assume("access model of hw/common.h: csr_read_simple/csr_write_simple are 32-bit accesses at 4-byte aligned "
                      "addresses with little-endian byte lanes; AXI/AXI-Lite masters use bus-word aligned addresses and "
                      "select the lanes with strb (as LiteX's own bridges do)")
        report.assume("'nothing else changes' is observed on every CSRStorage of the SoC and on the first and last word of "
                      "every RAM/ROM and CSR-mapped memory, not on every bit of state")
        report.assume("SoC netlists are simulated with the harness's compiled FHDL stepper; every reported SoC and a sample "
                      "of passing ones are re-run on litex.gen.sim (reference simulator) and must record identical facts")
        report.assume("registers > 64 bits are accessed "
                      "with the big-endian loop of hw/common.h over CSR_<REG>_ADDR/SIZE; CSR memories wider than the CSR bus "
                      "are accessed most significant CSR word first (same loop), deeper than a page through <mem>_page; "
                      "ROM images are packed as the Builder packs the BIOS (get_mem_data, bus data width, CPU endianness), "
                      "init_rom with auto_size=False; plain CSR objects (event pending, "
                      "reserved fillers) are only checked for their published addresses; outside probes above a region "
                      "only for power-of-two sizes; big-endian lane rule: byte address a on lane n-1-(a mod n)")
        t0 = time.time()
        cfgs = []
        if plan["grid"]:
            items, res = gen_space("grid", 0, seed, scratch)
            cfgs += [x[0] for x in items]
            report.add(grid_configurations=len(items))
        items, res = gen_space("sample", plan["sample"], seed, scratch)
        cfgs += [x[0] for x in items]
        report.add(sampled_configurations=len(items), sample_seed=seed + 1)
        for n, c in enumerate(cfgs):
            c["id"] = n + 1
        items, res = gen_space("images", 0, seed, scratch, plan["imglen"])
        cases = [[n + 1] + x for n, x in enumerate(items)]
        log("TLC printed %d SoC configurations and %d memory-image cases in %.1fs" % (len(cfgs), len(cases), time.time() - t0))
        images = record_images(cases, scratch, log)
        socs = record_socs(cfgs, scratch, log)
        refused = [s for s in socs if not s["built"]]
        if refused:
            kinds = sorted({s["err"].split(":")[0] for s in refused})
            report.note("%d of %d configurations were refused by LiteX (%s): nothing is exported for them" % (
                len(refused), len(socs), ", ".join(kinds)))
        # ---- judge
        fails = []
        chunk = plan["chunk"]
        for k in range(0, len(socs), chunk):
            part = socs[k:k + chunk]
            f, st = judge(part, images if k == 0 else [], scratch)
            log("judge chunk %d/%d: %d items, TLC %.1fs, %d failing (item, clause) pairs" % (
                k // chunk + 1, (len(socs) + chunk - 1) // chunk, st["items"], st["wall"], len(f)))
            report.add(states=st["states"], transitions=st["transitions"])
            fails += [((sid + k) if kind != "img" else sid, kind, i, c) for sid, kind, i, c in f]
        wit = witnesses(socs, images)
        failing = {(f[0], f[2]) for f in fails if f[1] == "reg"}
        wit["registers_passing_every_clause"] = sum(
            1 for n, s in enumerate(socs) if s["built"] for k, r in enumerate(s["regs"])
            if r["hw"] and not r["skip"] and (n, k) not in failing)
        wit["multiword_registers_passing_every_clause"] = sum(
            1 for n, s in enumerate(socs) if s["built"] for k, r in enumerate(s["regs"])
            if r["hw"] and not r["skip"] and r["nw"]["h"] > 1 and (n, k) not in failing)
        report.add(**wit)
        for key in ("registers", "registers_passing_every_clause", "multiword_registers_passing_every_clause",
                    "multiword_registers", "registers_over_64_bits", "registers_with_fields", "atomic_registers",
                    "fixed_position_registers", "csr_windows", "regions", "interrupts", "images",
                    "wide_csr_windows", "paged_csr_windows", "csr_window_inner_probes", "rom_images_add_rom",
                    "rom_images_init_rom", "rom_images_big_endian", "rom_image_bytes_read",
                    "rom_images_with_unaligned_tail", "images_listed_highest_first", "svd_fields_of_hardware_fields",
                    "svd_fields_split_over_words"):
            if not wit[key]:
                raise MachineryError("vacuous run: witness counter %s is zero" % key)
        if plan["grid"] and wit["core_combinations"] < 144:
            raise MachineryError("only %d of the 144 core combinations were built" % wit["core_combinations"])
        # ---- group the failures: one report per known finding / per (clause, core signature)
        groups = {}
        for f in fails:
            sig = signature(socs, images, f)
            known = report.match_known(sig)
            if known is not None:
                key = ("known", known.get("id"))
            elif f[1] == "img":
                key = ("new", sig["clause"], sig["dw"], sig["e"], sig["aligned"])
            else:
                key = ("new", sig["clause"], f[1], sig["std"], sig["dw"], sig["cdw"], sig["ord"], sig["gap0"])
            cost = 0 if f[1] == "img" else _cost(socs[f[0]])
            if key not in groups or cost < groups[key][0]:
                groups[key] = (cost, f, sig)
            groups.setdefault(("n", key), [0])[0] += 1
        reps = sorted(((k, g) for k, g in groups.items() if k[0] != "n"), key=lambda kg: (kg[0][0] != "known", kg[1][0]))
        new = [kg for kg in reps if kg[0][0] == "new"]
        if len(new) > 6:
            report.note("%d distinct groups of new violations; the cheapest of every clause, then the cheapest others "
                        "(at least 6 in all) are confirmed and reported" % len(new))
            first = {}
            for kg in new:
                first.setdefault(kg[0][1], kg)
            head = list(first.values())
            rest = [kg for kg in new if all(kg is not h for h in head)]
            reps = [kg for kg in reps if kg[0][0] == "known"] + head + rest[:max(0, 6 - len(head))]
        # ---- confirm on the reference simulator: every SoC that is reported + the cheapest clean ones
        bad = {f[0] for f in fails if f[1] != "img"}
        ok = sorted((s for n, s in enumerate(socs) if s["built"] and n not in bad), key=_cost)
        clean = [s for s in ok if s["cfg"]["cpu"] == "none"][:1 if tier == "quick" else 3] + \
                [s for s in ok if s["irqs"]][:1 if tier == "quick" else 3]
        sids = sorted({g[1][0] for k, g in reps if g[1][1] != "img"} | {s["id"] - 1 for s in clean})
        nref = confirm_on_reference(socs, sids, scratch, log)
        for k, (cost, f, sig) in reps:
            if f[1] == "img":         # image cases are recorded on the reference simulator: re-run and compare
                again = fam.image_case([images[f[0]]["id"], images[f[0]]["dw"], images[f[0]]["e"], images[f[0]]["mode"],
                                        images[f[0]]["off"], [[x[0], len(x[1])] for x in images[f[0]]["files"]]], scratch)
                if again != images[f[0]]:
                    raise MachineryError("memory image case not reproduced: %r" % (images[f[0]],))
        report.add(reference_simulator_confirmations=nref)
        for k, (cost, f, sig) in reps:
            n = groups[("n", k)][0]
            text = describe(socs, images, f) + " [%d failing items in this group]" % n
            if f[1] == "img":
                replay = {"kind": "img", "case": images[f[0]], "clause": f[3]}
            else:
                replay = {"kind": "soc", "cfg": socs[f[0]]["cfg"], "item_kind": f[1], "item": f[2], "clause": f[3]}
            report.violation(sig, replay, text)
        judged = sum(1 for s in socs if s["built"])
        report.add(traces_validated_against_impl=judged + len(images), failing_item_clause_pairs=len(fails))
        shown = 0
        for s in socs:
            if s["built"] and s["id"] - 1 not in bad and shown < 4:
                r = max(s["regs"], key=lambda r: r["nw"]["h"])
                report.sample({"soc": {k: s["cfg"][k] for k in ("std", "dw", "ic", "cdw", "paging", "ord", "caw", "cpu", "csrb")},
                               "register": r["name"], "bits": r["size"], "csr_h": "0x%08x" % fam.unA(r["a"]["h"]),
                               "write_ops": [["0x%08x" % fam.unA(o[0]), "0x%x" % fam.from_bytes(o[1])] for o in r["wops"]],
                               "storage_after": "0x%x" % fam.from_bytes(r["after"]) if r["after"] else None,
                               "read_ops": [["0x%08x" % fam.unA(o[0]), "0x%x" % fam.from_bytes(o[1])] for o in r["rops"]],
                               "hardware_value": "0x%x" % fam.from_bytes(r["truth"])})
                shown += 1
        for m in images:
            if shown < 6 and not m["refused"] and m["dw"] == 32 and m["e"] == "big" and len(m["files"]) == 2:
                report.sample({"image": {k: m[k] for k in ("dw", "e", "mode", "off", "files")}, "lanes": m["lanes"]})
                shown += 2
        report.cov["exhaustive"] = False
    finally:
        shutil.rmtree(scratch, ignore_errors=True)


def replay(path):
    """rebuild the recorded SoC / image case on the current code (reference simulator) and judge it again"""
    from .. import py312_tracer
    py312_tracer.install()
    with open(path) as f:
        r = json.load(f)
    scratch = _scratch()
    try:
        fam.preload()
        if r["kind"] == "img":
            m = r["case"]
            again = fam.image_case([m["id"], m["dw"], m["e"], m["mode"], m["off"], [[x[0], len(x[1])] for x in m["files"]]], scratch)
            fails, _ = judge([], [again], scratch, clauses=[r["clause"]])
        else:
            facts = fam.experiment(r["cfg"], scratch, engine="ref")
            try:
                fails, _ = judge([facts], [], scratch, clauses=[r["clause"]])
            except MachineryError as ex:
                return False, [{"clause": "facts no longer well-formed on this code: %s" % ex}]
            same = [f for f in fails if f[1] == r["item_kind"] and f[2] == r["item"]]
            fails = same or fails
        return bool(fails), [{"clause": f[3], "item": [f[1], f[2]]} for f in fails]
    finally:
        shutil.rmtree(scratch, ignore_errors=True)
