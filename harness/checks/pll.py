"""C20: computed PLL/clock configurations meet the request and the device limits.

TLC enumerates / samples the request space (specs/pll/PllRequests.tla, alphabets restricted to the legal
ranges the REAL classes declare), the harness executes every request on the real helper classes of
litex.soc.cores.clock (harness/families/pll.py) and TLC judges the recorded outcomes with exact integer
arithmetic (specs/pll/PllConfig.tla; clauses MeetsRequest, InsideRanges, InstanceEqualsConfig,
RefusedOnlyIfInfeasible; ModelComplete is a self check of the specification's own search).

Besides the sampled classes and the "single"/"full" enumerations, PllRequests enumerates the band-edge requests
(MODE "edge", class 9): output frequencies around VCO_min / largest divider, VCO_max / smallest divider and the
declared ends of the legal output range, with margins up to 10 %, i.e. the requests whose only (or best) settings
sit at the very end of a declared divider range.
"""
import json
import multiprocessing
import os
import re
import shutil
import tempfile
import time
from fractions import Fraction

from .. import tlc
from ..families import pll as fam
from ..report import MachineryError

CLAUSES = ["MeetsRequest", "InsideRanges", "InstanceEqualsConfig", "RefusedOnlyIfInfeasible"]
SELF = ["ModelComplete"]

_XUS = ["USPLL", "USMMCM", "USPPLL"]
_INTEL = ["CycloneIVPLL", "CycloneVPLL", "Cyclone10LPPLL", "Max10PLL", "StratixVPLL"]
_GOWIN = ["GW1NPLL", "GW2APLL", "GW5APLL"]


def _g(name, helpers, sample, single=0, full=0, edge=0, edge_outs=1):
    """sample: number of TLC-simulated requests; single / full / edge: cap of the exhaustive enumerations of all
    one-output requests / of all ways to fill every output from the small alphabet / of all requests of
    1..edge_outs outputs at the edges of the reachable output band (0 = not run)"""
    return {"name": name, "helpers": helpers, "sample": sample, "single": single, "full": full, "edge": edge,
            "edge_outs": edge_outs}


PLAN = {
    "quick": [
        _g("xilinx7", ["S7PLL", "S7MMCM"], 220, edge=60),
        _g("lattice", ["ECP5PLL", "iCE40PLL"], 260, full=2000, edge=40),
        _g("xilinx6us", ["S6PLL", "S6DCM"] + _XUS, 120, edge=100),
        _g("uspmmcm", ["USPMMCM"], 30, edge=24),
        _g("nx", ["NXPLL"], 60, edge=16),
        _g("intel", _INTEL, 80, edge=120),
        _g("gowin", _GOWIN, 180, edge=100),
        _g("trion", ["TRIONPLL"], 60, edge=18),
    ],
    "thorough": [
        _g("xilinx7", ["S7PLL", "S7MMCM"], 2500, single=3000, full=2500, edge=800, edge_outs=2),
        _g("lattice", ["ECP5PLL", "iCE40PLL"], 3000, single=3000, full=2500, edge=840, edge_outs=2),
        _g("xilinx6", ["S6PLL", "S6DCM"], 1200, single=1500, full=1000, edge=600, edge_outs=2),
        _g("xilinxus", _XUS, 1500, single=1500, full=1500, edge=600, edge_outs=2),
        _g("uspmmcm", ["USPMMCM"], 500, edge=200, edge_outs=2),
        _g("nx", ["NXPLL"], 800, single=600, full=600, edge=200, edge_outs=2),
        _g("intel", _INTEL, 1500, full=1000, edge=1400, edge_outs=2),
        _g("gowin", _GOWIN, 2000, single=1500, full=800, edge=1000, edge_outs=2),
        _g("trion", ["TRIONPLL"], 800, single=600, edge=72, edge_outs=2),
    ],
}
CHUNK = 4000      # cases per judging TLC run


# ------------------------------------------------------------------------------------------ TLC output
def prints(out, tag):
    """PrintT'ed tuples <<"tag", ...>> (TLC pretty-prints long ones over several lines as << "tag", ...)"""
    res = []
    for m in re.finditer(r'<<\s*"%s"' % re.escape(tag), out):
        j = m.start()
        depth, k, n = 0, j, len(out)
        while k < n:
            two = out[k:k + 2]
            if two == "<<":
                depth += 1
                k += 2
                continue
            if two == ">>":
                depth -= 1
                k += 2
                if depth == 0:
                    break
                continue
            if out[k] == '"':
                k += 1
                while out[k] != '"':
                    if out[k] == "\\":
                        k += 1
                    k += 1
            k += 1
        try:
            res.append(tlc.parse_value(out[j:k]))
        except Exception as ex:
            raise MachineryError("cannot parse TLC output %r: %s" % (out[j:j + 200], ex))
    return res


# ------------------------------------------------------------------------------------------ requests (TLC)
def gen_requests(devs, mode, num, seed, scratch, maxouts=7):
    path = os.path.join(scratch, "devices_%d.json" % (time.time_ns() % 10**9))
    with open(path, "w") as f:
        json.dump(devs, f)
    cfg = 'INIT Init\nNEXT Next\nCHECK_DEADLOCK FALSE\nCONSTANT MODE = "%s"\nCONSTANT MaxOuts = %d\n' % (mode, maxouts)
    if mode == "sample":
        res = tlc.run("pll/PllRequests", cfg, env={"DEVICES": path}, workers=1, timeout=900, scratch=scratch,
                      simulate="num=%d" % num, extra=("-depth", "40", "-seed", str(seed + 1)))
    else:
        res = tlc.run("pll/PllRequests", cfg, env={"DEVICES": path}, workers=4, timeout=900, scratch=scratch)
    if res.errors or res.violated:
        raise MachineryError("TLC failed on PllRequests: %s\n%s" % (res.errors[:4], res.out[-1500:]))
    reqs = []
    for p in prints(res.out, "REQ"):
        _, dv, fin, vm, outs = p
        d = devs[dv - 1]
        reqs.append({"h": d["helper"], "v": d["variant"], "fin": fin, "vm": list(vm), "fbk": 0,
                     "outs": [list(o) for o in outs]})
    if mode == "sample" and len(reqs) != num:
        raise MachineryError("PllRequests produced %d requests, expected %d" % (len(reqs), num))
    return reqs, res


def _key(r):
    return json.dumps(r, sort_keys=True)


def _thin(ex, cap):
    """deterministic thinning of a (sorted) exhaustive enumeration to at most cap requests: fixed stride"""
    if len(ex) <= cap:
        return ex
    step = len(ex) / cap
    return [ex[int(i * step)] for i in range(cap)]


# ------------------------------------------------------------------------------------------ judge (TLC)
def judge(cases, scratch, timeout=1700, workers=16):
    """-> (verdicts by 0-based case index, failures [(index, clause)], witnesses {index: witness}, stats)"""
    path = os.path.join(scratch, "cases_%d.json" % (time.time_ns() % 10**9))
    with open(path, "w") as f:
        json.dump(cases, f, separators=(",", ":"))
    lines = ["INIT Init", "NEXT Next", "CHECK_DEADLOCK FALSE"] + ["INVARIANT " + c for c in CLAUSES + SELF]
    res = tlc.run("pll/PllConfig", "\n".join(lines) + "\n", env={"CASES": path}, workers=workers, timeout=timeout,
                  scratch=scratch, extra=("-continue",))
    if res.errors:
        raise MachineryError("TLC failed on PllConfig: " + " | ".join(res.errors[:6]) + "\n" + res.out[-3000:])
    verdicts = {}
    for p in prints(res.out, "VERDICT"):
        verdicts[p[1] - 1] = p[2]
    if len(verdicts) != len(cases) or res.distinct != 2 * len(cases):
        raise MachineryError("PllConfig judged %d of %d cases (%d states)" % (len(verdicts), len(cases), res.distinct))
    wit = {p[1] - 1: p[2] for p in prints(res.out, "WITNESS")}
    fails = []
    seen = set()
    for name, tr in res.all:
        if not tr:
            continue
        tid = tr[-1]["vars"].get("tid")
        if (tid, name) not in seen:
            seen.add((tid, name))
            fails.append((tid - 1, name))
    # the invariant failures TLC reports must be exactly the zero entries of the verdict records
    field = {"MeetsRequest": "meets", "InsideRanges": "ranges", "InstanceEqualsConfig": "inst",
             "RefusedOnlyIfInfeasible": "refuse", "ModelComplete": "model"}
    zero = {(i, cl) for i, v in verdicts.items() for cl, fld in field.items() if v[fld] == 0}
    # (with -continue TLC names only the first violated invariant of a state; the verdict record, computed by the
    #  same specification, names all of them)
    if not set(fails) <= zero or {i for i, _ in fails} != {i for i, _ in zero}:
        raise MachineryError("invariant failures reported by TLC differ from the verdict records: only TLC %r, only records %r"
                             % (sorted(set(fails) - zero)[:5], sorted(zero - set(fails))[:5]))
    fails = sorted(zero)
    return verdicts, sorted(fails), wit, {"states": res.distinct, "transitions": res.generated, "wall": res.wall}


# ------------------------------------------------------------------------------------------ python cross-check
def _in_ranges(x, rs):
    return any(lo <= x < hi and (x - lo) % st == 0 for lo, hi, st in rs)


def _check_witness(case, w):
    """ADDITIONAL cross check (never the verdict): the setting TLC exhibits for a refused request is recomputed
    with python Fractions; a disagreement is a machinery error, not a verdict."""
    d, r = case["dev"], case["req"]
    fin = Fraction(r["fin"])
    vm = Fraction(r["vm"][0], r["vm"][1])
    outs = r["outs"]

    def iv(x, b):
        return b[0] <= x and (b[1] < 0 or x <= b[1])

    def vco_ok(v):
        return v >= d["vco"][0] * (1 + vm) and (d["vco"][1] < 0 or v <= d["vco"][1] * (1 - vm))

    def meets(out, o):
        return abs(out - o[0]) <= Fraction(o[0] * o[2], o[3])
    kind = d["kind"]
    if kind == "nmd":
        n, m, ds, sc = w["n"], w["m"], list(w["d"]), w["sc"]
        return (iv(n, d["n"]) and _in_ranges(m, [d["m"]]) and iv(fin / n, d["pfd"]) and vco_ok(fin * m / (sc * n))
                and all(_in_ranges(ds[i], d["d"][i]) and meets(fin * m / (n * ds[i]), outs[i]) for i in range(len(outs))))
    if kind == "ecp5":
        ci, fb, ds, fbk, dfb = w["ci"], w["fb"], list(w["d"]), w["fbk"], w["dfb"]
        vco = fin / ci * fb * dfb
        return (iv(ci, d["ci"]) and iv(fb, d["fb"]) and iv(dfb, d["co"]) and iv(fin / ci, d["pfd"]) and vco_ok(vco)
                and (ds[fbk - 1] == dfb if fbk <= len(outs) else len(outs) < d["nmax"])
                and all(iv(ds[i], d["co"]) and meets(vco / ds[i], outs[i]) for i in range(len(outs))))
    if kind == "gw5a":
        i_, f_, m_, od = w["idiv"], w["fdiv"], w["mdiv"], list(w["odiv"])
        vco = fin / i_ * f_ * m_
        return (iv(i_, d["idiv"]) and iv(f_, d["fdiv"]) and iv(m_, d["mdiv"]) and iv(fin / i_, d["pfd"]) and vco_ok(vco)
                and all(iv(od[i], d["odiv"]) and meets(vco / od[i], outs[i]) for i in range(len(outs))))
    if kind == "gw1n":
        i_, f_, o_, s_, pd = w["idiv"], w["fdiv"], w["odiv"], w["sdiv"], list(w["port_div"])
        clk = fin * f_ / i_
        return (iv(i_, d["idiv"]) and iv(f_, d["fdiv"]) and o_ in d["odiv"] and iv(fin / i_, d["pfd"]) and vco_ok(clk * o_)
                and len(set(pd)) == len(pd) and all(x in (1, 3, s_) for x in pd) and s_ % 2 == 0 and iv(s_, d["sdiv"])
                and all(meets(clk / pd[i], outs[i]) for i in range(len(outs))))
    return True


def _norm(items):
    return sorted({re.sub(r"\d+", "#", x) for x in items})


def _signature(case, clause, verdict, witness):
    """identifies the failing input CLASS: helper (+ family), clause and
    - for refusals: exception class, normalised message, stage, whether all outputs are used, and what the
      setting TLC exhibits looks like (ECP5: which outputs could carry the feedback; Gowin rPLL: whether the
      highest requested frequency has to come from a divided port),
    - for the other clauses: the names of the failing items (indices replaced by #)."""
    req, d = case["req"], case["dev"]
    sig = {"helper": req["h"], "family": d["sub"], "clause": clause}
    if clause == "RefusedOnlyIfInfeasible":
        sig["exception"] = case["exc"]
        sig["message"] = re.sub(r"\d+(\.\d+)?(e[+-]?\d+)?", "#", case["msg"])[:48]
        sig["stage"] = case["stage"]
        sig["all_outputs_used"] = len(req["outs"]) == d["nmax"]
        if isinstance(witness, dict) and "fbks" in witness:
            # ECP5 with all outputs used: which outputs could carry the feedback in the exhibited setting, and is
            # there any setting at all whose feedback does not run through the first output
            sig["feedback_candidates"] = sorted(witness["fbks"])
            sig["feasible_with_feedback_on_other_output"] = bool(witness["fb_other"])
        if isinstance(witness, dict) and "port_div" in witness:
            # Gowin rPLL: can the highest requested frequency come straight from CLKOUT at all, and is the output
            # the solver takes as its reference (largest margin, first among equals) the highest one
            fmax = max(o[0] for o in req["outs"])
            ref = max(req["outs"], key=lambda o: Fraction(o[2], o[3]))
            sig["feasible_with_highest_on_CLKOUT"] = bool(witness["direct"])
            sig["reference_output_is_highest"] = ref[0] == fmax
    else:
        idx = {"MeetsRequest": 0, "InsideRanges": 1, "InstanceEqualsConfig": 2}[clause]
        sig["items"] = _norm(verdict["bad"][idx])
    return sig


def _describe(case, clause, verdict, witness):
    req = case["req"]
    u = fam.UNIT / 1e6
    outs = ", ".join("%gMHz/%d deg/%s" % (o[0] * u, o[1], ("%d/%d" % (o[2], o[3])) if o[2] else "0") for o in req["outs"])
    t = "%s(%s) clkin=%gMHz outs=[%s] vco_margin=%d/%d: " % (req["h"], req["v"], req["fin"] * u, outs, req["vm"][0], req["vm"][1])
    if clause == "RefusedOnlyIfInfeasible":
        t += "refused with %s(%s) in %s although the declared ranges contain the setting %s" % (
            case["exc"], case["msg"], case["stage"], json.dumps(witness, default=lambda o: sorted(o)))
    else:
        idx = {"MeetsRequest": 0, "InsideRanges": 1, "InstanceEqualsConfig": 2}[clause]
        cfg = {k: v / 8 for k, v in case["cfg"].items() if k != "_"}
        t += "%s fails for %s; config=%s" % (clause, sorted(verdict["bad"][idx]), json.dumps(cfg))
        if clause == "InstanceEqualsConfig":
            t += " instance=%s %s" % (case["inst"]["of"], json.dumps({k: v / 8 for k, v in case["inst"]["p"].items() if k != "_"}))
    return t


def _strip(case):
    return {k: v for k, v in case.items() if k != "dev"}


# ------------------------------------------------------------------------------------------ main
def _pool_run(reqs):
    if not reqs:
        return []
    n = min(16, os.cpu_count() or 1)
    ctx = multiprocessing.get_context("fork")
    with ctx.Pool(n) as pool:
        return pool.map(fam.run_request, reqs, chunksize=max(1, len(reqs) // (n * 8)))


def run(prop, report, tier, seed):
    scratch = tempfile.mkdtemp(prefix="pllc20-", dir=os.environ.get("VERIF_SCRATCH", "/var/tmp"))
    try:
        _run(prop, report, tier, seed, scratch)
    finally:
        shutil.rmtree(scratch, ignore_errors=True)


def _run(prop, report, tier, seed, scratch):
    t0 = time.time()
    try:
        devs = fam.device_table()
    except fam.Undeclarable as ex:
        raise MachineryError("declared range not expressible: %s" % ex)
    devidx = {(d["helper"], d["variant"]): d for d in devs}
    report.assume("frequencies are multiples of 125 kHz up to 800 MHz; margins in {0, 1e-4, 1e-3, 1e-2}; vco_margin in "
                  "{0, 5%}; phases in {0,45,90,135,180,270}")
    report.assume("band-edge requests (class 9 of PllRequests): the 125 kHz grid points around VCO_min / largest output "
                  "divider and VCO_max / smallest output divider and the declared ends of the legal output range, all "
                  "computed by TLC from the declared ranges, margins in {1, 2, 5, 10} %, phase 0; enumerated exhaustively "
                  "for 1..edge_outs outputs from clkin in {25, 50, 100} MHz (thinned to the cap of the tier by a fixed "
                  "stride) and drawn as one more class of the sampled requests")
    report.assume("the device ranges are those the real classes declare at run time (class/instance attributes, "
                  "get_*_range()); where a helper declares a range only as a literal inside compute_config the harness "
                  "copies that literal: " + "; ".join(sorted({"%s: %s" % (d["helper"], l) for d in devs for l in d["literal"]})))
    report.assume("floating point: a candidate within 1e-9 relative of a margin / range boundary, or mathematically on it "
                  "while clkin/divider is not a whole number of Hz, is indeterminate: never a violation, never a witness")
    report.assume("any exception raised by register_clkin / create_clkout / finalize counts as a refusal of the request; "
                  "the refusal clause is judged for requests inside the declared clkin / clkout ranges (Gowin: all "
                  "phases 0; Gowin rPLL search: at most one requested clock per port CLKOUT, CLKOUTD, CLKOUTD3)")
    report.assume("Intel: the config dict holds M and C_i*N only; N is any declared divider consistent with them. "
                  "TRIONPLL runs on a stub of EfinixPlatform (the real one needs the Efinity data base), clock input from "
                  "the fabric, first output is the feedback, margin 0 only (compute_config ignores margins); its emitted "
                  "'instance' is the interface-designer block the configuration is written into")
    report.assume("phase parameters are compared per primitive encoding (Xilinx/GW5A: equal to the config entry; ECP5 "
                  "CPHASE/FPHASE and NX DELx: phase in divider steps; ALTPLL: picoseconds +-1); whether a phase is "
                  "achievable is not part of C20")
    # ---- 1. requests from the TLA+ request space
    reqs, seen = [], set()
    groups = {}
    tlc_states = tlc_trans = 0
    for g in PLAN[tier]:
        gd = [d for d in devs if d["helper"] in g["helpers"]]
        got, res = gen_requests(gd, "sample", g["sample"], seed, scratch)
        tlc_states += res.generated
        extra = {}
        for mode, maxouts in (("single", 1), ("full", 4), ("edge", g["edge_outs"])):
            extra[mode] = []
            if g[mode]:
                ex, res2 = gen_requests(gd, mode, 0, seed, scratch, maxouts=maxouts)
                tlc_states += res2.distinct
                ex.sort(key=_key)
                if mode == "edge":                  # the one-output requests first, the cap is filled with the others
                    one = _thin([r for r in ex if len(r["outs"]) == 1], g[mode])
                    ex = one + _thin([r for r in ex if len(r["outs"]) > 1], g[mode] - len(one))
                else:
                    ex = _thin(ex, g[mode])
                extra[mode] = ex
        n0 = len(reqs)
        for r in got + extra["single"] + extra["full"] + extra["edge"]:
            k = _key(r)
            if k not in seen:
                seen.add(k)
                reqs.append(r)
        groups[g["name"]] = {"helpers": g["helpers"], "sampled": len(got), "single_output_enumerated": len(extra["single"]),
                             "all_outputs_enumerated": len(extra["full"]),
                             "band_edge_enumerated": len(extra["edge"]), "distinct_requests": len(reqs) - n0}
    t1 = time.time()
    # ---- 2. execute on the real helpers
    cases = _pool_run(reqs)
    for c in cases:
        if "harness_error" in c:
            raise MachineryError("harness failed on %r: %s" % (c["req"], c["harness_error"]))
        c["dev"] = devidx[(c["req"]["h"], c["req"]["v"])]
    t2 = time.time()
    # ---- 3. judge
    verdicts, fails, wit = {}, [], {}
    st = {"states": 0, "transitions": 0, "wall": 0.0, "runs": 0}
    for lo in range(0, len(cases), CHUNK):
        v1, f1, w1, s1 = judge(cases[lo:lo + CHUNK], scratch)
        verdicts.update({lo + i: v for i, v in v1.items()})
        fails += [(lo + i, cl) for i, cl in f1]
        wit.update({lo + i: w for i, w in w1.items()})
        for k2 in ("states", "transitions", "wall"):
            st[k2] += s1[k2]
        st["runs"] += 1
    t3 = time.time()
    # ---- 4. verdict protocol
    per = {}
    indet = {"MeetsRequest": 0, "InsideRanges": 0, "RefusedOnlyIfInfeasible": 0}
    for i, c in enumerate(cases):
        v = verdicts[i]
        p = per.setdefault(c["req"]["h"], {"requests": 0, "configured": 0, "refused": 0, "refusals_judged_infeasible": 0})
        p["requests"] += 1
        p["configured" if v["res"] == "ok" else "refused"] += 1
        if v["refuse"] == 2:
            p["refusals_judged_infeasible"] += 1
        for cl, fld in (("MeetsRequest", "meets"), ("InsideRanges", "ranges"), ("RefusedOnlyIfInfeasible", "refuse")):
            if v[fld] == 1:
                indet[cl] += 1
    for i, clause in fails:
        c, v = cases[i], verdicts[i]
        if clause in SELF:
            raise MachineryError("specification self check %s failed: the search of PllModel does not find the accepted "
                                 "configuration the code returned for %r (cfg %r)" % (clause, c["req"], c["cfg"]))
        again = fam.run_request(c["req"])                    # confirm on the real code, fresh instance
        again["dev"] = c["dev"]
        if _strip(again) != _strip(c):
            raise MachineryError("outcome of %r is not reproducible" % (c["req"],))
        w = wit.get(i)
        if clause == "RefusedOnlyIfInfeasible":
            if not isinstance(w, dict) or not _check_witness(c, w):
                raise MachineryError("the setting %r TLC exhibits for the refused request %r does not pass the "
                                     "python cross check" % (w, c["req"]))
        sig = _signature(c, clause, v, w)
        report.violation(sig, {"request": c["req"], "device": c["dev"], "outcome": _strip(c), "clause": clause,
                               "witness": w, "verdict": v}, _describe(c, clause, v, w))
    report.add(states=st["states"] + tlc_states, transitions=st["transitions"],
               traces_validated_against_impl=len(cases))
    report.add(requests=len(cases), groups=groups, per_helper=per, indeterminate_excluded=indet, clauses=CLAUSES,
               not_covered=fam.NOT_COVERED,
               timing={"requests_tlc_s": round(t1 - t0, 1), "real_code_s": round(t2 - t1, 1), "judge_tlc_s": round(t3 - t2, 1)})
    k = 0
    for i, c in enumerate(cases):
        if k < 8 and (i % max(1, len(cases) // 8) == 0):
            report.sample({"request": c["req"], "result": c["res"], "exception": c["exc"],
                           "config_x8": {a: b for a, b in c["cfg"].items() if a != "_"},
                           "instance": c["inst"]["of"], "verdict": verdicts[i]})
            k += 1
    # vacuity: every helper family of the plan produced accepted configurations, and for every model kind the
    # refusal search really ran
    fams, kinds = {}, {}
    for i, c in enumerate(cases):
        f = fams.setdefault(c["dev"]["sub"], {"configured": 0, "refused": 0, "refusals_searched": 0})
        f["configured" if verdicts[i]["res"] == "ok" else "refused"] += 1
        f["refusals_searched"] += verdicts[i]["refuse"] in (0, 1, 2)
        kinds[c["dev"]["kind"]] = kinds.get(c["dev"]["kind"], 0) + (verdicts[i]["refuse"] in (0, 1, 2))
    report.add(per_family=fams)
    for f, n in sorted(fams.items()):
        if not n["configured"]:
            raise MachineryError("vacuous run for family %s: %r" % (f, n))
    for k2, n in sorted(kinds.items()):
        if not n:
            raise MachineryError("vacuous run: no refusal judged for model kind %s" % k2)


def replay(path):
    with open(path) as f:
        rp = json.load(f)
    scratch = tempfile.mkdtemp(prefix="pllc20-", dir=os.environ.get("VERIF_SCRATCH", "/var/tmp"))
    try:
        c = fam.run_request(rp["request"])
        c["dev"] = fam.describe(rp["request"]["h"], rp["request"]["v"])
        verdicts, fails, wit, st = judge([c], scratch, workers=2)
        hit = [cl for i, cl in fails if cl == rp["clause"]]
        return bool(hit), [{"clause": cl} for i, cl in fails]
    finally:
        shutil.rmtree(scratch, ignore_errors=True)
