"""C17: 8b/10b coding is invertible, DC-balanced and comma-safe.

 part 1  tables   - the implementation's Enc / Dec function tables are read exhaustively from the
                    real SingleEncoder / Decoder netlists (both bit orders) and judged by TLC
                    (specs/code8b10b/Code8b10b.tla): round trip, balance, run length over ALL symbol
                    sequences, no false comma in ALL data sequences, impossible weight => invalid.
 part 2  words    - T-mode: cycle traces of the real Encoder (1..4 words, both bit orders, random
                    clock enable) and Decoder against Code8b10bWords.tla (disparity chaining).
 part 3  stream G - G-mode: StreamEncoder / StreamDecoder x all valid/ready schedules over small
                    lane alphabets against Code8b10bStream.tla (closed-loop graph construction).
 part 4  stream T - T-mode: Migen simulations of the wrappers with 1..4 words at the full alphabet.
"""
import importlib.util
import json
import os
import random
import shutil
import tempfile

from .. import tlc as tlcmod
from .. import tracecheck
from ..gcheck import GFamily, run_batches, replay_file
from ..report import MachineryError
from ..families import code8b10b as fam

TABLE_MODULE = "code8b10b/Code8b10b"
WORDS_MODULE = "code8b10b/Code8b10bWords"
TABLE_INVS = ["TablesWellFormed", "RoundTrip", "EncodedNotInvalid", "InvalidOnImpossibleWeight",
              "DisparityWithinOne", "DisparityFlagTruthful", "RunLength", "NoFalseComma"]
WORDS_INVS = ["DisparityChaining", "DecoderFollowsTable"]
G_INVS = ["ChainedInOrder", "Bounded", "ValidHold"]
G_PROPS = ["NothingLost", "Progress"]
T_INVS = ["ChainedInOrderT", "BoundedT", "ValidHoldT", "BoundedProgress", "BoundedDelivery"]

FAMILY = GFamily("code8b10b/Code8b10bStreamGraph", "code8b10b/Code8b10bStreamTrace",
                 "harness.families.code8b10b:make", hint=fam.Hint(),
                 clause_map={"ChainedInOrder": "ChainedInOrderT", "Bounded": "BoundedT", "ValidHold": "ValidHoldT",
                             "NothingLost": "BoundedDelivery", "Progress": "BoundedProgress"},
                 describe=lambda s: "%s(nwords=%d, idle payload %s)" % (s["cls"], s["n"], s.get("idle", "zero")))

ENV = "C8B10B_TABLES"


def _scratch():
    return tempfile.mkdtemp(prefix="verif-c17-", dir=os.environ.get("VERIF_SCRATCH", "/var/tmp"))


def _publish_tables(scratch):
    """record the tables from the real netlists and make them visible to every TLC run of this process"""
    tables, nsteps = fam.record_tables()
    path = os.path.join(scratch, "tables.json")
    with open(path, "w") as f:
        json.dump(tables, f, separators=(",", ":"))
    os.environ[ENV] = path
    return tables, nsteps, path



def initial_violations(out):
    """TLC prints an invariant violated by an *initial* state without a numbered trace; harness/tlc.py
    only collects numbered traces.  -> list of (invariant name, variables of the state)"""
    import re
    res = []
    for m in re.finditer(r"(?m)^Error: Invariant (\w+) is violated by the initial state:\n((?:.+\n)+)", out):
        vs = {}
        for part in re.split(r"(?m)^/\\ ", m.group(2)):
            part = part.strip()
            if not part:
                continue
            k, _, val = part.partition(" = ")
            try:
                vs[k.strip()] = tlcmod.parse_value(val.strip())
            except Exception:
                vs[k.strip()] = val.strip()
        res.append((m.group(1), vs))
    return res


# ----------------------------------------------------------------------------- part 1: tables
def _table_cfg(invs):
    return "INIT Init\nNEXT Next\nCHECK_DEADLOCK FALSE\nALIAS Alias\n" + "".join("INVARIANT %s\n" % i for i in invs)


def _reference_rerun(lsb, rd0, syms):
    """confirmation on the real code: the symbol sequence of a counterexample is pushed through a fresh
    real SingleEncoder with the repository's reference evaluator, the disparity output chained back
    into disp_in exactly as Encoder does; returns [[code, disp_out], ...]"""
    from ..fhdl_step import Stepper
    from litex.soc.cores import code_8b10b as c8
    e = c8.SingleEncoder(bool(lsb))
    st = Stepper(e, [e.d, e.k, e.disp_in, e.ce], [e.output, e.disp_out], engine="ref")
    out = []
    rd = rd0
    st.load(st.reset_state, (0, 0, rd, 1))
    for d, k in syms:
        st.load(st.state(), (d, k, rd, 1))
        st.tick()
        st.load(st.state(), (0, 0, rd, 1))
        o = st.peek()
        out.append([int(o[0]), int(o[1])])
        rd = int(o[1])
    return out


def _reference_decode(lsb, w):
    from ..fhdl_step import Stepper
    from litex.soc.cores import code_8b10b as c8
    d = c8.Decoder(bool(lsb))
    st = Stepper(d, [d.input, d.ce], [d.d, d.k, d.invalid], engine="ref")
    st.load(st.reset_state, (w, 1))
    st.tick()
    st.load(st.state(), (0, 0))
    return [int(x) for x in st.peek()]


def _confirm_table_violation(tables, clause, trace):
    """-> (signature, replay dict, text) after re-deriving every table entry the counterexample uses
    with the reference evaluator on the real netlist"""
    last = trace[-1]["vars"]
    lsb = last["lsb"]
    tab = [t for t in tables["tabs"] if t["lsb"] == lsb][0]
    mode = last["mode"]
    if mode == "sym":
        d, k = last["sym"]
        rd = last["rd"]
        got = _reference_rerun(lsb, rd, [(d, k)])[0]
        if got != tab["enc"][k][d][rd]:
            raise MachineryError("table entry Enc[%d,%d,%d] not reproduced by the reference evaluator" % (d, k, rd))
        dec = _reference_decode(lsb, got[0])
        if dec != tab["dec"][got[0]]:
            raise MachineryError("table entry Dec[%d] not reproduced by the reference evaluator" % got[0])
        sig = {"part": "tables", "clause": clause, "lsb": lsb, "sym": [d, k], "rd": rd}
        text = "%s: %s.%d (d=0x%02x k=%d) under disparity %s encodes to 0x%03x (lsb_first=%d) which decodes to d=0x%02x k=%d invalid=%d" % (
            clause, "K" if k else "D", d & 31, d, k, "+1" if rd else "-1", got[0], lsb, dec[0], dec[1], dec[2])
        return sig, {"kind": "tables", "lsb": lsb, "sym": [d, k], "rd": rd, "enc": got, "dec": dec}, text
    if mode == "word":
        w = last["w"]
        dec = _reference_decode(lsb, w)
        if dec != tab["dec"][w]:
            raise MachineryError("table entry Dec[%d] not reproduced by the reference evaluator" % w)
        sig = {"part": "tables", "clause": clause, "lsb": lsb, "w": w}
        text = "%s: ten-bit word 0x%03x (%d ones, lsb_first=%d) decodes to d=0x%02x k=%d invalid=%d" % (
            clause, w, bin(w).count("1"), lsb, dec[0], dec[1], dec[2])
        return sig, {"kind": "tables", "lsb": lsb, "w": w, "dec": dec}, text
    # sequence counterexample: initial disparity + symbols sent
    rd0 = trace[0]["vars"]["rd"]
    syms = [tuple(st["vars"]["send"]) for st in trace[:-1]]
    got = _reference_rerun(lsb, rd0, syms)
    rd = rd0
    for (d, k), g in zip(syms, got):
        if g != tab["enc"][k][d][rd]:
            raise MachineryError("table entry Enc[%d,%d,%d] not reproduced by the reference evaluator" % (d, k, rd))
        rd = g[1]
    sig = {"part": "tables", "clause": clause, "lsb": lsb, "rd0": rd0, "syms": [list(s) for s in syms]}
    text = "%s: starting at disparity %s the symbol sequence %s is sent as %s (lsb_first=%d); balance afterwards %s, last bits %s" % (
        clause, "+1" if rd0 else "-1", ["%s%d.%d" % ("K" if k else "D", d & 31, d >> 5) for d, k in syms],
        ["0x%03x" % g[0] for g in got], lsb, last.get("bal"), list(last.get("tail", ())))
    return sig, {"kind": "tables", "lsb": lsb, "rd0": rd0, "syms": [list(s) for s in syms], "enc": got}, text


def run_tables(report, tables, invs=TABLE_INVS, max_report=4):
    res = tlcmod.run(TABLE_MODULE, _table_cfg(invs), workers=4, timeout=900, extra=("-continue",))
    if res.errors:
        raise MachineryError("TLC failed on the table judge: " + " | ".join(res.errors[:6]) + "\n" + res.out[-2000:])
    expect_init = len(tables["tabs"]) * (2 * (256 + 12) + 1024 + 2)
    if res.distinct < expect_init:
        raise MachineryError("table judge explored %d states, at least %d expected" % (res.distinct, expect_init))
    report.add(states=res.distinct, transitions=res.generated, table_judge_states=res.distinct,
               table_entries_recorded=len(tables["tabs"]) * (2 * 256 * 2 + 1024))
    seen = set()
    hits = []
    cands = [(name, [{"vars": v}]) for name, v in initial_violations(res.out)]
    cands += [(name, tr) for name, tr in res.all if tr]
    if res.violated and not cands:
        raise MachineryError("table judge: TLC reported %s but no counterexample could be parsed" % res.violated)
    for name, tr in cands:
        v = tr[-1]["vars"]
        if not isinstance(v.get("lsb"), int):
            raise MachineryError("table judge: error trace without alias fields")
        key = (name, v["lsb"])
        if key in seen:
            continue
        seen.add(key)
        hits.append((name, tr))
    for name, tr in hits[:max_report]:
        sig, replay, text = _confirm_table_violation(tables, name, tr)
        replay["clause"] = name
        report.violation(sig, replay, text)
    return res, hits


# ----------------------------------------------------------------------------- part 2: word traces
def words_specs():
    L = [{"kind": "enc", "n": n, "lsb": lsb} for n in (1, 2, 3, 4) for lsb in (0, 1)]
    L += [{"kind": "dec", "n": 1, "lsb": lsb} for lsb in (0, 1)]
    return L


def run_words(report, tier, seed, tables):
    rnd = random.Random(seed * 1000003 + 17)
    base = 1200 if tier == "quick" else 5000
    traces, scheds = [], []
    cover = {}
    for spec in words_specs():
        for pce in ((0.8,) if tier == "quick" else (1.0, 0.8, 0.4)):
            ev, sched = fam.words_trace(spec, base if spec["kind"] == "enc" else 2 * base, rnd, pce=pce)
            traces.append({"cfg": spec, "ev": ev})
            scheds.append(sched)
            if spec["kind"] == "enc":
                key = "Encoder(nwords=%d,lsb_first=%d)" % (spec["n"], spec["lsb"])
                cover[key] = max(cover.get(key, 0), len(fam.enc_coverage(ev, spec["n"])))
    # audit extension: the decoder sweep - every ten-bit word after each representative predecessor (registers
    # not in their reset state) and held through stalls of length 1 and 2 (cfg field sweep = 1)
    sweepcov = {}
    for lsb in (0, 1):
        spec = {"kind": "dec", "n": 1, "lsb": lsb, "sweep": 1}
        prevs = fam.decoder_sweep_prevs(tables, lsb, tier)
        sched = fam.decoder_sweep_schedule(prevs)
        ev, sched = fam.words_trace(spec, len(sched), None, schedule=sched)
        pairs, held = fam.decoder_sweep_coverage(ev)
        npairs = sum(1 for p in prevs for w in range(1024) if (p, w) in pairs)
        h1 = sum(1 for w in range(1024) if held.get(w, 0) >= 1)
        h2 = sum(1 for w in range(1024) if held.get(w, 0) >= 2)
        sweepcov["Decoder(lsb_first=%d)" % lsb] = {"predecessors": len(prevs), "pairs": npairs,
                                                   "words_held_through_a_stall": h1,
                                                   "words_held_through_a_2_cycle_stall": h2}
        if npairs < len(prevs) * 1024 or h1 < 1024 or h2 < 1024 or len(prevs) < 3:
            raise MachineryError("decoder sweep (lsb_first=%d) is vacuous: %r" % (lsb, sweepcov))
        traces.append({"cfg": spec, "ev": ev})
        scheds.append(sched)
    report.add(decoder_sweep_witnesses=sweepcov)
    for spec in words_specs():
        if spec["kind"] == "enc":
            key = "Encoder(nwords=%d,lsb_first=%d)" % (spec["n"], spec["lsb"])
            if cover[key] < spec["n"] * len(fam.ALPHABET) * 2:
                raise MachineryError("%s: only %d of %d (lane, symbol, disparity) combinations exercised"
                                     % (key, cover[key], spec["n"] * len(fam.ALPHABET) * 2))
    fails, st = tracecheck.validate(WORDS_MODULE, traces, WORDS_INVS, workers=4)
    report.add(traces_validated_against_impl=len(traces), trace_states=st["states"], states=st["states"],
               transitions=st["transitions"], encoder_lane_symbol_disparity_coverage=cover)
    report.sample({"encoder_trace_head": {"dut": traces[0]["cfg"], "first_cycles": traces[0]["ev"][:5]}})
    for f in fails:
        spec = traces[f["tid"]]["cfg"]
        sched = scheds[f["tid"]][:f["l"]]
        # confirmation: the same stimulus on a fresh netlist with the reference evaluator
        ev2, _ = fam.words_trace(spec, len(sched), None, engine="ref", schedule=sched)
        f2, _ = tracecheck.validate(WORDS_MODULE, [{"cfg": spec, "ev": ev2}], [f["clause"]], workers=1)
        if not [x for x in f2 if x["clause"] == f["clause"]]:
            raise MachineryError("%s on %r does not reproduce with the reference evaluator" % (f["clause"], spec))
        what = ("Encoder(nwords=%d, lsb_first=%d)" % (spec["n"], spec["lsb"])) if spec["kind"] == "enc" else \
               ("Decoder(lsb_first=%d)%s" % (spec["lsb"], " [sweep]" if spec.get("sweep") else ""))
        report.violation({"part": "words", "dut": spec, "clause": f["clause"]},
                         {"kind": "words", "spec": spec, "schedule": sched, "observed": ev2[-4:], "clause": f["clause"]},
                         "%s violated by %s after %d cycles: visible outputs %r are not the chained table encoding"
                         % (f["clause"], what, len(sched), ev2[-1][2:]))


# ----------------------------------------------------------------------------- part 3/4: stream wrappers
def run_stream_g(report, tier, tables):
    cfgs = fam.stream_configs(tier, tables)
    normal = [c for c in cfgs if not (c[0]["cls"] == "StreamEncoder" and c[0]["idle"] == "any")]
    special = [c for c in cfgs if c not in normal]
    batches = [normal] + [[c] for c in special]
    stats = run_batches(FAMILY, report, batches, G_INVS, G_PROPS, spec_budget=400000)
    report.add(duts_explored=len(stats), per_dut=stats, clauses=G_INVS + G_PROPS)


def tmode_configs(tier):
    L = []
    for n in (1, 2, 3, 4):
        L.append(({"cls": "StreamEncoder", "n": n, "idle": "zero"},
                  {"kind": "enc", "n": n, "lsb": 1, "alpha": [[0, 0]], "fl": 1, "idle": "zero", "cap": 4, "full": 1}))
        L.append(({"cls": "StreamDecoder", "n": n, "idle": "any"},
                  {"kind": "dec", "n": n, "lsb": 1, "alpha": [[0]], "fl": 1, "idle": "any", "cap": 4, "full": 1}))
    L.append(({"cls": "StreamEncoder", "n": 2, "idle": "any"},
              {"kind": "enc", "n": 2, "lsb": 1, "alpha": [[0, 0]], "fl": 1, "idle": "any", "cap": 4, "full": 1}))
    return L


def run_stream_t(report, tier, seed):
    rnd = random.Random(seed * 7919 + 171)
    ntr = 2 if tier == "quick" else 8
    ncyc = 400 if tier == "quick" else 2000
    traces, meta = [], []
    wit = {}
    for spec, cfg in tmode_configs(tier):
        total = {}
        for j in range(ntr):
            runs = None
            if j == 0:
                # audit extension: the first trace of every configuration is a bursty one - stalls and idle gaps
                # of several cycles in a row (the 3- and 4-word wrappers are only explored here in the quick tier)
                pv, pr = rnd.choice([(0.6, 0.4), (0.5, 0.5), (0.7, 0.35)])
                runs = 3
            else:
                pv, pr = rnd.choice([(0.9, 0.9), (0.5, 0.5), (0.9, 0.3), (0.3, 0.9), (1.0, 1.0)])
            if cfg["idle"] == "any" and cfg["kind"] == "enc":
                pv = min(pv, 0.5)
            ev = fam.stream_trace(spec, cfg, ncyc, rnd, pv, pr, runs=runs)
            for k, v in fam.stream_witnesses(ev, cfg["kind"]).items():
                total[k] = max(total.get(k, 0), v) if k == "longest_stall" else total.get(k, 0) + v
            tcfg = dict(cfg)
            tcfg["stallbound"] = 64
            traces.append({"cfg": tcfg, "ev": ev})
            meta.append(spec)
        name = FAMILY.describe(spec)
        wit[name] = total
        need = ["backpressure_cycles", "idle_cycles", "offers_waiting"] + \
               (["idle_cycles_with_payload"] if cfg["idle"] == "any" else [])
        if any(total[k] == 0 for k in need) or total["longest_stall"] < 3:
            raise MachineryError("vacuous stream simulation of %s: %r" % (name, total))
    report.add(stream_trace_witnesses=wit)
    fails, st = tracecheck.validate(FAMILY.trace_module, traces, T_INVS, workers=4)
    report.add(traces_validated_against_impl=len(traces), trace_states=st["states"], states=st["states"],
               transitions=st["transitions"])
    report.sample({"stream_trace_head": {"dut": FAMILY.describe(meta[0]), "first_cycles": traces[0]["ev"][:5]}})
    for f in fails:
        spec = meta[f["tid"]]
        tr = traces[f["tid"]]
        report.violation({"dut": spec, "clause": f["clause"]},
                         {"family": FAMILY.graph_module, "factory": FAMILY.factory_path, "spec": spec, "cfg": tr["cfg"],
                          "schedule": [e[0] for e in tr["ev"][:f["l"]]], "trace_module": FAMILY.trace_module,
                          "trace_invariants": [f["clause"]], "observed": tr["ev"][max(0, f["l"] - 6):f["l"]],
                          "clause": f["clause"]},
                         "%s violated by %s in a recorded simulation trace at cycle %s" % (
                             f["clause"], FAMILY.describe(spec), f["l"]))


# ----------------------------------------------------------------------------- informational
def ibm_note(report, tables):
    """compare the recorded encoder table with the transcription of the IBM tables that ships with the
    repository's own unit test (test/test_code_8b10b.py).  Informational only - the property is about
    what the code guarantees, not about one particular table."""
    try:
        import litex
        path = os.path.join(os.path.dirname(os.path.dirname(os.path.abspath(litex.__file__))), "test",
                            "test_code_8b10b.py")
        sp = importlib.util.spec_from_file_location("_verif_t8b10b", path)
        m = importlib.util.module_from_spec(sp)
        sp.loader.exec_module(m)
        tab = [t for t in tables["tabs"] if t["lsb"] == 0][0]
        diff = 0
        for d in range(256):
            diff += tab["enc"][0][d][0][0] != m.code_8b10b_data_rd_m[d]
            diff += tab["enc"][0][d][1][0] != m.code_8b10b_data_rd_p[d]
        for d in fam.KSYMS:
            diff += tab["enc"][1][d][0][0] != m.code_8b10b_control_rd_m[d]
            diff += tab["enc"][1][d][1][0] != m.code_8b10b_control_rd_p[d]
        report.add(ibm_table_transcription_differences=diff)
        if diff:
            report.note("recorded encoder table differs from the IBM transcription of test_code_8b10b.py in %d entries "
                        "(informational)" % diff)
    except Exception as ex:     # noqa
        report.add(ibm_table_transcription_differences="not compared (%s)" % type(ex).__name__)


# ----------------------------------------------------------------------------- entry points
def run(prop, report, tier, seed):
    from ..fhdl_step import crosscheck
    from litex.soc.cores import code_8b10b as c8
    scratch = _scratch()
    old = os.environ.get(ENV)
    try:
        tables, nsteps, _ = _publish_tables(scratch)
        report.assume("FHDL netlist semantics = litex/gen/sim/core.py (compiled stepper cross-checked against it)")
        report.assume("serial order: lsb_first=False sends bit 9 first, lsb_first=True sends bit 0 first; "
                      "disp/disparity flag 0 = running disparity -1, 1 = +1")
        report.assume("comma = the 7-bit patterns 0011111 / 1100000; defined control symbols = K.28.0-7, K.23.7, "
                      "K.27.7, K.29.7, K.30.7 (other k=1 inputs are not judged)")
        report.assume("stream level: exhaustive G-mode over 2-5 symbol lane alphabets and 1-3 words; 4 words and the "
                      "full alphabet only in recorded simulations (T-mode)")
        # compiled stepper vs reference evaluator on samples of exactly the steps the tables are made of
        rnd = random.Random(seed + 5)
        n = 0
        for lsb in (False, True):
            def mk_e(lsb=lsb):
                e = c8.SingleEncoder(lsb)
                return e, [e.d, e.k, e.disp_in, e.ce], [e.output, e.disp_out]

            def mk_d(lsb=lsb):
                d = c8.Decoder(lsb)
                return d, [d.input, d.ce], [d.d, d.k, d.invalid]
            e0 = mk_e()
            from ..fhdl_step import Stepper
            se = Stepper(*e0)
            smp = []
            for _ in range(40):
                d, k = rnd.choice(fam.ALPHABET)
                rd = rnd.randint(0, 1)
                smp.append((se.reset_state, (d, k, rd, 1)))
                smp.append((se.step(se.reset_state, (d, k, rd, 1))[1], (0, 0, rd, rnd.randint(0, 1))))
            n += crosscheck(mk_e, smp)
            sd = Stepper(*mk_d())
            smp = []
            for _ in range(40):
                w = rnd.randrange(1024)
                smp.append((sd.reset_state, (w, 1)))
                smp.append((sd.step(sd.reset_state, (w, 1))[1], (rnd.randrange(1024), rnd.randint(0, 1))))
            n += crosscheck(mk_d, smp)
        report.add(reference_evaluator_crosschecks=n, netlist_steps_for_tables=nsteps)
        t1 = [t for t in tables["tabs"] if t["lsb"] == 0][0]
        report.sample({"Enc[D.0.0,rd=-1]": t1["enc"][0][0][0], "Enc[K.28.5,rd=-1]": t1["enc"][1][0xBC][0],
                       "Enc[K.28.5,rd=+1]": t1["enc"][1][0xBC][1], "Dec[0x0fa]": t1["dec"][0x0fa]})
        ibm_note(report, tables)
        run_tables(report, tables)
        run_words(report, tier, seed, tables)
        run_stream_g(report, tier, tables)
        run_stream_t(report, tier, seed)
        report.cov["exhaustive"] = True
    finally:
        if old is None:
            os.environ.pop(ENV, None)
        else:
            os.environ[ENV] = old
        shutil.rmtree(scratch, ignore_errors=True)


def replay(path):
    """re-execute a replay file on the current code; -> (reproduced?, failing clauses)"""
    from .. import py312_tracer
    py312_tracer.install()
    with open(path) as f:
        r = json.load(f)
    scratch = _scratch()
    old = os.environ.get(ENV)
    try:
        tables, _, _ = _publish_tables(scratch)
        kind = r.get("kind")
        if kind == "tables":
            res = tlcmod.run(TABLE_MODULE, _table_cfg([r["clause"]]), workers=4, timeout=900, extra=("-continue",))
            if res.errors:
                raise MachineryError("TLC failed: " + " | ".join(res.errors[:4]))
            names = [{"clause": n} for n, tr in res.all if tr and tr[-1]["vars"].get("lsb") == r["lsb"]]
            names += [{"clause": n} for n, v in initial_violations(res.out) if v.get("lsb") == r["lsb"]]
            return bool(names), names[:1]
        if kind == "words":
            ev, _ = fam.words_trace(r["spec"], len(r["schedule"]), None, engine="ref", schedule=r["schedule"])
            fails, _ = tracecheck.validate(WORDS_MODULE, [{"cfg": r["spec"], "ev": ev}], [r["clause"]], workers=1)
            return bool([f for f in fails if f["clause"] == r["clause"]]), fails
        return replay_file(path)
    finally:
        if old is None:
            os.environ.pop(ENV, None)
        else:
            os.environ[ENV] = old
        shutil.rmtree(scratch, ignore_errors=True)
