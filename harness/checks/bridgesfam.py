"""C09: bus bridges, AXI-Lite converters and the AXI-Lite SRAM - flat memory towards the master,
protocol-legal master towards the slave side.  G-mode (exhaustive at reduced parameters).

The TLA+ contracts (specs/bridges) give every verdict; this module only batches the configurations,
runs the batches in a few worker processes (each batch is an independent closed-loop graph
construction) and merges what they recorded into the report in a fixed order."""
import multiprocessing as mp
import os
import re
import time
import traceback

from .. import gcheck
from ..gcheck import GFamily, run_batches
from ..families import bridges as fam
from ..report import Report, MachineryError

_M = ["ReadReturnsLastWrite", "OneResponsePerRequest", "ErrorsPropagated", "MasterValidHold"]
M_INVS = {"axil": _M, "wb": _M, "axi": _M + ["BurstsAnswered"], "ahb": _M}
S_INVS = ["SlaveValidHold", "SlaveWishbone", "SlaveAxiBurst", "SlaveCsrStrobes"]
PROPS = ["Served"]
MODNAME = {"axil": "BridgeAxiLite", "wb": "BridgeWb", "axi": "BridgeAxi", "ahb": "BridgeAhb"}
NAMES = {"sram": "AXILiteSRAM", "axil2wb": "AXILite2Wishbone", "down": "AXILiteDownConverter", "up": "AXILiteUpConverter",
         "conv": "AXILiteConverter", "axil2csr": "AXILite2CSR", "axil2axi": "AXILite2AXI", "wb2axil": "Wishbone2AXILite",
         "wb2axi": "Wishbone2AXI", "axi2axil": "AXI2AXILite", "axi2wb": "AXI2Wishbone", "ahb2wb": "AHB2Wishbone",
         "chain_wb_axil": "SoCBusHandler.add_adapter(wishbone->axi-lite)",
         "chain_axil_wb": "SoCBusHandler.add_adapter(axi-lite->wishbone)",
         "chain_s2m_wb": "SoCBusHandler.add_adapter(axi-lite bus<-wishbone slave, s2m)"}
NPROC = 4


def describe(s):
    return "%s(%s)" % (NAMES.get(s["kind"], s["kind"]),
                       ", ".join("%s=%s" % (k, v) for k, v in sorted(s.items()) if k not in ("kind", "mp", "alone", "cost", "wit")))


def family(mp_):
    invs = M_INVS[mp_] + S_INVS
    cm = {k: k for k in invs}
    cm["Served"] = "BoundedService"
    return GFamily("bridges/%sGraph" % MODNAME[mp_], "bridges/%sTrace" % MODNAME[mp_], "harness.families.bridges:make",
                   hint=fam.Hint(), clause_map=cm, describe=describe), invs


class _Recorder:
    """what run_batches reports, recorded in a worker process and replayed on the real Report by the
    parent (so replay files are numbered and KNOWN-FINDING / VIOLATION lines printed in one place)"""
    def __init__(self, prop, tier, seed):
        self.seed = seed
        self.calls = []
        self._probe = Report(prop, tier, seed)
        self._probe.findings = list(self._probe.findings) + _notes_findings(self._probe)

    def add(self, **kw):
        self.calls.append(("add", kw))

    def sample(self, x, cap=8):
        self.calls.append(("sample", (x, cap)))

    def violation(self, sig, replay, text):
        self.calls.append(("violation", (sig, replay, text)))
        return self._probe.match_known(sig) is None


def batches_of(cfgs):
    """[(mp, live, [cfg, ...])]: DUTs expected to hit a listed finding and big ones alone, the rest in
    batches of one master protocol (one TLC run explores all DUTs of a batch)"""
    out = []
    for mp_ in ("axil", "wb", "axi", "ahb"):
        for live in (1, 0):
            mine = [c for c in cfgs if c[0]["mp"] == mp_ and int(bool(c[0].get("live"))) == live]
            alone = [c for c in mine if c[0].get("alone")]
            rest = [c for c in mine if not c[0].get("alone")]
            out += [(mp_, live, [c]) for c in alone]
            cur, cost = [], 0
            for c in rest:
                w = c[0].get("cost", 1)
                if cur and cost + w > 6:
                    out.append((mp_, live, cur))
                    cur, cost = [], 0
                cur.append(c)
                cost += w
            if cur:
                out.append((mp_, live, cur))
    return out


_WIT_RE = re.compile(r'<<\s*"WIT",\s*(\d+),\s*"([^"]*)"\s*>>')      # TLC wraps long tuples over several lines


def _witness_loop(seen):
    """GraphLoop that collects the <<"WIT", wi, name>> lines (specs/bridges/BridgeWit.tla) of the last TLC run of
    every exploration (that run visits every reachable product state) into seen: wi -> set of names"""
    class Loop(gcheck.GraphLoop):
        def stats(self):
            res = self.final
            if res is not None:
                for mm in _WIT_RE.finditer(res.out):
                    seen.setdefault(int(mm.group(1)), set()).add(mm.group(2))
            return super().stats()
    return Loop


def _worker(args):
    prop, tier, seed, idx, mp_, live, batch = args
    from .. import py312_tracer
    py312_tracer.install()
    rec = _Recorder(prop, tier, seed)
    f, invs = family(mp_)
    t0 = time.time()
    seen = {}
    gcheck.GraphLoop = _witness_loop(seen)          # this is a forked worker process: nobody else sees the patch
    try:
        stats = run_batches(f, rec, [batch], invs, PROPS if live else [], spec_budget=300000, total_budget=1200000,
                            followup=True, log=lambda *a: None, tlc_timeout=3000)
        rec.add(batch_wall_s=[[idx, round(time.time() - t0, 1)]])      # evidence only
        rec.calls.append(("witnesses", {k: sorted(v) for k, v in seen.items()}))
        return idx, rec.calls, stats, None
    except MachineryError as ex:
        return idx, rec.calls, [], "machinery: %s" % ex
    except Exception:
        return idx, rec.calls, [], traceback.format_exc()


def _notes_findings(report):
    """findings of notes/C09_findings.json that /verif/known_findings.json does not list yet (by id, whatever
    their status there): lets the check run before the main agent has merged the notes"""
    import json
    from ..report import ROOT, load_findings
    path = os.path.join(ROOT, "notes", "C09_findings.json")
    if not os.path.exists(path):
        return []
    have = {f.get("id") for f in load_findings()}
    with open(path) as fh:
        return [f for f in json.load(fh) if f.get("id") not in have and f.get("property") == report.prop]


def run(prop, report, tier, seed):
    cfgs = fam.configs(tier)
    only = [k for k in os.environ.get("VERIF_C09_KINDS", "").split(",") if k]
    if only:      # development aid (e.g. mutation tests of one bridge); the evidence says so
        cfgs = [c for c in cfgs if c[0]["kind"] in only]
        report.note("restricted to DUT kinds %s by VERIF_C09_KINDS" % ",".join(only))
    report.findings = list(report.findings) + _notes_findings(report)
    report.assume("masters and partners are protocol-legal: every offer is held with its payload until accepted, AXI(-Lite) "
                  "address and data in any order, up to k requests per direction outstanding, responses accepted at any "
                  "time; AXI bursts of 1-4 full-width beats (FIXED/INCR/WRAP); AHB single transfers only (AHB2Wishbone has "
                  "no burst support)")
    report.assume("reduced parameters: bytes carry one of two values, memories of 2-8 words, data widths 8/16 bit where the "
                  "class accepts them (32/64 bit with a reduced write alphabet otherwise); every chain ends in the "
                  "repository's own memory of the slave-side protocol behind a harness stall shim (acknowledge / ready / "
                  "response delayed by the environment; Wishbone acknowledge latency >= 1)")
    report.assume("error responses are produced by a faulting upper half of the backing memory (SLVERR / Wishbone err with ack); "
                  "for down-converters also by a faulting region of one narrow word inside a master word")
    report.assume("additional partner freedoms in dedicated configurations: Wishbone cyc without stb and stb without cyc between "
                  "requests, AHB NONSEQ address phases with HSEL low, AXI-Lite partners that accept read addresses / write data "
                  "ahead (buffer stage in the shim), byte addressed Wishbone side, 64-bit AHB, add_adapter in direction s2m; each "
                  "is guarded by a TLC-printed witness (vacuity = machinery error)")
    bl = batches_of(cfgs)
    jobs = [(prop, tier, seed, i, m, l, b) for i, (m, l, b) in enumerate(bl)]
    # biggest first, results merged in batch order
    order = sorted(jobs, key=lambda j: -sum(c[0].get("cost", 1) for c in j[6]))
    results = {}
    nproc = int(os.environ.get("VERIF_C09_PROCS", NPROC))
    procs = _run_jobs(order, nproc)
    for idx, calls, stats, err in procs:
        results[idx] = (calls, stats, err)
    all_stats = []
    errors = []
    seen = {}
    for i in range(len(bl)):
        calls, stats, err = results[i]
        for name, a in calls:
            if name == "add":
                report.add(**a)
            elif name == "sample":
                report.sample(a[0], cap=6)
            elif name == "witnesses":
                for k, v in a.items():
                    seen.setdefault(int(k), set()).update(v)
            else:
                report.violation(*a)           # confirmed by linear replay + T-mode validation in the worker
                report.add(traces_validated_against_impl=1)
        all_stats += stats
        if err:
            errors.append("batch %d (%s): %s" % (i, ", ".join(describe(c[0]) for c in bl[i][2]), err))
    report.add(duts_explored=len(all_stats), configurations=len(cfgs), batches=len(bl),
               clauses=sorted(set(sum(M_INVS.values(), []))) + S_INVS + PROPS, per_dut=all_stats)
    if errors:
        raise MachineryError("; ".join(errors)[:4000])
    # vacuity guard: a configuration that exists for a particular stimulus / parameter class must have shown it
    # (DUTs dropped after a violation make no claim)
    explored = {s["dut"] for s in all_stats}
    wit = {}
    for spec, cfg in cfgs:
        if not spec.get("wit"):
            continue
        got = seen.get(cfg["wi"], set())
        wit[describe(spec)] = sorted(got)
        missing = set(spec["wit"]) - got
        if missing and describe(spec) in explored:
            raise MachineryError("vacuity: %s never showed %s" % (describe(spec), sorted(missing)))
    report.add(witnesses=wit)
    report.cov["exhaustive"] = True


def _run_jobs(jobs, nproc):
    """run _worker(job) in at most nproc plain (non-daemonic: they start their own stepper pools)
    processes; -> list of results"""
    ctx = mp.get_context("fork")
    pending = list(jobs)
    running = []
    out = []
    q = ctx.Queue()

    def target(job, q):
        q.put(_worker(job))
    while pending or running:
        while pending and len(running) < nproc:
            job = pending.pop(0)
            p = ctx.Process(target=target, args=(job, q))
            p.start()
            running.append((p, job))
        try:
            res = q.get(timeout=5)
        except Exception:
            for p, job in list(running):
                if not p.is_alive() and p.exitcode not in (0, None):
                    running.remove((p, job))
                    out.append((job[3], [], [], "worker process died with exit code %s" % p.exitcode))
            continue
        out.append(res)
        for p, job in list(running):
            if job[3] == res[0]:
                p.join()
                running.remove((p, job))
    return out
