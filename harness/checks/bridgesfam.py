"""C09: bus bridges, AXI-Lite converters and the AXI-Lite SRAM - flat memory towards the master,
protocol-legal master towards the slave side.  G-mode (exhaustive at reduced parameters)."""
from ..gcheck import GFamily, run_batches
from ..families import bridges as fam

_M = ["ReadReturnsLastWrite", "OneResponsePerRequest", "ErrorsPropagated", "MasterValidHold"]
M_INVS = {"axil": _M, "wb": _M, "axi": _M + ["BurstsAnswered"], "ahb": _M}
S_INVS = ["SlaveValidHold", "SlaveWishbone", "SlaveAxiBurst", "SlaveCsrStrobes"]
PROPS = ["Served"]
MODNAME = {"axil": "BridgeAxiLite", "wb": "BridgeWb", "axi": "BridgeAxi", "ahb": "BridgeAhb"}


def describe(s):
    return "%s[%s](%s)" % (s["kind"], s["mp"], ", ".join("%s=%s" % (k, v) for k, v in sorted(s.items())
                                                         if k not in ("kind", "mp")))


def family(mp):
    invs = M_INVS[mp] + S_INVS
    cm = {k: k for k in invs}
    cm["Served"] = "BoundedService"
    return GFamily("bridges/%sGraph" % MODNAME[mp], "bridges/%sTrace" % MODNAME[mp], "harness.families.bridges:make",
                   hint=fam.Hint(), clause_map=cm, describe=describe), invs


def run(prop, report, tier, seed):
    cfgs = fam.configs(tier)
    report.assume("masters and partners are protocol-legal: offers held until accepted, AXI-Lite AW/W in any order, "
                  "up to k requests per direction outstanding; bytes carry one of two values; memories of 2-8 words; "
                  "every chain ends in the repository's own memory of the slave-side protocol behind a harness stall "
                  "shim whose handshakes are delayed by the environment")
    stats = []
    for mp in ("axil", "wb", "axi", "ahb"):
        mine = [c for c in cfgs if c[0]["mp"] == mp]
        if not mine:
            continue
        f, invs = family(mp)
        small = [c for c in mine if not c[0].get("big")]
        big = [c for c in mine if c[0].get("big")]
        batches = [small[i:i + 6] for i in range(0, len(small), 6)] + [[c] for c in big]
        stats += run_batches(f, report, batches, invs, PROPS, spec_budget=600000, total_budget=2500000, followup=True)
    report.add(duts_explored=len(stats), clauses=sorted(set(sum(M_INVS.values(), []))) + S_INVS + PROPS, per_dut=stats)
    report.cov["exhaustive"] = True
