"""C19: serial peripherals and timers (G-mode exhaustive products, one GFamily per contract module)."""
import os
import re

from .. import gcheck
from ..gcheck import GFamily, run_batches
from ..report import MachineryError
from ..families import periph as fam

FACTORY = "harness.families.periph:make"


def _describe(s):
    core = s["core"]
    rest = ", ".join("%s=%s" % (k, s[k]) for k in sorted(s) if k != "core")
    return "%s(%s)" % (core, rest)


TIMERS_INV = ["CountsToZero", "ValueLatched", "EventWhenZero", "IrqIsPendingEnabled", "OneShotExact",
              "PeriodAsDocumented", "RemainingRule", "WdtFiresAtZero", "WdtOnlyAtZero", "WdtReset",
              "WaitTimerExact", "TimelineExact", "PwmDuty", "PwmOneBlock", "PwmOffWhenDisabled"]

UART_INV = ["TxWaveform", "TxBitLength", "TxIdleHigh", "TxReadyOnce", "RxNoSpurious", "RxRightByte", "RxDelivered"]

FAMILIES = {
    "uart": (GFamily("periph/UartGraph", "periph/UartTrace", FACTORY, hint=fam.UartHint(),
                     clause_map=dict({k: k for k in UART_INV}, Finishes="BoundedFinish"), describe=_describe),
             UART_INV, ["Finishes"], fam.uart_configs),
    "timers": (GFamily("periph/TimersGraph", "periph/TimersTrace", FACTORY,
                       clause_map=dict({k: k for k in TIMERS_INV}, Finishes="BoundedFinish"), describe=_describe),
               TIMERS_INV, ["Finishes"], fam.timer_configs),
}

# witnesses (printed by TLC, see PeriphCommon.tla) every DUT of a kind must produce
WITNESSES = {
    "wdt": ["watchdog timed out", "remaining saturated at zero", "fed while counting"],
    "wait": [],
    "tx": ["back-to-back frame", "frame ended, line idle", "stop bit edge"],
    "rx": ["byte delivered", "back-to-back frame"],
    "tline": ["trigger while busy"],
    "pwm": ["steady partial duty", "width above period"],
}

_WIT_RE = re.compile(r'<<"WIT", (\d+), "([^"]*)">>')


class _Witnesses:
    """collects the <<"WIT", dut, name>> lines of the final TLC run of every batch (GraphLoop keeps
    the last TLC result in .final); installed around run_batches by _run_family."""
    def __init__(self):
        self.seen = {}

    def loop_class(self):
        seen = self.seen

        class Loop(gcheck_GraphLoop):
            def stats(self_inner):
                res = self_inner.final
                if res is not None:
                    for mm in _WIT_RE.finditer(res.out):
                        seen.setdefault(int(mm.group(1)), set()).add(mm.group(2))
                return super().stats()
        return Loop


gcheck_GraphLoop = gcheck.GraphLoop


def _run_family(name, report, tier, only=None, log=print, batch=12, **kw):
    family, invs, props, cfgfn = FAMILIES[name]
    cfgs = cfgfn(tier)
    if only is not None:
        cfgs = [x for x in cfgs if only(x[0])]
    wit = _Witnesses()
    gcheck.GraphLoop = wit.loop_class()
    stats = []
    try:
        # cfg flags: canary = tiny DUT that exists to judge a clause with a known finding (own batch, no
        # follow-up run: the other clauses are covered by the regular DUTs); live = the liveness property is
        # model-checked for this DUT (small products only; the others are judged by the invariants);
        # grp = batch key (DUTs whose environments need many graph rounds do not slow down the others)
        for x in cfgs:
            if x[1].get("canary"):
                stats += run_batches(family, report, [[x]], invs, props if x[1].get("live") else [], log=log,
                                     followup=False, **kw)
        groups = {}
        for x in cfgs:
            if not x[1].get("canary"):
                groups.setdefault((1 - x[1].get("live", 0), str(x[1].get("grp", ""))), []).append(x)
        for (nolive, _), grp in sorted(groups.items()):
            stats += run_batches(family, report, [grp[i:i + batch] for i in range(0, len(grp), batch)], invs,
                                 [] if nolive else props, log=log, **kw)
    finally:
        gcheck.GraphLoop = gcheck_GraphLoop
    explored = {s["dut"] for s in stats}
    for spec, cfg in cfgs:
        if family.describe(spec) not in explored:
            continue                    # DUT dropped after a violation: no vacuity claim needed
        need = set(cfg["wit"] if "wit" in cfg else WITNESSES.get(cfg["kind"], []))
        missing = need - wit.seen.get(cfg["wi"], set())
        if missing:
            raise MachineryError("vacuity: %s never showed %s" % (family.describe(spec), sorted(missing)))
    report.add(witnesses={family.describe(s): sorted(wit.seen.get(c["wi"], ())) for s, c in cfgs})
    return stats


def run(prop, report, tier, seed):
    report.assume("one step = one sys-clock cycle of the reference FHDL semantics (litex/gen/sim/core.py); "
                  "CSR cores behind a real CSRBank, one bus operation per cycle")
    allstats = []
    for name in FAMILIES:
        st = _run_family(name, report, tier, spec_budget=400000)
        allstats += st
    report.add(duts_explored=len(allstats), per_dut=allstats)
    report.cov["exhaustive"] = True
