"""C19: serial peripherals and timers (G-mode exhaustive products, one GFamily per contract module)."""
import os
import re

from .. import gcheck
from ..gcheck import GFamily, run_batches
from ..report import MachineryError, Report
from ..families import periph as fam

FACTORY = "harness.families.periph:make"


def _describe(s):
    core = s["core"]
    rest = ", ".join("%s=%s" % (k, s[k]) for k in sorted(s) if k != "core")
    return "%s(%s)" % (core, rest)


TIMERS_INV = ["CountsToZero", "ValueLatched", "EventWhenZero", "IrqIsPendingEnabled", "OneShotExact",
              "PeriodAsDocumented", "RemainingRule", "WdtFiresAtZero", "WdtNotEarly", "WdtOnlyAtZero", "WdtReset",
              "WaitTimerExact", "TimelineExact", "PwmDuty", "PwmOneBlock", "PwmOffWhenDisabled"]

UART_INV = ["TxWaveform", "TxBitLength", "TxIdleHigh", "TxReadyOnce", "RxNoSpurious", "RxRightByte", "RxDelivered"]

SPIM_INV = ["ExactPulseCount", "ChipSelectFrames", "DeselectedAtPowerUp", "MosiMsbFirst", "MosiStableWhileHigh", "MisoCaptured",
            "MisoHeld", "DoneMeansIdle", "IrqOnlyAtEnd"]

SPIS_INV = ["StartOnce", "IrqOnce", "LengthCounted", "MosiCaptured", "MisoMsbFirst", "MisoStableWhileHigh", "DoneMeansIdle",
            "ResultHeld"]

I2C_INV = ["SdaOnlyStartStop", "ClocksPerCommand", "ByteOnSda", "SclPhaseLength", "StatusReadBack", "IdleMeansComplete",
           "ReadReturnsStatus"]

FAMILIES = {
    "i2c": (GFamily("periph/I2cGraph", "periph/I2cTrace", FACTORY, hint=fam.I2cHint(),
                    clause_map=dict({k: k for k in I2C_INV}, Finishes="BoundedFinish"), describe=_describe),
            I2C_INV, ["Finishes"], fam.i2c_configs),
    "spis": (GFamily("periph/SpiSlaveGraph", "periph/SpiSlaveTrace", FACTORY, hint=fam.SpiSlaveHint(),
                     clause_map=dict({k: k for k in SPIS_INV}, Finishes="BoundedFinish"), describe=_describe),
             SPIS_INV, ["Finishes"], fam.spis_configs),
    "spim": (GFamily("periph/SpiMasterGraph", "periph/SpiMasterTrace", FACTORY, hint=fam.SpiHint(),
                     clause_map=dict({k: k for k in SPIM_INV}, Finishes="BoundedFinish"), describe=_describe),
             SPIM_INV, ["Finishes"], fam.spim_configs),
    "uart": (GFamily("periph/UartGraph", "periph/UartTrace", FACTORY, hint=fam.UartHint(),
                     clause_map=dict({k: k for k in UART_INV}, Finishes="BoundedFinish"), describe=_describe),
             UART_INV, ["Finishes"], fam.uart_configs),
    "timers": (GFamily("periph/TimersGraph", "periph/TimersTrace", FACTORY,
                       clause_map=dict({k: k for k in TIMERS_INV}, Finishes="BoundedFinish"), describe=_describe),
               TIMERS_INV, ["Finishes"], fam.timer_configs),
}

# witnesses (printed by TLC, see PeriphCommon.tla) every DUT of a kind must produce
WITNESSES = {
    "wdt": ["watchdog timed out", "remaining saturated at zero", "fed while counting"],
    "wait": [],
    "i2c": ["byte written and acknowledged", "byte written, not acknowledged", "byte read", "stop", "repeated start",
            "stop on a free bus", "stop or start straight after a start"],
    "spis": ["transfer reported", "transfer after the minimum gap", "full word sent"],
    "spim": ["transfer completed", "back-to-back start", "start during a transfer", "mixed miso bits read back",
             "read-back word held during the next transfer"],
    "tx": ["back-to-back frame", "frame ended, line idle", "stop bit edge"],
    "rx": ["byte delivered", "back-to-back frame"],
    "tline": ["trigger while busy"],
    "pwm": ["steady partial duty", "width above period"],
}

_WIT_RE = re.compile(r'<<"WIT", (\d+), "([^"]*)">>')


class _Witnesses:
    """collects the <<"WIT", dut, name>> lines of the last TLC run of every batch (GraphLoop keeps
    the last TLC result in .final); installed around run_batches by _run_family.  The loop class also
    limits the stepper pool: several families run side by side."""
    def __init__(self, nproc):
        self.seen = {}
        self.nproc = nproc

    def loop_class(self):
        seen, nproc = self.seen, self.nproc

        class Loop(gcheck_GraphLoop):
            def __init__(self_inner, *a, **kw):
                kw.setdefault("workers", nproc)
                super().__init__(*a, **kw)

            def stats(self_inner):
                res = self_inner.final
                if res is not None:
                    for mm in _WIT_RE.finditer(res.out):
                        seen.setdefault(int(mm.group(1)), set()).add(mm.group(2))
                return super().stats()
        return Loop


gcheck_GraphLoop = gcheck.GraphLoop


def _run_family(name, report, tier, only=None, log=print, batch=12, nproc=8, **kw):
    family, invs, props, cfgfn = FAMILIES[name]
    cfgs = cfgfn(tier)
    if only is not None:
        cfgs = [x for x in cfgs if only(x[0], x[1]) ]
    wit = _Witnesses(nproc)
    gcheck.GraphLoop = wit.loop_class()
    stats = []
    try:
        # cfg flags: canary = tiny DUT that exists to judge a clause with a known finding (own batch, no
        # follow-up run: the other clauses are covered by the regular DUTs); live = the liveness property is
        # model-checked for this DUT (small products only; the others are judged by the invariants);
        # grp = batch key (DUTs whose environments need many graph rounds do not slow down the others)
        for x in cfgs:
            if x[1].get("canary"):
                stats += run_batches(family, report, [[x]], invs, props if x[1].get("live") else [], log=log,
                                     followup=False, **kw)
        groups = {}
        for x in cfgs:
            if not x[1].get("canary"):
                groups.setdefault((1 - x[1].get("live", 0), str(x[1].get("grp", ""))), []).append(x)
        for (nolive, _), grp in sorted(groups.items()):
            stats += run_batches(family, report, [grp[i:i + batch] for i in range(0, len(grp), batch)], invs,
                                 [] if nolive else props, log=log, **kw)
    finally:
        gcheck.GraphLoop = gcheck_GraphLoop
    explored = {s["dut"] for s in stats}
    for spec, cfg in cfgs:
        if family.describe(spec) not in explored:
            continue                    # DUT dropped after a violation: no vacuity claim needed
        need = set(cfg["wit"] if "wit" in cfg else WITNESSES.get(cfg["kind"], []))
        missing = need - wit.seen.get(cfg["wi"], set())
        if missing:
            raise MachineryError("vacuity: %s never showed %s" % (family.describe(spec), sorted(missing)))
    report.add(witnesses={family.describe(s): sorted(wit.seen.get(c["wi"], ())) for s, c in cfgs})
    return stats


# ----------------------------------------------------------------------------- T-mode
TMODE_HINTS = {"uart": fam.UartHint, "timers": fam.TimersHint, "spim": fam.SpiHint, "spis": fam.SpiSlaveHint,
               "i2c": fam.I2cHint}


_COMPLETION_OUTPUT = {"tx": 0, "rx": 0, "timer": 4, "wdt": 3, "wait": 0, "tline": 0, "pwm": 0, "spim": 1, "spis": 3, "i2c": 5}


def tmode_trace(spec, cfg, hint, ncycles, rnd):
    """closed-loop random walk of the environment of cfg on the real netlist from reset (plain
    cycle-by-cycle run of the stepper, no state loading): -> [[iv, o], ...].  The candidate moves come
    from families.periph.tmode_candidates, filtered by the family's hint; whether the walk was a legal
    environment behaviour is judged by TLC (EnvLegal), like everything else."""
    from ..fhdl_step import Stepper
    made = fam.make(spec)
    st = Stepper(made[0], made[1], made[2])
    ctx = hint.init(cfg)
    st.load(st.reset_state, tuple(0 for _ in st.inputs))
    ev = []
    for _ in range(ncycles):
        for iv in fam.tmode_candidates(cfg, ctx, rnd):
            if not hint.allowed(cfg, ctx, iv):
                continue
            st.load(st.state(), iv)
            o = st.peek()
            nctx = hint.next(cfg, ctx, iv, o)
            if nctx != "dead":
                break
        else:
            raise MachineryError("T-mode driver of %s has no legal move" % _describe(spec))
        ev.append([list(iv), [int(x) for x in o]])
        st.tick()
        ctx = nctx
    return ev


def _run_tmode(report, tier, seed, log=print):
    import random
    from .. import tracecheck
    rnd = random.Random(seed * 104729 + 19)
    per = 1 if tier == "quick" else 3
    byfam = {}
    completions = {}
    for famname, spec, cfg, cycles in fam.tmode_configs(tier):
        for k in range(per):
            ev = tmode_trace(spec, cfg, TMODE_HINTS[famname](), cycles, rnd)
            # vacuity guard (cross-check only): the run must contain completions (ready / valid / zero /
            # time-out / done / pulses / irq / idle, per kind)
            i = _COMPLETION_OUTPUT[cfg["kind"]]
            done = sum(1 for a, b in zip(ev, ev[1:]) if a[1][i] == 0 and b[1][i] != 0)
            completions[cfg["kind"]] = completions.get(cfg["kind"], 0) + done
            report.add(tmode_completions=done)
            tcfg = dict(cfg)
            tcfg["stallbound"] = 10**8
            byfam.setdefault(famname, []).append((spec, {"cfg": tcfg, "ev": ev}))
    for kind, n in sorted(completions.items()):
        if n == 0:
            raise MachineryError("the T-mode runs of kind %s contain no completed operation" % kind)
    total = 0
    for famname, items in byfam.items():
        family, invs, _, _ = FAMILIES[famname]
        traces = [t for _, t in items]
        fails, st = tracecheck.validate(family.trace_module, traces, invs, workers=4, heap="4g")
        log("T-mode %s: %d traces, %d cycles, %d TLC states, %d rejected" % (
            famname, len(traces), sum(len(t["ev"]) for t in traces), st["states"], len(fails)))
        total += len(traces)
        report.add(traces_validated_against_impl=len(traces), trace_states=st["states"], states=st["states"],
                   transitions=st["transitions"])
        report.sample({"tmode_trace": {"dut": _describe(items[0][0]), "cycles": len(traces[0]["ev"]),
                                       "first_cycles": traces[0]["ev"][:4]}}, cap=12)
        for f in fails:
            spec, tr = items[f["tid"]]
            sched = [e[0] for e in tr["ev"][:f["l"]]]
            report.violation({"dut": spec, "clause": f["clause"], "mode": "T"},
                             {"family": family.graph_module, "factory": family.factory_path, "spec": spec,
                              "cfg": tr["cfg"], "schedule": sched, "trace_module": family.trace_module,
                              "trace_invariants": invs, "observed": tr["ev"][max(0, f["l"] - 200):f["l"]],
                              "clause": f["clause"]},
                             "%s violated by %s in a recorded run at realistic parameters, cycle %s" % (
                                 f["clause"], _describe(spec), f["l"]))
    return total


# ----------------------------------------------------------------------------- parallel tasks
class _TaskReport(Report):
    """Report of one task process: records what the task reports; the parent replays the record on
    the real Report in a fixed order (file names, printing and evidence stay deterministic)."""
    def __init__(self, parent):
        Report.__init__(self, parent.prop, parent.tier, parent.seed, parent.level)
        self.findings = parent.findings
        self.calls = []

    def add(self, **kw):
        self.calls.append(("add", kw))

    def sample(self, x, cap=8):
        self.calls.append(("sample", x, cap))

    def assume(self, text):
        self.calls.append(("assume", text))

    def note(self, text):
        self.calls.append(("note", text))

    def violation(self, sig, replay, text):
        self.calls.append(("violation", sig, replay, text))
        return self.match_known(sig) is None


def _task_main(conn, name, task, report, tier):
    import traceback
    rep = _TaskReport(report)
    tag = "[%s/%s] " % (name, task)
    try:
        if name == "tmode":
            _run_tmode(rep, tier, report.seed, log=lambda x: print(tag + x, flush=True))
            conn.send(("ok", rep.calls, []))
            return
        st = _run_family(name, rep, tier, only=lambda spec, cfg: str(cfg.get("task", "a")) == task,
                         log=lambda x: print(tag + x, flush=True), spec_budget=400000, heap="4g",
                         tlc_timeout=1500 if tier == "quick" else 3000)
        conn.send(("ok", rep.calls, st))
    except MachineryError as ex:
        conn.send(("machinery", rep.calls, str(ex)))
    except Exception:
        conn.send(("machinery", rep.calls, "unexpected exception in task %s/%s:\n%s" % (name, task, traceback.format_exc())))
    finally:
        conn.close()


def _replay_calls(report, calls):
    for c in calls:
        if c[0] == "add":
            report.add(**c[1])
        elif c[0] == "sample":
            report.sample(c[1], cap=c[2])
        elif c[0] == "assume":
            report.assume(c[1])
        elif c[0] == "note":
            report.note(c[1])
        elif c[0] == "violation":
            report.violation(c[1], c[2], c[3])


def tasks(tier):
    out = []
    for name in FAMILIES:
        for t in sorted({str(c.get("task", "a")) for _, c in FAMILIES[name][3](tier)}):
            out.append((name, t))
    out.append(("tmode", "a"))
    return out


def run(prop, report, tier, seed, parallel=None):
    import multiprocessing as mp
    import sys
    report.assume("one step = one sys-clock cycle of the reference FHDL semantics (litex/gen/sim/core.py: "
                  "compiled stepper cross-checked against the reference evaluator on sampled edges)")
    report.assume("cores with CSRs sit behind a real CSRBank on a 32-bit CSR bus, one bus operation per cycle; "
                  "exhaustive over all command timings at reduced parameters (timer/watchdog width 2-3, SPI data "
                  "width 2-4 and dividers 2-5, UART bit periods 2-16 cycles, I2C clock load 1-5)")
    report.assume("UART receiver: bit period >= 4 cycles (exact rate) / >= 8 cycles (+-2 % mismatch, any phase), the "
                  "line idles for three cycles after reset; SPI slave: master half period >= 4 cycles; I2C: clock "
                  "load >= 1, no clock stretching, commands follow the I2C transaction grammar, plus STOP / START commands "
                  "that have nothing to do (STOP with no byte phase open, START straight after a START); reads of the xfer "
                  "register at any time in the polling scenarios")
    report.assume("SPI master: software holds length and chip-select setting during a transfer; the MOSI register may be "
                  "rewritten during a transfer in the mosichg scenarios; SPI slave: the master's waveform is rigid (lead, "
                  "half period and trail of h cycles), on a shared bus (scenarios with other = 1) the same waveforms run "
                  "for another slave while this one is deselected; RS232PHY wrapper: clk_freq / baudrate integer ratios")
    tl = tasks(tier)
    par = parallel if parallel is not None else int(os.environ.get("VERIF_C19_PARALLEL", "6"))
    ctx = mp.get_context("fork")
    pending = list(tl)
    running = {}
    results = {}
    limit = 900 if tier == "quick" else 3300
    import time
    sys.stdout.flush()
    while pending or running:
        while pending and len(running) < max(1, par):
            name, task = pending.pop(0)
            rx, tx = ctx.Pipe(duplex=False)
            pr = ctx.Process(target=_task_main, args=(tx, name, task, report, tier))
            pr.start()
            tx.close()
            running[(name, task)] = (pr, rx, time.time())
        for key, (pr, rx, t0) in list(running.items()):
            if rx.poll(0.2):
                try:
                    results[key] = rx.recv()
                except EOFError:
                    results[key] = ("machinery", [], "task %s/%s died without a result" % key)
                pr.join(30)
                del running[key]
            elif not pr.is_alive():
                results[key] = ("machinery", [], "task %s/%s died without a result" % key)
                del running[key]
            elif time.time() - t0 > limit:
                pr.terminate()
                results[key] = ("machinery", [], "task %s/%s exceeded its time limit of %d s" % (key + (limit,)))
                del running[key]
    allstats = []
    errors = []
    for key in tl:                       # merge in the fixed task order
        kind, calls, payload = results[key]
        _replay_calls(report, calls)
        if kind == "ok":
            allstats += payload
        else:
            errors.append(payload)
    report.add(duts_explored=len(allstats), per_dut=allstats, tasks=["%s/%s" % k for k in tl])
    if errors:
        raise MachineryError("; ".join(errors))
    report.cov["exhaustive"] = True
