"""C12: CSR banks.
 * G-mode: exhaustive product of the contract with the real CSRBankArray + interconnect netlists at
   bus words of 2 and 4 bits (every clause);
 * construction cases: TLC enumerates register lists with fixed / automatic locations
   (specs/csrbank/CsrBankCases.tla), the real AutoCSR / CSRBankArray code builds them, TLC judges the
   address map or the refusal (clause AddressesDisjoint);
 * T-mode: long random histories on register sets at the real bus widths 8 / 16 / 32 (every clause);
 * csr_bus.SRAM windows (paging, sub-word staging, read-only) against a flat-memory contract
   (specs/csrbank/CsrSram*.tla), G-mode."""
import json
import os
import random
import time

from .. import tlc as tlcmod
from .. import tracecheck
from .. import l2
from ..gcheck import GFamily, run_batches, linear_replay, replay_file, schedule_from_trace
from ..report import MachineryError
from ..families import csrbank as fam
from ..families import csrbank_l2 as cl

INVS = ["AddressesDisjoint", "ResetValues", "WriteExact", "AtomicCommit", "DeviceWrite", "Isolation",
        "ReadNextCycle", "ZeroWhenUnselected", "StrobesSingleCycle", "FieldOffsets", "PulseFieldsOneCycle"]
TRACE = "csrbank/CsrBankTrace"
FACTORY = "harness.families.csrbank:make"


def describe(s):
    def reg(r):
        t = "%s%d" % (r["kind"], fam.r_size(r))
        if r.get("n") is not None:
            t += "@%d" % r["n"]
        if r.get("fields"):
            t += "{%s}" % ",".join("%s%d%s" % ("p" if f.get("pulse") else "f", f["size"],
                                                "" if f.get("offset") is None else "@%d" % f["offset"])
                                   for f in r["fields"])
        return t
    return "CSRBankArray(w=%d, %s, paging=%d, %s)" % (
        s["w"], s["ordering"], s["paging"],
        "; ".join("bank@%d[%s]" % (b["address"], ", ".join(reg(r) for r in b["regs"])) for b in s["banks"]))


FAMILY = GFamily("csrbank/CsrBankGraph", TRACE, FACTORY, clause_map={k: k for k in INVS}, describe=describe,
                 spec_name=None, fmt="hash")


# ------------------------------------------------------------------------------------------- G-mode
def _projection_drift(spec, ex):
    return {"spec": spec, "m": {}, "clause": "Projection (a modelled register was not found by name: %s)" % (ex,),
            "case": [{}, [], [], {}]}


def _l2_on_accept(state):
    """L2 lane: the complete graphs of an accepted batch are handed to the model conformance check"""
    def cb(gl):
        try:
            duts = cl.reshape_duts(l2.graph_cases(gl, cl.LANE, cap_per_dut=state.get("cap")))
        except KeyError as ex:          # a register of the model is not in the netlist any more: drift, not a failure
            state["drifts"].append(_projection_drift(gl.duts[0].spec, ex))
            return
        n, dr = cl.conform(cl.LANE, duts, notes=state["notes"])
        state["graph_cases"] += n
        state["graph_duts"] += len(duts)
        state["drifts"] += dr
    return cb


def g_mode(report, tier, l2state=None):
    cfgs = fam.configs(tier)
    if tier == "thorough":
        cfgs = cfgs + fam.sweep_configs()
    for spec, cfg in cfgs:
        if not cfg["built"]:
            raise MachineryError("G-mode configuration cannot be built: %s (%s)" % (describe(spec), cfg["error"]))
        # vacuity guard: every bank answers inside the master's address space and every register has an address
        owners = {e[0] for m in cfg["map"] for e in m[:1 << cfg["pb"]]}
        if any(a >= cfg["npages"] for a in cfg["bankadr"]) or owners - {0} != set(range(1, len(cfg["regs"]) + 1)):
            raise MachineryError("G-mode configuration with unreachable registers: %s" % describe(spec))
    # DUTs that hit the listed finding (atomic write under little ordering) run alone: a confirmed violation
    # restarts the exploration of the rest of its batch
    alone = [c for c in cfgs if c[0]["ordering"] == "little" and c[0]["atomic_multiword"]]
    rest = [c for c in cfgs if not (c[0]["ordering"] == "little" and c[0]["atomic_multiword"])]
    per = 6
    batches = [rest[i:i + per] for i in range(0, len(rest), per)] + [[c] for c in alone]
    stats = run_batches(FAMILY, report, batches, INVS, [], spec_budget=400000, total_budget=2000000,
                        on_accept=_l2_on_accept(l2state) if l2state is not None else None)
    report.add(duts_explored=len(stats), per_dut=stats)


SRAM_INVS = ["WindowReadsLastWrite", "WindowZeroWhenUnselected", "WindowPageRegister"]
SRAM_FAMILY = GFamily("csrbank/CsrSramGraph", "csrbank/CsrSramTrace", "harness.families.csrbank:make_sram",
                      clause_map={k: k for k in SRAM_INVS}, spec_name=None, fmt="hash",
                      describe=lambda s: "csr_bus.SRAM(w=%d, mem %dx%d, paging=%d%s)" % (
                          s["w"], s["depth"], s["mw"], s["paging"], ", read_only" if s.get("ro") else ""))


def sram_windows(report, tier, l2state=None):
    cfgs = fam.sram_configs(tier)
    stats = run_batches(SRAM_FAMILY, report, [cfgs[i:i + 6] for i in range(0, len(cfgs), 6)], SRAM_INVS, [],
                        spec_budget=400000, total_budget=2000000,
                        on_accept=_l2_on_accept(l2state) if l2state is not None else None)
    report.add(sram_windows_explored=len(stats), per_dut=stats)


# ------------------------------------------------------------------------------------------- construction
def construction_cases(report, tier, seed, l2state=None):
    res = tlcmod.run("csrbank/CsrBankCases", "INIT Init\nNEXT Next\nCHECK_DEADLOCK FALSE\n",
                     env={"CSRBANK_TIER": tier}, workers=1, timeout=600)
    if res.errors or res.violated:
        raise MachineryError("TLC failed on the construction cases: " + " | ".join(res.errors[:4]) + res.out[-1500:])
    cases = sorted({(tuple(t[1]), tuple(t[2])) for t in tlcmod.print_lines(res.out, "CASE")})
    if not cases:
        raise MachineryError("TLC printed no construction case")
    traces, specs = [], []
    nrej = 0
    errs = {}
    for i, (nwords, locs) in enumerate(cases):
        spec = fam.case_spec(nwords, locs, "big" if i % 2 == 0 else "little")
        cfg = fam.tla_cfg(spec)
        if not cfg["built"]:
            nrej += 1
            errs[cfg["error"]] = errs.get(cfg["error"], 0) + 1
        specs.append(spec)
        traces.append({"cfg": cfg, "ev": []})
    fails, st = tracecheck.validate(TRACE, traces, ["AddressesDisjoint"], workers=8, timeout=1500)
    report.add(states=st["states"], transitions=st["transitions"], traces_validated_against_impl=len(traces),
               construction_cases=len(traces), constructions_refused=nrej, refusals_by_exception=errs)
    if l2state is not None:
        # L2 lane: the model of _sort_gathered_items / do_finalize / GenericBank must build the same map or refuse
        # with the same exception as the real constructor did, for every enumerated register list
        n, dr = cl.construction_conformance([t["cfg"] for t in traces])
        l2state["constructions"] += n
        l2state["drifts"] += dr
    if errs.get("IndexError"):
        report.note("%d register lists with a fixed location n == number of registers are refused with an "
                    "IndexError by csr.py:_sort_gathered_items (`item.n > items_length` should be `>=`); a refusal "
                    "is permitted by clause AddressesDisjoint, so this is reported as an observation only"
                    % errs["IndexError"])
    k = len(traces) // 2
    report.sample({"construction_case": {"words": list(cases[k][0]), "locations": list(cases[k][1])},
                   "built": traces[k]["cfg"]["built"], "map": traces[k]["cfg"]["map"]})
    seen = set()
    for f in fails:
        spec = specs[f["tid"]]
        cfg = traces[f["tid"]]["cfg"]
        key = (tuple(r["n"] for r in cfg["regs"]), cfg["built"])
        if key in seen or len(seen) >= 6:
            continue
        seen.add(key)
        sig = {"dut": spec, "clause": "AddressesDisjoint", "class": "construction"}
        report.violation(sig, {"kind": "construction", "spec": spec, "cfg": cfg, "clause": "AddressesDisjoint",
                               "trace_module": TRACE},
                         "AddressesDisjoint violated by %s: %s" % (
                             describe(spec), ("built with map %s" % cfg["map"]) if cfg["built"]
                             else "refused with %s" % cfg["error"]))


# ------------------------------------------------------------------------------------------- T-mode
def long_runs(report, tier, seed, l2state=None):
    rnd = random.Random(seed * 7919 + 12)
    nconf, ncyc = (30, 250) if tier == "quick" else (160, 500)
    traces, meta, run_duts = [], [], []
    for i in range(nconf):
        w = (8, 32, 16)[i % 3] if i % 6 else 8
        for _ in range(50):
            spec = fam.random_spec(rnd, w)
            cfg = fam.tla_cfg(spec)
            if cfg["built"]:
                break
        else:
            raise MachineryError("no buildable random register set")
        sched = fam.random_schedule(rnd, spec, cfg, ncyc)
        m = cl.model_cfg(spec, cfg) if l2state is not None else None
        if m is not None:
            # one cycle-by-cycle run of the real netlist serves both T-mode (inputs, outputs) and the L2 lane
            # (registers before / after every clock edge, read by name)
            try:
                reset, cases = l2.run_cases(FACTORY, spec, cl.LANE.proj_path, sched)
            except KeyError as ex:
                if not any(d["clause"].startswith("Projection") for d in l2state["drifts"]):
                    l2state["drifts"].append(_projection_drift(spec, ex))
                m = None
        if m is not None:
            ev = [[c[1], c[2]] for c in cases]
            run_duts.append({"spec": spec, "m": m, "reset": reset, "cases": cases})
        else:
            ev = linear_replay(FACTORY, spec, sched)
        traces.append({"cfg": cfg, "ev": ev})
        meta.append((spec, sched))
    fails, st = tracecheck.validate(TRACE, traces, INVS, workers=8, timeout=2400)
    report.add(states=st["states"], transitions=st["transitions"], traces_validated_against_impl=len(traces),
               long_run_cycles=sum(len(t["ev"]) for t in traces))
    report.sample({"long_run": describe(meta[0][0]), "first_cycles": traces[0]["ev"][:3]})
    if l2state is not None:
        n, dr = cl.conform(cl.LANE, cl.reshape_duts(run_duts), notes=l2state["notes"])
        l2state["run_duts"] += len(run_duts)
        l2state["run_cases"] += n
        l2state["drifts"] += dr
    done = set()
    for f in fails:
        if f["tid"] in done or len(done) >= 4:
            continue
        done.add(f["tid"])
        spec, sched = meta[f["tid"]]
        n = (f["l"] or len(sched) + 1) - 1
        sig = {"dut": spec, "clause": f["clause"]}
        report.violation(sig, {"family": "csrbank/CsrBankTrace", "factory": FACTORY, "spec": spec,
                               "cfg": traces[f["tid"]]["cfg"], "schedule": sched[:n], "prefix_len": n, "loop_len": 0,
                               "trace_module": TRACE, "trace_invariants": [f["clause"]],
                               "observed": traces[f["tid"]]["ev"][:n], "clause": f["clause"]},
                         "%s violated by %s after %d cycles of a random history" % (f["clause"], describe(spec), n))


# ------------------------------------------------------------------------------------------- L2 lane
def _mmode_counterexample(report, res, mcfgs, label):
    """a counterexample on the model counts only if the real netlist (same register set) shows it too"""
    x = mcfgs[res.trace[0]["vars"]["d"] - 1]
    prefix, _ = schedule_from_trace(res)
    ev = linear_replay(FACTORY, x["spec"], list(prefix))
    cfg = fam.tla_cfg(x["spec"])
    tinv = [res.violated] if res.violated in INVS else INVS
    fails, _ = tracecheck.validate(TRACE, [{"cfg": cfg, "ev": ev}], tinv)
    if fails:
        report.violation({"dut": x["spec"], "clause": fails[0]["clause"]},
                         {"family": "csrbank/CsrBankTrace", "factory": FACTORY, "spec": x["spec"], "cfg": cfg,
                          "schedule": [list(i) for i in prefix], "prefix_len": len(prefix), "loop_len": 0,
                          "trace_module": TRACE, "trace_invariants": tinv, "observed": ev, "clause": fails[0]["clause"]},
                         "%s violated by %s (found on the L2 model in M-mode, reproduced on the netlist) after %d cycles" % (
                             fails[0]["clause"], describe(x["spec"]), len(prefix)))
    else:
        report.note("MODEL-DRIFT csrbank: M-mode counterexample to %s on the model of %s (%s) does not reproduce on the "
                    "netlist" % (res.violated, describe(x["spec"]), label))
        report.add(l2_model_drifts=1)


def run_l2(report, tier, seed, state):
    """(a) conformance happened in the phases above (state): every edge of the complete G-mode graphs of the banks and
    the SRAM windows, every cycle of the long runs, every construction case; (b) M-mode: model x Env x the clauses of
    the contract for register sets beyond G-mode - the configuration class of the listed finding (atomic write under
    little ordering) in a run of its own without the clause it is known to fail, exactly as G-mode does; (c) drift
    notes; a drifting DUT class is explored against the L1 contract at the thorough tier's parameters."""
    report.add(l2_model={"module": "csrbank/CsrBankModel", "graph_duts_conformant": state["graph_duts"],
                         "graph_edges_judged": state["graph_cases"],
                         "graph_edge_sample": ("every k-th edge, at most %d per DUT (all edges in the thorough tier)" % state["cap"])
                         if state.get("cap") else "all edges", "run_duts": state["run_duts"],
                         "run_cycles_judged": state["run_cases"], "constructions_judged": state["constructions"]})
    mcfgs = cl.mmode_configs(tier)
    groups = [("all clauses", [x for x in mcfgs if not cl.known_little_atomic(x["spec"])], INVS),
              ("listed finding class: little ordering with a multi-word atomic register, without AtomicCommit",
               [x for x in mcfgs if cl.known_little_atomic(x["spec"])], [c for c in INVS if c != "AtomicCommit"])]
    tot = {"states": 0, "transitions": 0, "wall": 0.0}
    for label, grp, invs in groups:
        if not grp:
            continue
        try:
            res = l2.mmode(cl.LANE.m_module, [{"c": x["c"], "m": x["m"]} for x in grp], invs, [],
                           timeout=1500 if tier == "quick" else 1200)
        except MachineryError as ex:    # the lane never fails a check: TLC killed / timed out on the model
            report.note("L2 M-mode (csrbank, %s) could not be evaluated: %s" % (label, str(ex).split("\n")[0][:200]))
            continue
        tot["states"] += res.distinct
        tot["transitions"] += res.generated
        tot["wall"] += res.wall
        if res.violated:
            _mmode_counterexample(report, res, grp, label)
    report.add(states=tot["states"], transitions=tot["transitions"])
    big = max(mcfgs, key=lambda x: (len(x["m"]["regs"]), max(fam.r_size(r) for b in x["spec"]["banks"] for r in b["regs"])))
    report.cov["l2_model"].update({"mmode_configs": len(mcfgs), "mmode_states": tot["states"],
                                   "mmode_transitions": tot["transitions"], "mmode_wall_s": round(tot["wall"], 1),
                                   "mmode_largest": describe(big["spec"]),
                                   "mmode_without_AtomicCommit": sum(1 for x in mcfgs if cl.known_little_atomic(x["spec"]))})
    for t in state["notes"]:
        report.note(t)
    l2.report_drifts(report, cl.LANE, state["drifts"][:5])          # one note per drifting DUT, at most five
    if len(state["drifts"]) > 5:
        report.note("MODEL-DRIFT %s: %d more DUT(s) / case(s) drift" % (cl.LANE.name, len(state["drifts"]) - 5))
        report.add(l2_model_drifts=len(state["drifts"]) - 5)
    if state["drifts"] and tier == "quick" and not report.violations:
        # nothing has been reported yet although the code is no longer what was model-checked: look deeper
        bank = [d for d in state["drifts"] if d["spec"].get("kind") != "sram"]
        have = {json.dumps(s_, sort_keys=True) for s_, _ in fam.configs("quick") + fam.sram_configs("quick")}
        if bank:
            kinds = {r["kind"] for d in bank for b in d["spec"].get("banks", []) for r in b["regs"]} or \
                    {"storage", "storage_atomic", "status", "status_rw", "csr", "storage_dev"}
            esc = [(s_, c_) for s_, c_ in fam.configs("thorough") + fam.sweep_configs()
                   if json.dumps(s_, sort_keys=True) not in have and c_["built"]
                   and {r["kind"] for b in s_["banks"] for r in b["regs"]} & kinds
                   and not cl.known_little_atomic(s_)]
            report.note("escalation: %d thorough-tier register set(s) with registers of kind %s explored against the L1 "
                        "contract" % (len(esc[:12]), sorted(kinds)))
            if esc:
                run_batches(FAMILY, report, [esc[i:i + 6] for i in range(0, min(len(esc), 12), 6)], INVS, [],
                            spec_budget=300000, total_budget=1200000)
        if len(bank) != len(state["drifts"]):
            esc = [x for x in fam.sram_configs("thorough") if json.dumps(x[0], sort_keys=True) not in have]
            report.note("escalation: %d thorough-tier csr_bus.SRAM window(s) explored against the L1 contract" % len(esc))
            if esc:
                run_batches(SRAM_FAMILY, report, [esc], SRAM_INVS, [], spec_budget=300000, total_budget=1200000)


# ------------------------------------------------------------------------------------------- entry points
def run(prop, report, tier, seed):
    report.assume("one CSR bus operation (idle / write / read, never both strobes) per cycle; G-mode at bus words "
                  "of 2 and 4 bits with registers of 1 .. 2w+1 bits, device-side activity of a register combined "
                  "with idle cycles, accesses to that register and reads of every address; T-mode at 8/16/32-bit "
                  "words with registers of at most 30 bits (TLC integers) and free combinations; bank pages distinct")
    report.assume("L2 (specs/csrbank/CsrBankModel.tla): register-level model of CSRFieldAggregate, _sort_gathered_items, "
                  "CSRStorage (atomic back-store, write_from_dev, fields), CSRStatus (we, re, writable variant), "
                  "GenericBank / CSRBank (decode, registered read multiplexer), the interconnect's OR and csr_bus.SRAM "
                  "(page register, sub-word staging); it gives no verdict - every edge of the complete G-mode graphs, "
                  "every cycle of the long runs and every construction outcome must be reproduced by the model (else "
                  "MODEL-DRIFT and escalation), and the model is checked against the same clauses in M-mode for banks of "
                  "five and six registers of up to four bus words")
    l2state = {"graph_cases": 0, "graph_duts": 0, "run_duts": 0, "run_cases": 0, "constructions": 0, "drifts": [], "notes": [],
               "cap": 30000 if tier == "quick" else None}   # quick: stride sample of at most 30k edges per DUT
    for name, fn in (("construction", lambda: construction_cases(report, tier, seed, l2state)),
                     ("g_mode", lambda: g_mode(report, tier, l2state)),
                     ("sram_windows", lambda: sram_windows(report, tier, l2state)),
                     ("long_runs", lambda: long_runs(report, tier, seed, l2state)),
                     ("l2_mmode", lambda: run_l2(report, tier, seed, l2state))):
        t0 = time.time()
        fn()
        report.add(phase_wall_s={name: round(time.time() - t0, 1)})
    report.add(clauses=INVS + SRAM_INVS)
    report.cov["exhaustive"] = True


def replay(path):
    with open(path) as f:
        r = json.load(f)
    if r.get("kind") == "construction":
        cfg = fam.tla_cfg(r["spec"])
        fails, _ = tracecheck.validate(r["trace_module"], [{"cfg": cfg, "ev": []}], [r["clause"]])
        return bool([f for f in fails if f["clause"] == r["clause"]]), fails
    return replay_file(path)
