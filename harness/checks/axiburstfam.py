"""C10: AXI bursts are expanded and resized according to the AXI address rules.

Parts (see specs/axiburst/*.tla, the judges):
  A  AxiBurst.tla          the AMBA address rules + self tests (ASSUME), evaluated by every TLC run below
  B  AxiB2BCases.tla       R/T: TLC enumerates the request set, the real AXIBurst2Beat expands every request
                           (no stalls / seeded random stalls, back to back on one instance), TLC judges every
                           recorded burst
  C  AxiB2BGraph.tla       G: short bursts under ALL stall patterns and in every order (closed-loop product with
                           the graph of the real netlist), safety + termination
  D  AxiB2BModel.tla       M: an L2 transcription of AXIBurst2Beat against the formulae for the whole parameter
                           space (no verdict about the code by itself) + conformance of L2 to the recorded bursts
  E  AxiConvCases.tla      T: AXIUpConverter / AXIDownConverter with a harness AXI master and slave, TLC judges
                           the recorded transfers
"""
import json
import multiprocessing as mp
import os
import random
import re
import shutil
import tempfile
import time
from concurrent.futures import ThreadPoolExecutor

from .. import tlc as tlcmod
from ..gcheck import GFamily, run_batches
from ..report import MachineryError
from ..families import axiburst as fam

PROP = "C10"
B2B_CLAUSES = ["CaseBeatCount", "CaseBeatAddress", "CaseFirstLast", "CaseConsumedOnce", "CaseNoSpuriousBeat",
               "CaseValidHold"]
CHUNK_CYCLES = 160000

GFAM = GFamily("axiburst/AxiB2BGraph", "axiburst/AxiB2BTrace", "harness.families.axiburst:make", hint=fam.Hint(),
               clause_map={"BeatAddress": "BeatAddressT", "FirstLast": "FirstLastT", "ConsumedOnce": "ConsumedOnceT",
                           "ValidHold": "ValidHoldT", "BurstTerminates": "BoundedTermination"},
               fmt="hash",
               describe=lambda s: "AXIBurst2Beat%s%s" % ("(capabilities=%s)" % s["caps"] if "caps" in s else "",
                                                          " [%s]" % s["tag"] if "tag" in s else ""))


def _scratch():
    return tempfile.mkdtemp(prefix="verif-c10-", dir=os.environ.get("VERIF_SCRATCH", "/var/tmp"))


def _cfg(invs, init="Init", nxt="Next"):
    return "INIT %s\nNEXT %s\nCHECK_DEADLOCK FALSE\n" % (init, nxt) + "".join("INVARIANT %s\n" % i for i in invs)


def _pool():
    return mp.get_context("fork").Pool(min(16, os.cpu_count() or 4))


def _tlc(module, cfg, env, scratch, what, workers=4, timeout=1500, heap="8g"):
    res = tlcmod.run(module, cfg, env=env, workers=workers, timeout=timeout, scratch=scratch, heap=heap)
    if res.errors:
        raise MachineryError("TLC failed (%s): " % what + " | ".join(res.errors[:6]) + "\n" + res.out[-2500:])
    return res


# ============================================================================== B: Burst2Beat, R/T mode
def b2b_plan(tier, scratch):
    out = os.path.join(scratch, "plan.json")
    res = _tlc("axiburst/AxiB2BCases", _cfg([], "PlanInit"), {"AXI_TIER": tier, "PLAN_OUT": out, "TRACES": out},
               scratch, "request plan", workers=1, timeout=600)
    if res.violated or not os.path.exists(out):
        raise MachineryError("TLC did not write the request plan\n" + res.out[-1500:])
    with open(out) as f:
        plan = json.load(f)
    reqs = sorted(tuple(r) for r in plan["reqs"])
    if not reqs:
        raise MachineryError("TLC enumerated an empty request set")
    return reqs, plan["bus"]


PAGES = (0, 1, 0x12345, 0x7ffff, 0x80000, 0xfffff)


def _b2b_jobs(reqs, stallmode, rnd, per_job=160):
    """requests in a seeded random order (so that every run sees other neighbours), with harness chosen
    page number and id; chunks are run back to back on one instance each"""
    order = list(reqs)
    rnd.shuffle(order)
    full = [(rnd.choice(PAGES), r[0], r[1], r[2], r[3], rnd.randrange(16)) for r in order]
    return [(full[i:i + per_job], stallmode, rnd.randrange(1 << 30), "compiled") for i in range(0, len(full), per_job)]


def b2b_judge(cases, tier, clauses, scratch):
    """one TLC run over recorded bursts -> (failure or None, stats)"""
    path = os.path.join(scratch, "cases%d.json" % (time.time_ns() % 10**9))
    with open(path, "w") as f:
        json.dump({"cases": cases}, f, separators=(",", ":"))
    try:
        res = _tlc("axiburst/AxiB2BCases", _cfg(["EnvLegal"] + list(clauses)), {"TRACES": path, "AXI_TIER": tier},
                   scratch, "judging bursts")
    finally:
        os.unlink(path)
    st = {"states": res.distinct, "transitions": res.generated, "wall": res.wall}
    if res.violated:
        v = res.trace[-1]["vars"] if res.trace else {}
        tid = v.get("tid")
        if not isinstance(tid, int) or tid < 1:
            raise MachineryError("violation of %s without a parsable state\n%s" % (res.violated, res.out[-1500:]))
        if res.violated == "EnvLegal":
            raise MachineryError("recorded burst is not a legal stimulus of the plan: %r" % (cases[tid - 1]["req"],))
        return {"tid": tid - 1, "clause": res.violated}, st
    if res.distinct != len(cases):
        raise MachineryError("judge consumed %d states, expected %d" % (res.distinct, len(cases)))
    return None, st


def _fmt_req(r):
    return "addr=0x%08x len=%d size=%d burst=%s id=%d" % (r[0] * fam.PAGE + r[1], r[2], r[3],
                                                         ("FIXED", "INCR", "WRAP")[r[4]], r[5])


def _beats_of(case):
    return [c[4] * fam.PAGE + c[5] for c in case["cyc"] if c[3] == 1 and c[1] == 1]


def b2b_confirm(report, job, idx, clause, tier, scratch, mode):
    """replay the whole job on a fresh instance with the repository's reference evaluator and let TLC
    judge the recorded burst again"""
    reqs, stallmode, seed, _ = job
    ref = fam.b2b_record((reqs[:idx + 1], stallmode, seed, "ref"))
    fail, _ = b2b_judge([ref[idx]], tier, [clause], scratch)
    if fail is None:
        raise MachineryError("%s on %s not reproduced by the reference evaluator" % (clause, _fmt_req(reqs[idx])))
    case = ref[idx]
    r = reqs[idx]
    sig = {"dut": "AXIBurst2Beat", "clause": clause, "burst": r[4], "len": r[2], "size": r[3], "addr_low": r[1] % 64}
    report.violation(sig, {"kind": "b2b", "requests": [list(x) for x in reqs[:idx + 1]], "stallmode": stallmode,
                           "seed": seed, "index": idx, "clause": clause, "tier": tier, "observed": case},
                     "%s violated by AXIBurst2Beat for %s (%s): beat addresses %s" % (
                         clause, _fmt_req(r), mode, ["0x%x" % a for a in _beats_of(case)[:20]]))


def run_b2b_cases(report, tier, seed, scratch, log=print):
    reqs, bus = b2b_plan(tier, scratch)
    log("plan: %d legal requests (bus %d bytes)" % (len(reqs), bus))
    rnd = random.Random(seed * 1000003 + 10)
    passes = [("no stalls", 0, reqs)]
    short = [r for r in reqs if r[1] <= 16]
    if tier == "thorough":
        passes += [("random stalls", 1, reqs), ("heavy stalls", 2, short), ("idle junk", 3, short)]
    else:
        passes += [("random stalls", 1, short), ("idle junk", 3, [r for r in reqs if r[1] <= 4])]
    recorded = {}
    t0 = time.time()
    pool = _pool()
    try:
        for name, mode, rs in passes:
            jobs = _b2b_jobs(rs, mode, rnd)
            recorded[name] = (jobs, pool.map(fam.b2b_record, jobs, chunksize=1))
    finally:
        pool.terminate()
    ncyc = sum(len(c["cyc"]) for _, (jobs, outs) in recorded.items() for o in outs for c in o)
    log("recorded %d bursts, %d cycles in %.1fs" % (sum(len(o) for _, (j, outs) in recorded.items() for o in outs),
                                                   ncyc, time.time() - t0))
    report.add(b2b_requests=len(reqs), b2b_cycles_recorded=ncyc)
    # vacuity witnesses (measured on the recorded stimulus, no verdict): stalled beats, gaps, wrapping bursts
    wit = {"stalled_beat_cycles": 0, "idle_gap_cycles": 0, "wrap_bursts_that_wrap": 0, "unaligned_starts": 0,
           "bursts_of_256_beats": 0, "idle_cycles_with_junk_on_request_lines": 0,
           "ready_while_idle_with_junk": 0}
    for name, (jobs, outs) in recorded.items():
        for o in outs:
            for c in o:
                r = c["req"]
                if name == "no stalls":
                    wit["unaligned_starts"] += 1 if r[1] % (1 << r[3]) else 0
                    wit["bursts_of_256_beats"] += 1 if r[2] == 255 else 0
                    wit["wrap_bursts_that_wrap"] += 1 if r[4] == 2 and r[1] % ((r[2] + 1) << r[3]) else 0
                else:
                    wit["stalled_beat_cycles"] += sum(1 for x in c["cyc"] if x[3] == 1 and x[1] == 0)
                    wit["idle_gap_cycles"] += sum(1 for x in c["cyc"] if x[0] == 0)
                    if name == "idle junk":
                        wit["idle_cycles_with_junk_on_request_lines"] += c["junk"]
                        wit["ready_while_idle_with_junk"] += 1 if c["junk"] and any(
                            x[0] == 0 and x[1] == 1 for x in c["cyc"]) else 0
    if not all(wit.values()):
        raise MachineryError("vacuous stimulus: %r" % wit)
    report.add(b2b_witnesses=wit)
    # ---- judge, chunked; up to three TLC runs at a time
    failed_clauses = set()
    work = []
    for name, (jobs, outs) in recorded.items():
        flat = [(ji, ci, c) for ji, o in enumerate(outs) for ci, c in enumerate(o)]
        cur, n = [], 0
        for item in flat:
            if cur and n + len(item[2]["cyc"]) > CHUNK_CYCLES:
                work.append((name, jobs, cur))
                cur, n = [], 0
            cur.append(item)
            n += len(item[2]["cyc"])
        if cur:
            work.append((name, jobs, cur))
        for o in outs[:1]:
            for c in o[:2]:
                report.sample({"burst2beat": _fmt_req(c["req"]), "pass": name, "cycles": len(c["cyc"]),
                               "beat_addresses": ["0x%x" % a for a in _beats_of(c)[:8]]})
    with ThreadPoolExecutor(max_workers=3) as ex:
        first = list(ex.map(lambda w: b2b_judge([c for _, _, c in w[2]], tier, B2B_CLAUSES, scratch), work))
    for (name, jobs, chunk), (fail, st) in zip(work, first):
        report.add(states=st["states"], transitions=st["transitions"])
        log("judge %s: %d bursts, TLC %.1fs%s" % (name, len(chunk), st["wall"], " -> %s" % fail["clause"] if fail else ""))
        cases = [c for _, _, c in chunk]
        while fail is not None:
            ji, ci, _ = chunk[fail["tid"]]
            if fail["clause"] not in failed_clauses:
                b2b_confirm(report, jobs[ji], ci, fail["clause"], tier, scratch, name)
            # a clause that failed once is not asked again (a broken expander fails everywhere)
            failed_clauses.add(fail["clause"])
            clauses = [c for c in B2B_CLAUSES if c not in failed_clauses]
            if not clauses:
                break
            fail, st = b2b_judge(cases, tier, clauses, scratch)
            report.add(states=st["states"], transitions=st["transitions"])
    if not failed_clauses:
        report.add(traces_validated_against_impl=sum(len(w[2]) for w in work))
    # ---- coverage of the plan
    path = os.path.join(scratch, "cov.json")
    with open(path, "w") as f:
        json.dump({"reqs": [c["req"][1:5] for o in recorded["no stalls"][1] for c in o],
                   "stalled": [c["req"][1:5] for o in recorded["random stalls"][1] for c in o]}, f)
    res = _tlc("axiburst/AxiB2BCases", _cfg(["Coverage"], "CovInit"), {"TRACES": path, "AXI_TIER": tier}, scratch,
               "coverage")
    if res.violated:
        raise MachineryError("the recorded bursts do not cover the request set AxiB2BCases.tla demands")
    # ---- compiled stepper vs reference evaluator on a sample of jobs
    jobs, outs = recorded["random stalls"]
    nx = 0
    for ji in sorted(rnd.sample(range(len(jobs)), min(3 if tier == "quick" else 10, len(jobs)))):
        rq, mode, sd, _ = jobs[ji]
        ref = fam.b2b_record((rq[:25], mode, sd, "ref"))
        if ref != outs[ji][:25]:
            raise MachineryError("compiled stepper disagrees with the reference evaluator on AXIBurst2Beat")
        nx += sum(len(c["cyc"]) for c in ref)
    report.add(reference_evaluator_crosschecks=nx)
    return recorded


# ============================================================================== C: Burst2Beat, G mode
def run_b2b_graph(report, tier, log=print):
    cfgs = fam.gconfigs(tier)
    wit = {}

    def witness(gl):
        """vacuity witnesses of the accepted graphs (measured on the inputs TLC asked for, no verdict): per DUT the
        burst types offered and the idle cycles with junk on the request lines"""
        for g in gl.duts:
            ivs = list(g.alphabet.values())
            wit[GFAM.describe(g.spec)] = {
                "offered_burst_types": sorted({iv[4] for iv in ivs if iv[0] == 1}),
                "idle_inputs_with_junk": sum(1 for iv in ivs if iv[0] == 0 and any(iv[1:6])),
                "idle_junk_no_legal_request": sum(1 for iv in ivs if iv[0] == 0 and iv[4] == 3),
                "cfg_bursts": sorted(g.cfg["bursts"]), "cfg_junk": "junk" in g.cfg,
                "caps": sorted(g.spec.get("caps", [0, 1, 2]))}
    stats = run_batches(GFAM, report, [cfgs], ["BeatAddress", "FirstLast", "ConsumedOnce", "ValidHold"],
                        ["BurstTerminates"], log=log, spec_budget=150000 if tier == "quick" else 600000,
                        on_accept=witness)
    report.add(gmode_duts=len(stats), gmode_per_dut=stats)
    if not report.violations:
        # every configured DUT was explored, with every burst type of its configuration, the junk configurations with
        # junk, and the restricted-capability expanders are among them
        if len(wit) != len(cfgs):
            raise MachineryError("G-mode explored %d of %d AXIBurst2Beat configurations" % (len(wit), len(cfgs)))
        for name, w in wit.items():
            if w["offered_burst_types"] != w["cfg_bursts"]:
                raise MachineryError("vacuous G-mode stimulus for %s: %r" % (name, w))
            if w["cfg_junk"] != (w["idle_inputs_with_junk"] > 0) or (w["cfg_junk"] and not w["idle_junk_no_legal_request"]):
                raise MachineryError("vacuous idle-junk stimulus for %s: %r" % (name, w))
        if not any(w["cfg_junk"] for w in wit.values()) or not any(w["caps"] == [0, 1] for w in wit.values()):
            raise MachineryError("G-mode configurations lack the idle-junk / capabilities={FIXED,INCR} expanders")
    report.add(gmode_witnesses=wit)


# ============================================================================== E: data-width converters, T mode
CONV_CLAUSES = ["AxForwarded", "AxLegalOut", "AxBytes", "WBeats", "WStrbLanes", "WData", "BCarried", "RBeats", "RData",
                "RIdResp", "Completes"]
CONV_CHUNK = 1500          # cases per TLC run (bounded by recorded size as well)


def conv_plan(tier, scratch):
    out = os.path.join(scratch, "convplan.json")
    res = _tlc("axiburst/AxiConvCases", _cfg([], "PlanInit"), {"AXI_TIER": tier, "PLAN_OUT": out, "TRACES": out},
               scratch, "converter plan", workers=1, timeout=600)
    if res.violated or not os.path.exists(out):
        raise MachineryError("TLC did not write the converter plan\n" + res.out[-1500:])
    with open(out) as f:
        plan = json.load(f)["cfgs"]
    cfgs = []
    for c in sorted(plan, key=lambda c: (c["fb"], c["tb"])):
        reqs = sorted((tuple(r[:4]), r[4]) for r in c["reqs"])
        if not reqs:
            raise MachineryError("empty converter request set")
        cfgs.append((c["fb"], c["tb"], reqs))
    return cfgs


def _dutname(fb, tb):
    return "AXIUpConverter" if fb < tb else "AXIDownConverter" if fb > tb else "AXIConverter(equal widths)"


def conv_cases(fb, tb, reqs, tier, rnd):
    """compose the recorded runs: requests of the supported class in random sequences of three writes and three
    reads (pipelined, different ids and responses, every request in every stall mode); every other request after
    one supported priming burst, alone"""
    sup = [r for r, c in reqs if c == "supported"]
    oth = [(r, c) for r, c in reqs if c != "supported"]
    if not sup:
        raise MachineryError("no supported request for %d->%d" % (fb, tb))
    cases = []
    done_long = set()
    resp = (0, 0, 0, 2, 3)

    def op(r, slot):
        return [0x1000 * (slot + 1) + r[0], r[1], r[2], r[3], rnd.randrange(16), rnd.choice(resp)]
    modes = (0, 1, 2, 1, 2, 1) if tier == "thorough" else (0, 1)
    for mode in modes:
        short = [r for r in sup if r[1] <= 15]
        long_ = [r for r in sup if r[1] > 15]
        wr, rd = list(short), list(short)
        rnd.shuffle(wr)
        rnd.shuffle(rd)
        for i in range(0, len(short), 3):
            w, r = wr[i:i + 3], rd[i:i + 3]
            cases.append({"writes": [op(x, k) for k, x in enumerate(w)], "reads": [op(x, k + 4) for k, x in enumerate(r)],
                          "seed": rnd.randrange(1 << 30), "stall": mode, "cls": "supported",
                          "sparse": rnd.random() < 0.5})
        for x in long_:
            if mode == 2 or (mode, x) in done_long:
                continue
            done_long.add((mode, x))
            cases.append({"writes": [op(x, 0)], "reads": [op(x, 1)], "seed": rnd.randrange(1 << 30), "stall": mode,
                          "cls": "supported", "sparse": False})
    # priming burst: aligned INCR of one wide word, full strobes
    ratio = max(fb, tb) // min(fb, tb)
    prime = [p for p in sup if p[0] == 0 and p[3] == 1 and p[1] == (ratio - 1 if fb < tb else 0)]
    if not prime:
        raise MachineryError("no priming request for %d->%d" % (fb, tb))
    prime = prime[0]
    for r, c in oth:
        mode = rnd.choice((0, 1))
        if r[1] > 15:
            mode = 0
        cases.append({"writes": [op(prime, 8), op(r, 0)], "reads": [op(prime, 9), op(r, 1)],
                      "seed": rnd.randrange(1 << 30), "stall": mode, "cls": c, "sparse": False})
    # half of the runs with stalls (those with an odd seed): junk instead of zeros on the lines of every Env-driven
    # channel while its valid is low (fam.conv_record, AxiConvCases header)
    for c in cases:
        c["junk"] = bool(c["stall"] > 0 and c["seed"] % 2 == 1)
    return cases


def conv_verdicts(cases, tier, scratch):
    """one TLC run: EnvLegal as invariant, and for every case the set of violated clauses (printed by TLC)"""
    path = os.path.join(scratch, "conv%d.json" % (time.time_ns() % 10**9))
    with open(path, "w") as f:
        json.dump({"cases": cases}, f, separators=(",", ":"))
    try:
        res = _tlc("axiburst/AxiConvCases", _cfg(["EnvLegal"], "VerdictInit"), {"TRACES": path, "AXI_TIER": tier},
                   scratch, "judging converter runs", timeout=2400, heap="12g")
    finally:
        os.unlink(path)
    if res.violated:
        v = res.trace[-1]["vars"] if res.trace else {}
        raise MachineryError("converter run %r: the harness' master/slave did not behave as AxiConvCases!EnvLegal "
                             "demands (%s)" % (v.get("tid"), res.violated))
    verdicts = {}
    # (TLC wraps long values over several lines: "<< \"VERDICT\",\n 33,\n {...} >>")
    for m in re.finditer(r'<<\s*"VERDICT",\s*(\d+),\s*\{([^}]*)\}\s*>>', res.out):
        verdicts[int(m.group(1)) - 1] = [c for c in CONV_CLAUSES if '"%s"' % c in m.group(2)]
    if len(verdicts) != len(cases) or res.distinct != len(cases):
        raise MachineryError("TLC judged %d of %d converter runs" % (len(verdicts), len(cases)))
    return verdicts, {"states": res.distinct, "transitions": res.generated, "wall": res.wall}


def conv_judge_one(case, tier, clauses, scratch):
    """a single run with the clauses as invariants -> name of the first violated clause or None"""
    path = os.path.join(scratch, "conv1_%d.json" % (time.time_ns() % 10**9))
    with open(path, "w") as f:
        json.dump({"cases": [case]}, f, separators=(",", ":"))
    try:
        res = _tlc("axiburst/AxiConvCases", _cfg(["EnvLegal"] + list(clauses)), {"TRACES": path, "AXI_TIER": tier},
                   scratch, "re-judging a converter run", workers=1, timeout=600)
    finally:
        os.unlink(path)
    if res.violated == "EnvLegal":
        raise MachineryError("replayed converter run is not a legal stimulus any more")
    return res.violated


def _fmt_op(o):
    return "addr=0x%x len=%d size=%d burst=%s id=%d" % (o[0], o[1], o[2], ("FIXED", "INCR", "WRAP")[o[3]], o[4])


def _conv_text(spec, case, rec, clauses):
    w, r = case["writes"][-1], case["reads"][-1]
    k = len(case["writes"]) - 1
    t_aw = rec["t_aw"][k][1:5] if len(rec["t_aw"]) > k else None
    return ("%s %d->%d bit, class %s: clauses %s violated; last write %s, last read %s; forwarded AW %s; "
            "master W beats %d, slave W beats %d, master R beats %d of %d" % (
                _dutname(spec["from"], spec["to"]), spec["from"], spec["to"], case["cls"], ",".join(clauses), _fmt_op(w),
                _fmt_op(r), "addr=0x%x len=%d size=%d burst=%d" % tuple(t_aw) if t_aw else "none",
                len(rec["f_w"]), len(rec["t_w"]), len(rec["f_r"]), sum(x[1] + 1 for x in case["reads"])))


def run_conv(report, tier, seed, scratch, log=print):
    rnd = random.Random(seed * 7919 + 110)
    cfgs = conv_plan(tier, scratch)
    jobs = []
    for fb, tb, reqs in cfgs:
        spec = {"from": fb * 8, "to": tb * 8}
        cases = conv_cases(fb, tb, reqs, tier, rnd)
        log("converter %d->%d bit: %d requests (%d supported), %d runs" % (
            fb * 8, tb * 8, len(reqs), sum(1 for _, c in reqs if c == "supported"), len(cases)))
        for i in range(0, len(cases), 25):
            jobs.append((spec, cases[i:i + 25], "compiled"))
    t0 = time.time()
    pool = _pool()
    try:
        outs = pool.map(fam.conv_record, jobs, chunksize=1)
    finally:
        pool.terminate()
    flat = [(ji, ci, rec) for ji, o in enumerate(outs) for ci, rec in enumerate(o)]
    log("recorded %d converter runs, %d cycles in %.1fs" % (len(flat), sum(r["cycles"] for _, _, r in flat),
                                                           time.time() - t0))
    jw = {"runs_with_junk_on_idle_lines": sum(r["junk"] for _, _, r in flat),
          "channel_cycles_with_junk": sum(r["junk_cycles"] for _, _, r in flat),
          "idle_w_or_r_cycles_with_last_high": sum(r["junk_last"] for _, _, r in flat),
          "stalled_runs_without_junk": sum(1 for ji, ci, r in flat if not r["junk"] and jobs[ji][1][ci]["stall"] > 0)}
    if not all(jw.values()):
        raise MachineryError("vacuous converter stimulus: %r" % jw)
    report.add(conv_witnesses=jw)
    report.add(conv_runs=len(flat), conv_cycles_recorded=sum(r["cycles"] for _, _, r in flat),
               conv_requests={"%d->%d" % (fb * 8, tb * 8): len(reqs) for fb, tb, reqs in cfgs})
    # chunks bounded by number of transfers
    chunks, cur, n = [], [], 0
    for item in flat:
        sz = len(item[2]["f_w"]) + len(item[2]["t_w"]) + len(item[2]["f_r"]) + len(item[2]["t_r"]) + 10
        if cur and (n + sz > 60000 or len(cur) >= CONV_CHUNK):
            chunks.append(cur)
            cur, n = [], 0
        cur.append(item)
        n += sz
    if cur:
        chunks.append(cur)
    table = {}          # (dut, ratio, class) -> [runs, failing runs, {clause: count}]
    failing = []
    with ThreadPoolExecutor(max_workers=3) as ex:
        judged = list(ex.map(lambda ch: conv_verdicts([r for _, _, r in ch], tier, scratch), chunks))
    for k, (chunk, (verdicts, st)) in enumerate(zip(chunks, judged)):
        report.add(states=st["states"], transitions=st["transitions"])
        log("judge converter chunk %d/%d: %d runs, TLC %.1fs" % (k + 1, len(chunks), len(chunk), st["wall"]))
        for i, (ji, ci, rec) in enumerate(chunk):
            spec = jobs[ji][0]
            key = (_dutname(spec["from"], spec["to"]), max(spec["from"], spec["to"]) // min(spec["from"], spec["to"]),
                   rec["cls"])
            e = table.setdefault(key, [0, 0, {}])
            e[0] += 1
            if verdicts[i]:
                e[1] += 1
                for c in verdicts[i]:
                    e[2][c] = e[2].get(c, 0) + 1
                failing.append((ji, ci, verdicts[i]))
            else:
                report.add(traces_validated_against_impl=1)
    # vacuity: every configuration of the plan (the equal-width one included) was run in its claimed class
    for fb, tb, _ in cfgs:
        if not table.get((_dutname(fb * 8, tb * 8), max(fb, tb) // min(fb, tb), "supported"), [0])[0]:
            raise MachineryError("no judged run of the supported class for the converter %d->%d bit" % (fb * 8, tb * 8))
    if not any(fb == tb for fb, tb, _ in cfgs):
        raise MachineryError("the converter plan lacks the equal-width configuration of AXIConverter")
    report.add(conv_classes=[{"dut": k[0], "ratio": k[1], "class": k[2], "runs": v[0], "failing_runs": v[1],
                              "violated_clauses": v[2]} for k, v in sorted(table.items())])
    for ji, ci, rec in flat[:1]:
        report.sample({"converter": "%d->%d" % (jobs[ji][0]["from"], jobs[ji][0]["to"]),
                       "writes": rec["writes"], "forwarded_aw": rec["t_aw"], "slave_w_beats": rec["t_w"][:3],
                       "reads": rec["reads"], "master_r_beats": rec["f_r"][:3]})
    # ---- confirm on the reference evaluator and report.  Reported: every failing run of the supported class
    #      (capped per clause), and per (converter, class, first violated clause) the first failing run.
    seen = {}
    todo = []
    for ji, ci, clauses in failing:
        spec, cases, _ = jobs[ji]
        case = cases[ci]
        if case["cls"] == "supported":
            key = (spec["from"], spec["to"], case["cls"], clauses[0], case["stall"] > 0)
        else:
            key = (_dutname(spec["from"], spec["to"]), case["cls"], clauses[0], case["stall"] > 0)
        seen[key] = seen.get(key, 0) + 1
        if seen[key] > (2 if case["cls"] == "supported" else 1):
            continue
        todo.append((spec, case, clauses))
    if todo:
        t0 = time.time()
        pool = _pool()
        try:
            refs = pool.map(fam.conv_record, [(spec, [case], "ref") for spec, case, _ in todo], chunksize=1)
        finally:
            pool.terminate()
        refs = [r[0] for r in refs]
        verdicts, st = conv_verdicts(refs, tier, scratch)
        log("confirmed %d failing runs on the reference evaluator in %.1fs" % (len(todo), time.time() - t0))
        for i, (spec, case, clauses) in enumerate(todo):
            if clauses[0] not in verdicts[i]:
                raise MachineryError("converter violation of %s not reproduced by the reference evaluator (%r)" % (
                    clauses[0], verdicts[i]))
            sig = {"dut": _dutname(spec["from"], spec["to"]), "from": spec["from"], "to": spec["to"],
                   "class": case["cls"], "clause": clauses[0], "clauses": verdicts[i], "master_stalls": case["stall"] > 0,
                   "request": case["writes"][-1][:4]}
            report.violation(sig, {"kind": "conv", "spec": spec, "case": case, "clause": clauses[0], "tier": tier,
                                   "observed": refs[i]}, _conv_text(spec, case, refs[i], verdicts[i]))


# ============================================================================== D: L2 model, M mode + drift
M_CLAUSES = ["M_BeatAddress", "M_FirstLast", "M_ConsumedOnce", "M_ReturnsToIdle", "M_OffsetFits"]


def run_model(tier, scratch):
    """pure TLC: the L2 transcription of AXIBurst2Beat against the AMBA formulae (no code involved)"""
    return tlcmod.run("axiburst/AxiB2BModel", _cfg(M_CLAUSES), env={"AXI_TIER": tier, "TRACES": "/dev/null"},
                      workers=4 if tier == "quick" else 6, timeout=1700, scratch=scratch, heap="8g")


def finish_model(report, res, recorded, tier, scratch, seed, log=print):
    if res.errors:
        raise MachineryError("TLC failed on the L2 model: " + " | ".join(res.errors[:5]))
    log("L2 model of AXIBurst2Beat vs. the AXI formulae: %d states, TLC %.1fs%s" % (
        res.distinct, res.wall, ", %s VIOLATED BY THE MODEL" % res.violated if res.violated else ""))
    ok = res.violated is None
    if not ok:
        report.note("MODEL-DRIFT axiburst: the L2 model violates %s (trace %r); this is a statement about the model, "
                    "not about the code" % (res.violated, res.trace[-1]["vars"] if res.trace else None))
    # drift: the model must reproduce recorded bursts of the real netlist address bit for address bit
    rnd = random.Random(seed + 4242)
    pool_cases = [c for name in recorded for o in recorded[name][1] for c in o if c["req"][2] <= 63]
    sample = rnd.sample(pool_cases, min(len(pool_cases), 3000 if tier == "quick" else 12000))
    path = os.path.join(scratch, "drift.json")
    with open(path, "w") as f:
        json.dump({"cases": sample}, f, separators=(",", ":"))
    dres = _tlc("axiburst/AxiB2BModel", _cfg(["ModelAgrees"], "DriftInit", "DriftNext"),
                {"TRACES": path, "AXI_TIER": tier}, scratch, "model drift")
    os.unlink(path)
    if dres.violated:
        v = dres.trace[-1]["vars"] if dres.trace else {}
        tid = v.get("tid")
        req = sample[tid - 1]["req"] if isinstance(tid, int) and tid >= 1 else None
        report.note("MODEL-DRIFT axiburst: the L2 model of AXIBurst2Beat and the real netlist differ observably for %s; "
                    "the L2 numbers are not part of this run's evidence" % (_fmt_req(req) if req else "?"))
        ok = False
    elif dres.distinct != len(sample):
        raise MachineryError("drift check consumed %d of %d cases" % (dres.distinct, len(sample)))
    if ok:
        report.add(l2_model_states=res.distinct, l2_model_transitions=res.generated, l2_drift_cases=len(sample),
                   l2_status="model satisfies the L1 clauses on its whole space and reproduces the recorded bursts")
    else:
        report.add(l2_status="MODEL-DRIFT")


# ============================================================================== replay
def replay(path):
    with open(path) as f:
        r = json.load(f)
    kind = r.get("kind")
    if kind is None:
        from ..gcheck import replay_file
        return replay_file(path)
    scratch = _scratch()
    try:
        if kind == "b2b":
            reqs = [tuple(x) for x in r["requests"]]
            ref = fam.b2b_record((reqs, r["stallmode"], r["seed"], "ref"))
            try:
                fail, _ = b2b_judge([ref[r["index"]]], r["tier"], [r["clause"]], scratch)
            except MachineryError as ex:
                return False, [{"clause": "not a legal stimulus any more: %s" % ex}]
            return fail is not None, ([fail] if fail else [])
        if kind == "conv":
            ref = fam.conv_record((r["spec"], [r["case"]], "ref"))[0]
            try:
                got = conv_judge_one(ref, r["tier"], [r["clause"]], scratch)
            except MachineryError as ex:
                return False, [{"clause": "not a legal stimulus any more: %s" % ex}]
            return got == r["clause"], ([{"clause": got}] if got else [])
        raise MachineryError("unknown replay kind %r" % kind)
    finally:
        shutil.rmtree(scratch, ignore_errors=True)


def run(prop, report, tier, seed, log=print):
    scratch = _scratch()
    try:
        report.assume("FHDL netlist semantics = litex/gen/sim/core.py (compiled stepper cross-checked against it)")
        report.assume("the burst producer keeps valid and the request steady until it is consumed (stream protocol)")
        report.assume("addresses are judged as (4 KB page, offset): a legal AXI burst never leaves its page")
        report.assume("converters: the claimed request class is AxiConvCases!Class = \"supported\" (full-width bursts; "
                      "up-conversion: start on a wide-bus word and whole wide words; down-conversion: FIXED only with "
                      "one beat, multiplied length still a legal AXI length); requests outside it are run as well and "
                      "their failures are listed findings")
        report.assume("converter slave Env answers in order, one response code per burst, drives POISON on byte lanes "
                      "that are not active in a read beat; the AXI master Env issues AW/W/AR independently")
        with ThreadPoolExecutor(max_workers=1) as bg:
            mfut = bg.submit(run_model, tier, scratch)          # pure TLC, runs beside the code-bound parts
            recorded = run_b2b_cases(report, tier, seed, scratch, log)
            run_b2b_graph(report, tier, log)
            run_conv(report, tier, seed, scratch, log)
            finish_model(report, mfut.result(), recorded, tier, scratch, seed, log)
        report.cov["exhaustive"] = True
    finally:
        shutil.rmtree(scratch, ignore_errors=True)
