"""C15: event managers (G-mode exhaustive product) and their clients UART / Timer / GPIOIn (G-mode + T-mode)."""
import json
import os
import random

from ..gcheck import GFamily, run_batches, schedule_from_trace, linear_replay
from .. import tracecheck
from .. import l2
from ..families import event as fam
from ..families import event_l2 as el
from ..families import eventclients as cfam
from ..report import ROOT, load_findings, MachineryError

INVS = ["IrqMeansPendingAndEnabled", "PendingRule", "ClearOnlyByW1C", "StatusShowsRaw", "EnableIsWritten",
        "SharedIrqIsOr", "ReadBack"]
FAMILY = GFamily("event/EventGraph", "event/EventTrace", "harness.families.event:make",
                 fmt="hash", clause_map={k: k for k in INVS},
                 describe=lambda s: "EventManager(kinds=%s, mgr=%s)" % (s["kinds"], s["mgr"]))


# clients of the event manager (contract specs/event/ClientContract.tla)
CL_INVS = ["ClientIrqMeansPendingAndEnabled", "ClientPendingRule", "ClientClearOnlyByW1C", "ClientEnableIsWritten",
           "ClientReadBack", "ClientStatusIsCondition", "UartFlagsMatchPhy", "RxHeadIsOldest", "RxReadableInTime",
           "RxFullOnlyWhenFull", "TxHeadIsOldest", "TxDeliveredInTime", "TxFullOnlyWhenFull"]


def _cdesc(s):
    return {"uart": "UART(%s, depth=%d)" % (s.get("dir", "rx+tx"), s.get("depth", 2)), "timer": "Timer(width=32)",
            "gpio": "GPIOIn(pins=%d, with_irq%s)" % (s.get("pins", 1), ", env=%s" % s["env"] if s.get("env") else "")}[s["cls"]]


CLIENTS = GFamily("event/ClientGraph", "event/ClientTrace", "harness.families.eventclients:make", fmt="hash",
                  clause_map={k: k for k in CL_INVS}, describe=_cdesc)
NOTES_FINDINGS = os.path.join(ROOT, "notes", "C15b_findings.json")


def _notes_findings(report):
    """entries of notes/C15b_findings.json for this property whose id /verif/known_findings.json does not list yet"""
    try:
        with open(NOTES_FINDINGS) as f:
            entries = json.load(f)
    except FileNotFoundError:
        return
    have = {f.get("id") for f in load_findings()} | {f.get("id") for f in report.findings}
    for e in entries:
        if e.get("property") == report.prop and e.get("id") not in have:
            report.findings.append(e)


def client_trace(spec, cfg, ncycles, rnd, pidle):
    """cycle-by-cycle run of a real client on the reference evaluator (no state loading) under a random legal
    environment (software operations from cfg["ops"], PHY / pad activity per kind)"""
    from ..fhdl_step import Stepper
    dut, ins, outs = cfam.make(spec)
    st = Stepper(dut, ins, outs, engine="ref")
    st.load(st.reset_state, tuple(0 for _ in ins))
    ops = cfg["ops"]
    pprev = ptog = 0
    slow = rnd.random() < 0.5
    ev = []
    for _ in range(ncycles):
        op = ops[0] if rnd.random() < pidle else rnd.choice(ops)
        x = [0, 0, 0]
        if cfg["kind"] == "uart":
            if cfg["rxchars"] and rnd.random() < 0.4:
                x[0], x[1] = 1, rnd.choice(cfg["rxchars"])
            x[2] = rnd.choice(cfg["txrdy"])
        elif cfg["kind"] == "gpio":
            p = pprev
            for n in range(cfg["pins"]):
                if not (ptog >> n) & 1 and rnd.random() < (0.08 if slow else 0.4):      # b2b = 0: never twice in a row
                    p ^= 1 << n
            x[0] = p
            ptog, pprev = p ^ pprev, p
        iv = list(op) + x
        st.load(st.state(), tuple(iv))
        o = [int(v) for v in st.peek()]
        st.tick()
        ev.append([iv, o])
    return ev


def run_client_tmode(report, tier, seed):
    rnd = random.Random(seed * 15485863 + 11)
    ntr = 3 if tier == "quick" else 12
    ncyc = 300 if tier == "quick" else 1500
    traces, meta = [], []
    for spec, cfg in cfam.tmode_configs(tier):
        for k in range(ntr):
            traces.append({"cfg": cfg, "ev": client_trace(spec, cfg, ncyc, rnd, rnd.choice([0.2, 0.6, 0.9]))})
            meta.append(spec)
    fails, st = tracecheck.validate(CLIENTS.trace_module, traces, CL_INVS)
    report.add(traces_validated_against_impl=len(traces), trace_states=st["states"])
    report.sample({"client_trace_head": {"dut": CLIENTS.describe(meta[0]), "first_cycles": traces[0]["ev"][:4]}})
    for f in fails:
        spec = meta[f["tid"]]
        tr = traces[f["tid"]]
        sched = [e[0] for e in tr["ev"][:f["l"]]]
        report.violation({"dut": spec, "clause": f["clause"]},
                         {"family": CLIENTS.graph_module, "factory": CLIENTS.factory_path, "spec": spec,
                          "cfg": tr["cfg"], "schedule": sched, "trace_module": CLIENTS.trace_module,
                          "trace_invariants": CL_INVS, "observed": tr["ev"][:f["l"]], "clause": f["clause"]},
                         "%s violated by %s in a recorded trace at cycle %s" % (
                             f["clause"], CLIENTS.describe(spec), f["l"]))


def _projection_drift(spec, ex):
    return {"spec": spec, "m": {}, "clause": "Projection (a modelled register was not found by name: %s)" % (ex,),
            "case": [{}, [], [], {}]}


# ----------------------------------------------------------------------------- managers with 3 - 6 sources (T-mode)
def run_manager_tmode(report, tier, seed, l2state):
    """cycle-by-cycle runs of the real EventManager(s) + CSRBank(s) netlists with 3 - 6 sources under random legal
    environments (free trigger waveforms, any CSR operation), judged by the same contract (specs/event/EventTrace.tla).
    A 3-source manager already has more than 10^6 graph edges, so these sizes are not explored exhaustively on the
    netlist; the L2 lane adds the exhaustive exploration of the model (M-mode) and the conformance of the model to
    every cycle recorded here."""
    rnd = random.Random(seed * 2750159 + 5)
    ntr, ncyc = (2, 400) if tier == "quick" else (3, 1000)
    traces, meta, duts = [], [], []
    for spec in el.run_configs(tier):
        cfg = el.contract_cfg(spec)
        allc = []
        m = el.model_cfg(spec)
        for k in range(ntr):
            sched = el.random_schedule(rnd, spec, ncyc, rnd.choice([0.05, 0.2, 0.5]), rnd.choice([0.2, 0.5, 0.8]))
            try:
                reset, cases = l2.run_cases(FAMILY.factory_path, spec, el.LANE.proj_path, sched)
                ev = [[c[1], c[2]] for c in cases]
                allc += cases
            except KeyError as ex:      # a modelled register is gone: the run is still judged by the contract
                if not any(d["clause"].startswith("Projection") for d in l2state["drifts"]):
                    l2state["drifts"].append(_projection_drift(spec, ex))
                m = None
                ev = linear_replay(FAMILY.factory_path, spec, sched, shim=FAMILY.shim)
            traces.append({"cfg": cfg, "ev": ev})
            meta.append(spec)
        if m is not None:
            duts.append({"spec": spec, "m": m, "reset": reset, "cases": allc})
    fails, st = tracecheck.validate(FAMILY.trace_module, traces, INVS)
    report.add(traces_validated_against_impl=len(traces), trace_states=st["states"], manager_run_cycles=sum(len(t["ev"]) for t in traces))
    report.sample({"manager_trace_head": {"dut": FAMILY.describe(meta[0]), "first_cycles": traces[0]["ev"][:4]}})
    for f in fails:
        spec = meta[f["tid"]]
        tr = traces[f["tid"]]
        sched = [e[0] for e in tr["ev"][:f["l"]]]
        report.violation({"dut": spec, "clause": f["clause"]},
                         {"family": FAMILY.graph_module, "factory": FAMILY.factory_path, "spec": spec,
                          "cfg": tr["cfg"], "schedule": sched, "trace_module": FAMILY.trace_module,
                          "trace_invariants": INVS, "observed": tr["ev"][:f["l"]], "clause": f["clause"]},
                         "%s violated by %s in a recorded trace at cycle %s" % (f["clause"], FAMILY.describe(spec), f["l"]))
    n, dr = el.conform(el.LANE, el.reshape_duts(duts), notes=l2state["notes"])
    l2state["run_duts"] += len(duts)
    l2state["run_cases"] += n
    l2state["drifts"] += dr


# ----------------------------------------------------------------------------- L2 lane (DESIGN.md section 9)
def _l2_on_accept(state):
    def cb(gl):
        try:
            duts = el.reshape_duts(l2.graph_cases(gl, el.LANE, cap_per_dut=state.get("cap")))
        except KeyError as ex:          # a register of the model is not in the netlist any more: drift, not a failure
            state["drifts"].append(_projection_drift(gl.duts[0].spec, ex))
            return
        n, dr = el.conform(el.LANE, duts, notes=state["notes"])
        state["graph_cases"] += n
        state["graph_duts"] += len(duts)
        state["drifts"] += dr
    return cb


def run_l2(report, tier, seed, state):
    """(a) graph conformance happened in the G-mode batches, run conformance in run_manager_tmode (state);
    (b) M-mode: model x Env x the clauses of the contract for managers with 4 - 6 sources; (c) drift notes; a drifting
    DUT class is explored against the L1 contract at the thorough tier's parameters."""
    report.add(l2_model={"module": "event/EventModel (+ csrbank/CsrBankModel)", "graph_duts_conformant": state["graph_duts"],
                         "graph_edges_judged": state["graph_cases"],
                         "graph_edge_sample": ("every k-th edge, at most %d per DUT (all edges in the thorough tier)" % state["cap"])
                         if state.get("cap") else "all edges", "run_duts": state["run_duts"],
                         "run_cycles_judged": state["run_cases"]})
    mcfgs = el.mmode_configs(tier)
    try:
        res = l2.mmode(el.LANE.m_module, [{"c": x["c"], "m": x["m"], "env": x["env"]} for x in mcfgs], INVS, [],
                       timeout=1500 if tier == "quick" else 1200, include=el.INCLUDE)
    except MachineryError as ex:        # the lane never fails a check: TLC killed / timed out on the model
        report.note("L2 M-mode (event) could not be evaluated: %s" % str(ex).split("\n")[0][:200])
        res = None
    if res is None:
        for t in state["notes"]:
            report.note(t)
        l2.report_drifts(report, el.LANE, state["drifts"][:5])
        return
    report.add(states=res.distinct, transitions=res.generated)
    report.cov["l2_model"].update({"mmode_configs": len(mcfgs), "mmode_states": res.distinct,
                                   "mmode_transitions": res.generated, "mmode_wall_s": round(res.wall, 1),
                                   "mmode_largest": "%d sources in %d manager(s)" % max(
                                       (len(x["spec"]["kinds"]), max(x["spec"]["mgr"])) for x in mcfgs),
                                   "mmode_clauses": INVS})
    if res.violated:
        # a counterexample on the model: it counts only if the real netlist shows it too
        x = mcfgs[res.trace[0]["vars"]["d"] - 1]
        prefix, _ = schedule_from_trace(res)
        ev = linear_replay(FAMILY.factory_path, x["spec"], list(prefix), shim=FAMILY.shim)
        tinv = [res.violated] if res.violated in INVS else INVS
        fails, _ = tracecheck.validate(FAMILY.trace_module, [{"cfg": x["c"], "ev": ev}], tinv)
        if fails:
            report.violation({"dut": x["spec"], "clause": fails[0]["clause"], "gclause": res.violated},
                             {"family": FAMILY.graph_module, "factory": FAMILY.factory_path, "spec": x["spec"], "cfg": x["c"],
                              "schedule": [list(i) for i in prefix], "trace_module": FAMILY.trace_module,
                              "trace_invariants": tinv, "observed": ev, "clause": fails[0]["clause"]},
                             "%s violated by %s (found on the L2 model in M-mode, reproduced on the netlist) after %d cycles" % (
                                 fails[0]["clause"], FAMILY.describe(x["spec"]), len(prefix)))
        else:
            report.note("MODEL-DRIFT event: M-mode counterexample to %s on the model of %s does not reproduce on the netlist" % (
                res.violated, FAMILY.describe(x["spec"])))
            report.add(l2_model_drifts=1)
    for t in state["notes"]:
        report.note(t)
    l2.report_drifts(report, el.LANE, state["drifts"][:5])          # one note per drifting DUT, at most five
    if len(state["drifts"]) > 5:
        report.note("MODEL-DRIFT %s: %d more DUT(s) / case(s) drift" % (el.LANE.name, len(state["drifts"]) - 5))
        report.add(l2_model_drifts=len(state["drifts"]) - 5)
    if state["drifts"] and tier == "quick" and not report.violations:
        # nothing has been reported yet although the code is no longer what was model-checked: look deeper
        kinds = {k for d in state["drifts"] for k in d["spec"]["kinds"]}
        have = {json.dumps(s_, sort_keys=True) for s_, _ in fam.configs("quick")}
        esc = [(s_, c_) for s_, c_ in fam.configs("thorough")
               if set(s_["kinds"]) & kinds and json.dumps(s_, sort_keys=True) not in have]
        report.note("escalation: %d thorough-tier configuration(s) with sources of kind %s explored against the L1 contract" % (
            len(esc[:8]), sorted(kinds)))
        if esc:
            run_batches(FAMILY, report, [esc[:4], esc[4:8]] if len(esc) > 4 else [esc], INVS, [], spec_budget=400000,
                        total_budget=1200000)


def run(prop, report, tier, seed):
    _notes_findings(report)
    cfgs = fam.configs(tier)
    l2state = {"graph_cases": 0, "graph_duts": 0, "run_duts": 0, "run_cases": 0, "drifts": [], "notes": [],
               "cap": 30000 if tier == "quick" else None}   # quick: stride sample of at most 30k edges per DUT
    report.assume("one CSR bus operation per cycle; 8-bit CSR bus; managers with 1-2 sources (every pair of kinds, one "
                  "and two managers) explored exhaustively in G-mode, managers with 3-6 sources of mixed kinds run "
                  "cycle by cycle in T-mode; the W1C clear may take 1..3 cycles from the bus write to the source's "
                  "clear strobe")
    stats = run_batches(FAMILY, report, [cfgs[i:i + 6] for i in range(0, len(cfgs), 6)], INVS, [],
                        spec_budget=400000, total_budget=1500000, on_accept=_l2_on_accept(l2state))
    report.add(duts_explored=len(stats), clauses=INVS, per_dut=stats)
    run_manager_tmode(report, tier, seed, l2state)
    report.assume("L2 (specs/event/EventModel.tla on top of specs/csrbank/CsrBankModel.tla): register-level model of the "
                  "three event sources, EventManager.do_finalize (status / pending / enable CSRs, registered pending.re, "
                  "clear, irq), CSRBank and SharedIRQ; it gives no verdict - every edge of the complete G-mode graphs and "
                  "every cycle of the 3-6-source runs must be reproduced by the model (else MODEL-DRIFT and escalation), "
                  "and the model is checked against the same clauses in M-mode for 4-6 sources under narrowed "
                  "trigger / data alphabets")
    run_l2(report, tier, seed, l2state)
    # ---- clients: UART (harness PHY), Timer, GPIOIn(with_irq), each behind a real CSRBank
    report.assume("clients: software issues one CSR operation per cycle from the listed alphabet (cfg.ops in the "
                  "evidence samples); UART directions explored separately in G-mode (FIFO depth 2) and together in "
                  "T-mode (depth 4); Timer is the 32-bit core with loads/reloads written through the low byte; "
                  "GPIOIn: the cycle in which mode/edge of a pin changes leaves that pin's pending bit free, pads "
                  "change at most once in two consecutive cycles (the two recorded GPIO findings are demonstrated "
                  "in environments without these two restrictions)")
    ccfgs = cfam.configs(tier)
    cstats = run_batches(CLIENTS, report, [ccfgs], CL_INVS, [], spec_budget=1500000, total_budget=4000000)
    report.add(duts_explored=len(cstats), clauses=CL_INVS, per_dut=cstats)
    for spec, cfg in ccfgs:
        report.sample({"client": CLIENTS.describe(spec), "software_ops": cfg["ops"][:12], "registers": cfg["regs"]}, cap=12)
    dstats = run_batches(CLIENTS, report, [cfam.demo_configs()], CL_INVS, [], spec_budget=200000, followup=False)
    report.add(duts_explored=len(dstats), per_dut=dstats)
    run_client_tmode(report, tier, seed)
    report.cov["exhaustive"] = True
