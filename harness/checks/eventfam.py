"""C15: event managers (G-mode exhaustive product)."""
from ..gcheck import GFamily, run_batches
from ..families import event as fam

INVS = ["IrqMeansPendingAndEnabled", "PendingRule", "ClearOnlyByW1C", "StatusShowsRaw", "EnableIsWritten",
        "SharedIrqIsOr", "ReadBack"]
FAMILY = GFamily("event/EventGraph", "event/EventTrace", "harness.families.event:make",
                 fmt="hash", clause_map={k: k for k in INVS},
                 describe=lambda s: "EventManager(kinds=%s, mgr=%s)" % (s["kinds"], s["mgr"]))


def run(prop, report, tier, seed):
    cfgs = fam.configs(tier)
    report.assume("one CSR bus operation per cycle; 8-bit CSR bus; managers with 1-3 sources; the W1C clear may "
                  "take 1..3 cycles from the bus write to the source's clear strobe")
    stats = run_batches(FAMILY, report, [cfgs[i:i + 6] for i in range(0, len(cfgs), 6)], INVS, [],
                        spec_budget=400000)
    report.add(duts_explored=len(stats), clauses=INVS, per_dut=stats)
    report.cov["exhaustive"] = True
